"""Intraprocedural def-use ("origins"), dict-valued property evaluation and storage-attribute
resolution.  Purely syntactic/abstract: nothing is executed."""

from __future__ import annotations

import ast
import copy
from dataclasses import dataclass, field

from .model import (
    ClassInfo,
    FuncInfo,
    Repo,
    body_without_docstring,
    dotted,
    is_self_attr,
    unparse,
    walk_no_nested,
)

# ----------------------------------------------------------------------------- local def-use


class LocalDefs:
    """Flow-insensitive map  local name -> list of defining expressions  for one function.

    Tuple unpacking ``a, b = X`` is recorded as ``a -> X[0]``, ``b -> X[1]`` (synthesised
    Subscript nodes); loop / comprehension targets are recorded as ``x -> ITER(it)`` where the
    marker is a synthesised ``Subscript(it, Name('*'))`` so that element-of is distinguishable.
    """

    def __init__(self, fn: ast.FunctionDef | ast.Lambda):
        self.fn = fn
        self.defs: dict[str, list[ast.AST]] = {}
        self.params: list[str] = []
        a = fn.args
        for arg in list(a.posonlyargs) + list(a.args) + list(a.kwonlyargs):
            self.params.append(arg.arg)
        if a.vararg:
            self.params.append(a.vararg.arg)
        if a.kwarg:
            self.params.append(a.kwarg.arg)
        body = fn.body if isinstance(fn.body, list) else [fn.body]
        for stmt in body:
            for n in walk_no_nested(stmt) if isinstance(stmt, ast.stmt) else ast.walk(stmt):
                self._visit(n)

    def _bind(self, target: ast.AST, value: ast.AST) -> None:
        if isinstance(target, ast.Name):
            self.defs.setdefault(target.id, []).append(value)
        elif isinstance(target, (ast.Tuple, ast.List)):
            if isinstance(value, (ast.Tuple, ast.List)) and len(value.elts) == len(target.elts) and not any(
                isinstance(e, ast.Starred) for e in list(value.elts) + list(target.elts)
            ):
                for t, v in zip(target.elts, value.elts):
                    self._bind(t, v)
                return
            for i, t in enumerate(target.elts):
                if isinstance(t, ast.Starred):
                    self._bind(t.value, value)
                else:
                    sub = ast.Subscript(value=value, slice=ast.Constant(i), ctx=ast.Load())
                    ast.copy_location(sub, value)
                    self._bind(t, sub)
        elif isinstance(target, ast.Starred):
            self._bind(target.value, value)

    @staticmethod
    def elem_of(it: ast.AST) -> ast.AST:
        sub = ast.Subscript(value=it, slice=ast.Name(id="*", ctx=ast.Load()), ctx=ast.Load())
        ast.copy_location(sub, it)
        return sub

    def _visit(self, n: ast.AST) -> None:
        if isinstance(n, ast.Assign):
            for t in n.targets:
                self._bind(t, n.value)
        elif isinstance(n, ast.AnnAssign) and n.value is not None:
            self._bind(n.target, n.value)
        elif isinstance(n, ast.AugAssign):
            self._bind(n.target, n.value)
        elif isinstance(n, (ast.For, ast.AsyncFor)):
            self._bind(n.target, self.elem_of(n.iter))
        elif isinstance(n, ast.comprehension):
            self._bind(n.target, self.elem_of(n.iter))
        elif isinstance(n, ast.NamedExpr):
            self._bind(n.target, n.value)
        elif isinstance(n, (ast.With, ast.AsyncWith)):
            for item in n.items:
                if item.optional_vars is not None:
                    self._bind(item.optional_vars, item.context_expr)

    # --------------------------------------------------------------------------------- queries
    def expand(self, expr: ast.AST, limit: int = 400) -> list[ast.AST]:
        """All expressions *expr* may take its value from (transitively through local names),
        including *expr* itself.  Each returned node is a maximal expression; sub-expressions
        are not listed (use :func:`reads` for that)."""
        out: list[ast.AST] = []
        seen: set[int] = set()
        seen_names: set[str] = set()
        stack = [expr]
        while stack and len(out) < limit:
            e = stack.pop()
            if id(e) in seen:
                continue
            seen.add(id(e))
            out.append(e)
            for sub in ast.walk(e):
                if isinstance(sub, ast.Name) and sub.id in self.defs and sub.id not in seen_names:
                    seen_names.add(sub.id)
                    stack.extend(self.defs[sub.id])
        return out

    def attr_reads(self, expr: ast.AST) -> set[tuple[str, ...]]:
        """Attribute chains rooted at a *parameter* of the function that *expr* may derive from:
        ``('p', 'axis')``, ``('sl1', 'weight', 'shape')`` ...  (maximal chains only)."""
        out: set[tuple[str, ...]] = set()
        for e in self.expand(expr):
            for chain in maximal_chains(e):
                if chain[0] in self.params and chain[0] not in self.defs:
                    out.add(chain)
                elif chain[0] in self.params:
                    # parameter re-assigned in the body (``sl = GaussianLayer(sl.scope..)``):
                    # still report, the caller decides
                    out.add(chain)
        return out

    def calls(self, expr: ast.AST) -> list[ast.Call]:
        out = []
        for e in self.expand(expr):
            for sub in ast.walk(e):
                if isinstance(sub, ast.Call):
                    out.append(sub)
        return out


def maximal_chains(e: ast.AST) -> list[tuple[str, ...]]:
    """Maximal Name/Attribute chains occurring in *e* (``a.b.c`` once, not also ``a.b``).
    A chain is cut at calls/subscripts: ``sl.weight.ref()`` yields ``('sl','weight','ref')``."""
    out: list[tuple[str, ...]] = []

    def visit(n: ast.AST) -> None:
        if isinstance(n, (ast.Attribute, ast.Name)):
            d = dotted(n)
            if d is not None:
                out.append(tuple(d.split(".")))
                return
        for c in ast.iter_child_nodes(n):
            visit(c)

    visit(e)
    return out


# ------------------------------------------------------------------ dict-valued property eval


@dataclass
class DictVal:
    """Abstract value of a dict-building expression: key -> (value expr, owner class)."""

    items: dict[str, tuple[ast.AST, ClassInfo]] = field(default_factory=dict)
    opaque: list[str] = field(default_factory=list)  # things we could not interpret

    def copy(self) -> "DictVal":
        return DictVal(dict(self.items), list(self.opaque))


class ClassFacts:
    def __init__(self, repo: Repo):
        self.repo = repo
        self._dict_cache: dict[tuple[str, str], list[DictVal]] = {}
        self._storage_cache: dict[tuple[str, str], frozenset[str]] = {}

    # ------------------------------------------------------------------ dict properties
    def dict_property_paths(self, c: ClassInfo, name: str) -> list[DictVal]:
        """One DictVal per return path of the dict-valued property/method *name* of class *c*
        (``config``, ``params``, ``sub_modules``)."""
        key = (c.qualname, name)
        if key not in self._dict_cache:
            f = self.repo.lookup(c, name)
            self._dict_cache[key] = self._eval_dict_func(c, f) if f is not None else []
        return self._dict_cache[key]

    def dict_property(self, c: ClassInfo, name: str) -> DictVal:
        """Union over the return paths."""
        u = DictVal()
        for p in self.dict_property_paths(c, name):
            for k, v in p.items.items():
                u.items.setdefault(k, v)
            u.opaque.extend(p.opaque)
        return u

    def _eval_dict_func(self, c: ClassInfo, f: FuncInfo) -> list[DictVal]:
        assert f.cls is not None
        owner = f.cls
        results: list[DictVal] = []

        def eval_expr(e: ast.AST, env: dict[str, DictVal]) -> DictVal | None:
            if isinstance(e, ast.Dict):
                dv = DictVal()
                for k, v in zip(e.keys, e.values):
                    if k is None:  # **unpack
                        inner = eval_expr(v, env)
                        if inner is None:
                            dv.opaque.append(unparse(v))
                        else:
                            dv.items.update(inner.items)
                            dv.opaque.extend(inner.opaque)
                    elif isinstance(k, ast.Constant) and isinstance(k.value, str):
                        dv.items[k.value] = (v, owner)
                    else:
                        dv.opaque.append(unparse(k))
                return dv
            if isinstance(e, ast.Name) and e.id in env:
                return env[e.id].copy()
            if isinstance(e, ast.Call):
                fn = dotted(e.func)
                if fn == "dict":
                    if e.args:
                        base = eval_expr(e.args[0], env)
                        if base is None:
                            return None
                    else:
                        base = DictVal()
                    for kw in e.keywords:
                        if kw.arg is not None:
                            base.items[kw.arg] = (kw.value, owner)
                    return base
                return None
            if isinstance(e, ast.Attribute):
                # super().config  /  self.config handled by caller through MRO
                if (
                    isinstance(e.value, ast.Call)
                    and isinstance(e.value.func, ast.Name)
                    and e.value.func.id == "super"
                ):
                    pf = self.repo.lookup_after(c, owner, e.attr)
                    if pf is None:
                        return DictVal()
                    paths = self._eval_dict_func(c, pf)
                    u = DictVal()
                    for p in paths:
                        u.items.update(p.items)
                        u.opaque.extend(p.opaque)
                    return u
            return None

        def run(stmts: list[ast.stmt], env: dict[str, DictVal]) -> bool:
            """Interpret; returns True if the path fell through (no return)."""
            for i, s in enumerate(stmts):
                if isinstance(s, ast.Return):
                    dv = eval_expr(s.value, env) if s.value is not None else None
                    if dv is None:
                        dv = DictVal(opaque=[f"return {unparse(s.value)}"])
                    results.append(dv)
                    return False
                if isinstance(s, (ast.Assign, ast.AnnAssign)):
                    targets = s.targets if isinstance(s, ast.Assign) else [s.target]
                    value = s.value
                    if value is None:
                        continue
                    for t in targets:
                        if isinstance(t, ast.Name):
                            dv = eval_expr(value, env)
                            if dv is not None:
                                env[t.id] = dv
                        elif (
                            isinstance(t, ast.Subscript)
                            and isinstance(t.value, ast.Name)
                            and t.value.id in env
                        ):
                            if isinstance(t.slice, ast.Constant) and isinstance(t.slice.value, str):
                                env[t.value.id].items[t.slice.value] = (value, owner)
                            else:
                                env[t.value.id].opaque.append(unparse(t))
                    continue
                if isinstance(s, ast.Expr) and isinstance(s.value, ast.Call):
                    call = s.value
                    if (
                        isinstance(call.func, ast.Attribute)
                        and call.func.attr == "update"
                        and isinstance(call.func.value, ast.Name)
                        and call.func.value.id in env
                    ):
                        tgt = env[call.func.value.id]
                        for a in call.args:
                            inner = eval_expr(a, env)
                            if inner is None:
                                tgt.opaque.append(unparse(a))
                            else:
                                tgt.items.update(inner.items)
                        for kw in call.keywords:
                            if kw.arg is not None:
                                tgt.items[kw.arg] = (kw.value, owner)
                    continue
                if isinstance(s, ast.If):
                    env_t = {k: v.copy() for k, v in env.items()}
                    env_f = {k: v.copy() for k, v in env.items()}
                    run(list(s.body) + stmts[i + 1 :], env_t)
                    run(list(s.orelse) + stmts[i + 1 :], env_f)
                    return False
                if isinstance(s, (ast.Assert, ast.Pass, ast.Expr)):
                    continue
                if isinstance(s, ast.Raise):
                    return False
                # anything else: ignore conservatively
            return True

        run(body_without_docstring(f.node), {})
        return results

    # ------------------------------------------------------------------- storage resolution
    def storage_of_member(self, c: ClassInfo, name: str, _depth: int = 0) -> frozenset[str]:
        """The private storage attribute(s) behind ``self.<name>`` for an instance of *c*:
        a property / zero-argument method is expanded to the ``self`` attributes its return
        expressions read (recursively); a plain attribute is its own storage."""
        key = (c.qualname, name)
        if key in self._storage_cache:
            return self._storage_cache[key]
        self._storage_cache[key] = frozenset({name})  # recursion guard
        f = self.repo.lookup(c, name)
        res: set[str] = set()
        if f is None or _depth > 6:
            res.add(name)
        else:
            rets = [r for r in walk_no_nested(f.node) if isinstance(r, ast.Return) and r.value]
            if not rets:
                res.add(name)
            ld = LocalDefs(f.node)
            for r in rets:
                res |= self.storage_of_expr(c, r.value, ld, _depth + 1)
        out = frozenset(res)
        self._storage_cache[key] = out
        return out

    def storage_of_expr(
        self, c: ClassInfo, expr: ast.AST, ld: LocalDefs | None = None, _depth: int = 0
    ) -> set[str]:
        res: set[str] = set()
        exprs = ld.expand(expr) if ld is not None else [expr]
        for e in exprs:
            for n in ast.walk(e):
                a = is_self_attr(n)
                if a is not None:
                    res |= self.storage_of_member(c, a, _depth)
                elif (
                    isinstance(n, ast.Attribute)
                    and isinstance(n.value, ast.Call)
                    and isinstance(n.value.func, ast.Name)
                    and n.value.func.id == "super"
                ):
                    res |= self.storage_of_member(c, n.attr, _depth)
        return res

    # ------------------------------------------------------------------ __init__ parameters
    def init_func(self, c: ClassInfo) -> FuncInfo | None:
        return self.repo.lookup(c, "__init__")

    def init_param_storage(self, c: ClassInfo, pname: str, _owner: ClassInfo | None = None, _depth: int = 0) -> set[str]:
        """``self`` attributes the ``__init__`` parameter *pname* flows into (through
        local re-assignments and the ``super().__init__`` chain)."""
        f = self.repo.lookup(c, "__init__") if _owner is None else self.repo.lookup_after(c, _owner, "__init__")
        if f is None or _depth > 6:
            return set()
        ld = LocalDefs(f.node)
        res: set[str] = set()

        def derives(e: ast.AST) -> bool:
            for x in ld.expand(e):
                for n in ast.walk(x):
                    if isinstance(n, ast.Name) and n.id == pname:
                        return True
            return False

        for n in walk_no_nested(f.node):
            if isinstance(n, (ast.Assign, ast.AnnAssign)):
                targets = n.targets if isinstance(n, ast.Assign) else [n.target]
                if n.value is None:
                    continue
                for t in targets:
                    a = is_self_attr(t)
                    if a is not None and derives(n.value):
                        res.add(a)
            elif isinstance(n, ast.Call):
                # self.register_buffer("name", value) / setattr(self, "name", value)
                if (
                    isinstance(n.func, ast.Attribute)
                    and n.func.attr in ("register_buffer", "register_parameter", "add_module")
                    and is_self_attr(n.func) is not None
                    and len(n.args) >= 2
                    and isinstance(n.args[0], ast.Constant)
                    and isinstance(n.args[0].value, str)
                    and derives(n.args[1])
                ):
                    res.add(n.args[0].value)
                # super().__init__(...)
                if (
                    isinstance(n.func, ast.Attribute)
                    and n.func.attr == "__init__"
                    and isinstance(n.func.value, ast.Call)
                    and isinstance(n.func.value.func, ast.Name)
                    and n.func.value.func.id == "super"
                ):
                    assert f.cls is not None
                    pf = self.repo.lookup_after(c, f.cls, "__init__")
                    if pf is None:
                        continue
                    from .model import bind_call

                    binding, _ = bind_call(n, pf.call_params)
                    for pn, arg in binding.items():
                        if derives(arg):
                            res |= self.init_param_storage(c, pn.lstrip("*"), f.cls, _depth + 1)
        return res


    # ---------------------------------------------------------------- reachable self reads
    def reachable_self_reads(self, c: ClassInfo, method: str, _seen: set[str] | None = None) -> set[str]:
        """``self`` attributes (storage level) read on some path from ``self.<method>``,
        following ``self.m()`` calls, properties and ``cls.m`` / ``Class.m`` helper calls."""
        seen = _seen if _seen is not None else set()
        if method in seen:
            return set()
        seen.add(method)
        f = self.repo.lookup(c, method)
        if f is None:
            return {method}
        res: set[str] = set()
        firstarg = f.node.args.args[0].arg if f.node.args.args else "self"
        for n in walk_no_nested(f.node):
            if isinstance(n, ast.Attribute) and isinstance(n.value, ast.Name) and n.value.id in (firstarg, "self", "cls"):
                target = self.repo.lookup(c, n.attr)
                if target is not None:
                    res |= self.reachable_self_reads(c, n.attr, seen)
                else:
                    res.add(n.attr)
            elif isinstance(n, ast.Attribute) and isinstance(n.value, ast.Name) and n.value.id == c.name:
                if self.repo.lookup(c, n.attr) is not None:
                    res |= self.reachable_self_reads(c, n.attr, seen)
            elif (
                isinstance(n, ast.Attribute)
                and isinstance(n.value, ast.Call)
                and isinstance(n.value.func, ast.Name)
                and n.value.func.id == "super"
            ):
                assert f.cls is not None
                pf = self.repo.lookup_after(c, f.cls, n.attr)
                if pf is not None:
                    # analyse the parent's implementation in the context of c
                    sub = ClassFacts(self.repo)
                    res |= self._reads_of_func(c, pf, seen)
        return res

    def _reads_of_func(self, c: ClassInfo, f: FuncInfo, seen: set[str]) -> set[str]:
        res: set[str] = set()
        for n in walk_no_nested(f.node):
            if isinstance(n, ast.Attribute) and isinstance(n.value, ast.Name) and n.value.id in ("self", "cls"):
                if self.repo.lookup(c, n.attr) is not None:
                    res |= self.reachable_self_reads(c, n.attr, seen)
                else:
                    res.add(n.attr)
        return res
