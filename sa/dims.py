"""Symbolic tensor dimensions: integer polynomials over positive-integer symbols.

Every symbol stands for an integer >= 1 (a tensor axis size, a fold count, an arity ...).  Two
dimensions are *the same* iff their normal forms are equal; they are *provably different sizes for
some valuation* iff the normal forms differ (distinct polynomials over the positive integers differ
somewhere).  That is the whole basis of the shape rules: a shape contract that holds only when two
independent symbols happen to coincide is a contract that fails for some circuit.
"""

from __future__ import annotations

from typing import Iterable

Mono = tuple[tuple[str, int], ...]  # sorted ((symbol, exponent), ...)

_ORDER: dict[str, int] = {}
NONNEG_PREFIXES = ("mod(", "floordiv(", "rank#", "loop_index", "nn:")  # "nn:<name>": a quantity whose domain includes 0 (a polynomial degree)


def sym_index(name: str) -> int:
    if name not in _ORDER:
        _ORDER[name] = len(_ORDER)
    return _ORDER[name]


def _mmul(a: Mono, b: Mono) -> Mono:
    d: dict[str, int] = dict(a)
    for s, e in b:
        d[s] = d.get(s, 0) + e
    return tuple(sorted((s, e) for s, e in d.items() if e))


class Dim:
    __slots__ = ("t", "_h")

    def __init__(self, t: dict[Mono, int]):
        self.t = {m: c for m, c in t.items() if c}
        self._h = None

    # ---- constructors
    @staticmethod
    def const(n: int) -> "Dim":
        return Dim({(): int(n)})

    @staticmethod
    def sym(name: str) -> "Dim":
        sym_index(name)
        return Dim({((name, 1),): 1})

    # ---- algebra
    def __add__(self, o: "Dim | int") -> "Dim":
        o = as_dim(o)
        t = dict(self.t)
        for m, c in o.t.items():
            t[m] = t.get(m, 0) + c
        return Dim(t)

    __radd__ = __add__

    def __neg__(self) -> "Dim":
        return Dim({m: -c for m, c in self.t.items()})

    def __sub__(self, o: "Dim | int") -> "Dim":
        return self + (-as_dim(o))

    def __rsub__(self, o: "Dim | int") -> "Dim":
        return as_dim(o) - self

    def __mul__(self, o: "Dim | int") -> "Dim":
        o = as_dim(o)
        t: dict[Mono, int] = {}
        for m1, c1 in self.t.items():
            for m2, c2 in o.t.items():
                m = _mmul(m1, m2)
                t[m] = t.get(m, 0) + c1 * c2
        return Dim(t)

    __rmul__ = __mul__

    def __pow__(self, n: int) -> "Dim":
        r = Dim.const(1)
        for _ in range(n):
            r = r * self
        return r

    def __eq__(self, o: object) -> bool:
        if isinstance(o, int):
            o = Dim.const(o)
        return isinstance(o, Dim) and self.t == o.t

    def __hash__(self) -> int:
        if self._h is None:
            self._h = hash(frozenset(self.t.items()))
        return self._h

    # ---- queries
    def is_const(self) -> bool:
        return all(m == () for m in self.t)

    def as_int(self) -> int | None:
        if self.is_const():
            return self.t.get((), 0)
        return None

    def symbols(self) -> set[str]:
        return {s for m in self.t for s, _ in m}

    def bounds(self) -> tuple[float, float]:
        """(lo, hi) over all valuations: every size symbol is >= 1; the opaque symbols that may be
        zero (a remainder, a quotient, a not-yet-fixed rank, a loop index) are >= 0."""
        lo = hi = 0.0
        for m, c in self.t.items():
            if m == ():
                lo += c
                hi += c
                continue
            mn = 0 if any(s.startswith(NONNEG_PREFIXES) for s, _ in m) else 1
            if c > 0:
                lo += c * mn
                hi = float("inf")
            else:
                hi += c * mn
                lo = float("-inf")
        return lo, hi

    def subst(self, mp: dict[str, "Dim"]) -> "Dim":
        if not mp or not (self.symbols() & mp.keys()):
            return self
        out = Dim.const(0)
        for m, c in self.t.items():
            term = Dim.const(c)
            for s, e in m:
                base = mp.get(s)
                term = term * ((base if base is not None else Dim.sym(s)) ** e)
            out = out + term
        return out

    def divide(self, o: "Dim") -> "Dim | None":
        """exact division when ``o`` is a single monomial (or constant) dividing every term"""
        if len(o.t) != 1:
            if self == o:
                return Dim.const(1)
            return None
        (om, oc), = o.t.items()
        t: dict[Mono, int] = {}
        od = dict(om)
        for m, c in self.t.items():
            if c % oc:
                return None
            d = dict(m)
            for s, e in od.items():
                if d.get(s, 0) < e:
                    return None
                d[s] -= e
            t[tuple(sorted((s, e) for s, e in d.items() if e))] = c // oc
        return Dim(t)

    def solve_for(self, prefer: Iterable[str] = ()) -> tuple[str, "Dim"] | None:
        """self == 0  ->  (symbol, value) when a symbol occurs exactly once, linearly, with unit
        coefficient; the most recently created such symbol is chosen (placeholders are created
        last), unless one of ``prefer`` qualifies."""
        cands: list[tuple[int, str, int]] = []
        for m, c in self.t.items():
            if len(m) == 1 and m[0][1] == 1 and c in (1, -1):
                s = m[0][0]
                if sum(1 for mm in self.t for ss, _ in mm if ss == s) == 1:
                    cands.append((sym_index(s), s, c))
        if not cands:
            return None
        pref = [x for x in cands if x[1] in set(prefer)]
        _, s, c = max(pref or cands)
        rest = Dim({m: cc for m, cc in self.t.items() if m != ((s, 1),)})
        return s, (-rest if c == 1 else rest)

    def __repr__(self) -> str:
        if not self.t:
            return "0"
        parts = []
        for m, c in sorted(self.t.items(), key=lambda kv: (len(kv[0]), kv[0])):
            ms = "*".join(s if e == 1 else f"{s}^{e}" for s, e in m)
            if not ms:
                parts.append(str(c))
            elif c == 1:
                parts.append(ms)
            elif c == -1:
                parts.append("-" + ms)
            else:
                parts.append(f"{c}*{ms}")
        return "+".join(parts).replace("+-", "-")


def as_dim(x: "Dim | int") -> Dim:
    return x if isinstance(x, Dim) else Dim.const(x)


def fmt_shape(shape: Iterable[Dim]) -> str:
    return "(" + ", ".join(repr(d) for d in shape) + ")"
