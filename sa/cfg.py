"""Statement-level control-flow graph for the statement kinds cirkit uses.

Nodes are integers; node 0 = ENTRY, 1 = EXIT (normal: return / fall off the end), 2 = RAISE
(exceptional exit).  Every simple statement is a node; compound statements contribute a node for
their header (the test of ``if``/``while``, the iterator of ``for``, the items of ``with``,
the subject of ``match``).  Edges carry an optional label ``(test_expr, polarity)``.
"""

from __future__ import annotations

import ast
from dataclasses import dataclass, field
from typing import Callable, Iterable

ENTRY, EXIT, RAISE = 0, 1, 2


@dataclass
class CFG:
    fn: ast.FunctionDef
    stmts: dict[int, ast.AST] = field(default_factory=dict)  # node -> statement / header expr owner
    kind: dict[int, str] = field(default_factory=dict)
    succ: dict[int, list[tuple[int, tuple[ast.AST, bool] | None]]] = field(default_factory=dict)
    pred: dict[int, list[int]] = field(default_factory=dict)
    _next: int = 3

    def new(self, stmt: ast.AST, kind: str) -> int:
        n = self._next
        self._next += 1
        self.stmts[n] = stmt
        self.kind[n] = kind
        self.succ[n] = []
        self.pred[n] = []
        return n

    def edge(self, a: int, b: int, label: tuple[ast.AST, bool] | None = None) -> None:
        self.succ.setdefault(a, [])
        self.pred.setdefault(b, [])
        if not any(x == b and _same(l, label) for x, l in self.succ[a]):
            self.succ[a].append((b, label))
            self.pred[b].append(a)

    # ----------------------------------------------------------------------------- queries
    def nodes(self) -> list[int]:
        return [ENTRY, EXIT, RAISE] + sorted(self.stmts)

    def reachable(self, start: int = ENTRY, blocked: Callable[[int], bool] | None = None) -> set[int]:
        seen = {start}
        stack = [start]
        while stack:
            a = stack.pop()
            for b, _ in self.succ.get(a, []):
                if b in seen:
                    continue
                if blocked is not None and blocked(b):
                    continue
                seen.add(b)
                stack.append(b)
        return seen

    def must_pass_through(self, pred: Callable[[int], bool], start: int = ENTRY, target: int = EXIT) -> bool:
        """Every path start ->* target passes through a node satisfying *pred*
        (vacuously true if target is unreachable)."""
        return target not in self.reachable(start, blocked=pred)

    def witness_path(self, avoid: Callable[[int], bool], start: int = ENTRY, target: int = EXIT) -> list[int] | None:
        """Shortest path start ->* target avoiding nodes that satisfy *avoid*."""
        from collections import deque

        prev: dict[int, int] = {start: -1}
        dq = deque([start])
        while dq:
            a = dq.popleft()
            if a == target:
                path = []
                while a != -1:
                    path.append(a)
                    a = prev[a]
                return list(reversed(path))
            for b, _ in self.succ.get(a, []):
                if b in prev or avoid(b):
                    continue
                prev[b] = a
                dq.append(b)
        return None

    def dominators(self) -> dict[int, set[int]]:
        nodes = [n for n in self.nodes() if n in self.reachable()]
        dom = {n: set(nodes) for n in nodes}
        dom[ENTRY] = {ENTRY}
        changed = True
        while changed:
            changed = False
            for n in nodes:
                if n == ENTRY:
                    continue
                ps = [p for p in self.pred.get(n, []) if p in dom]
                new = set.intersection(*(dom[p] for p in ps)) if ps else set()
                new = new | {n}
                if new != dom[n]:
                    dom[n] = new
                    changed = True
        return dom

    def node_of(self, stmt: ast.AST) -> int | None:
        for n, s in self.stmts.items():
            if s is stmt:
                return n
        return None

    def nodes_where(self, f: Callable[[ast.AST, str], bool]) -> list[int]:
        return [n for n, s in self.stmts.items() if f(s, self.kind[n])]

    def describe(self, n: int) -> str:
        if n == ENTRY:
            return "ENTRY"
        if n == EXIT:
            return "EXIT"
        if n == RAISE:
            return "RAISE"
        s = self.stmts[n]
        try:
            txt = ast.unparse(s).split("\n")[0]
        except Exception:
            txt = type(s).__name__
        return f"L{getattr(s, 'lineno', '?')}:{self.kind[n]}:{txt[:70]}"


def _same(a, b) -> bool:
    if a is None or b is None:
        return a is b
    return a[0] is b[0] and a[1] == b[1]


class _Builder:
    def __init__(self, fn: ast.FunctionDef):
        self.g = CFG(fn)
        for n in (ENTRY, EXIT, RAISE):
            self.g.succ[n] = []
            self.g.pred[n] = []
        # stack of (break_target_list, continue_target)
        self.loops: list[tuple[list[int], int]] = []
        # stack of handler entry lists for enclosing try blocks
        self.handlers: list[list[int]] = []
        self.finals: list[list[ast.stmt]] = []

    def build(self) -> CFG:
        outs = self.block(self.g.fn.body, [(ENTRY, None)])
        for a, lab in outs:
            self.g.edge(a, EXIT, lab)
        return self.g

    # `ins` / return values are lists of (node, label) dangling edges
    def block(self, stmts: list[ast.stmt], ins: list[tuple[int, object]]) -> list[tuple[int, object]]:
        cur = ins
        for s in stmts:
            cur = self.stmt(s, cur)
        return cur

    def connect(self, ins, n: int) -> None:
        for a, lab in ins:
            self.g.edge(a, n, lab)

    def may_raise(self, n: int) -> None:
        """A statement that contains a call may raise into the innermost handlers."""
        if self.handlers:
            for h in self.handlers[-1]:
                self.g.edge(n, h)

    def stmt(self, s: ast.stmt, ins):
        g = self.g
        if isinstance(s, ast.If):
            n = g.new(s, "if")
            self.connect(ins, n)
            t = self.block(s.body, [(n, (s.test, True))])
            f = self.block(s.orelse, [(n, (s.test, False))]) if s.orelse else [(n, (s.test, False))]
            return t + f
        if isinstance(s, (ast.For, ast.AsyncFor, ast.While)):
            n = g.new(s, "loop")
            self.connect(ins, n)
            breaks: list[int] = []
            self.loops.append((breaks, n))
            test = s.test if isinstance(s, ast.While) else None
            body_out = self.block(s.body, [(n, (test, True) if test is not None else None)])
            self.loops.pop()
            for a, lab in body_out:
                g.edge(a, n, lab)
            exit_edges = [(n, (test, False) if test is not None else None)]
            # `while True:` never exits through the test
            if isinstance(s, ast.While) and isinstance(s.test, ast.Constant) and s.test.value is True:
                exit_edges = []
            outs = self.block(s.orelse, exit_edges) if s.orelse else exit_edges
            return outs + [(b, None) for b in breaks]
        if isinstance(s, ast.Break):
            n = g.new(s, "break")
            self.connect(ins, n)
            if self.loops:
                self.loops[-1][0].append(n)
            return []
        if isinstance(s, ast.Continue):
            n = g.new(s, "continue")
            self.connect(ins, n)
            if self.loops:
                g.edge(n, self.loops[-1][1])
            return []
        if isinstance(s, ast.Return):
            n = g.new(s, "return")
            self.connect(ins, n)
            self.may_raise(n)
            if self.finals:
                # run the innermost finally blocks before leaving
                cur = [(n, None)]
                for fin in reversed(self.finals):
                    cur = self.block(fin, cur)
                for a, lab in cur:
                    g.edge(a, EXIT, lab)
            else:
                g.edge(n, EXIT)
            return []
        if isinstance(s, ast.Raise):
            n = g.new(s, "raise")
            self.connect(ins, n)
            if self.handlers:
                for h in self.handlers[-1]:
                    g.edge(n, h)
            else:
                g.edge(n, RAISE)
            return []
        if isinstance(s, ast.Assert):
            n = g.new(s, "assert")
            self.connect(ins, n)
            if self.handlers:
                for h in self.handlers[-1]:
                    g.edge(n, h, (s.test, False))
            else:
                g.edge(n, RAISE, (s.test, False))
            return [(n, (s.test, True))]
        if isinstance(s, (ast.With, ast.AsyncWith)):
            n = g.new(s, "with")
            self.connect(ins, n)
            self.may_raise(n)
            return self.block(s.body, [(n, None)])
        if isinstance(s, ast.Try):
            hnodes = []
            for h in s.handlers:
                hn = g.new(h, "except")
                hnodes.append(hn)
            self.handlers.append(hnodes)
            if s.finalbody:
                self.finals.append(s.finalbody)
            body_out = self.block(s.body, ins)
            self.handlers.pop()
            else_out = self.block(s.orelse, body_out) if s.orelse else body_out
            outs = list(else_out)
            for h, hn in zip(s.handlers, hnodes):
                outs += self.block(h.body, [(hn, None)])
            if s.finalbody:
                self.finals.pop()
                outs = self.block(s.finalbody, outs)
            return outs
        if isinstance(s, ast.Match):
            n = g.new(s, "match")
            self.connect(ins, n)
            outs = []
            for case in s.cases:
                outs += self.block(case.body, [(n, None)])
            # no wildcard -> may fall through
            if not any(isinstance(c.pattern, ast.MatchAs) and c.pattern.pattern is None for c in s.cases):
                outs.append((n, None))
            return outs
        if isinstance(s, (ast.FunctionDef, ast.AsyncFunctionDef, ast.ClassDef)):
            n = g.new(s, "def")
            self.connect(ins, n)
            return [(n, None)]
        # simple statement
        n = g.new(s, "stmt")
        self.connect(ins, n)
        if any(isinstance(x, ast.Call) for x in ast.walk(s)):
            self.may_raise(n)
        return [(n, None)]


def build_cfg(fn: ast.FunctionDef) -> CFG:
    return _Builder(fn).build()


def stmt_calls(s: ast.AST) -> Iterable[ast.Call]:
    """Calls evaluated by the *header* of a statement node (not by nested blocks)."""
    if isinstance(s, ast.If):
        roots: list[ast.AST] = [s.test]
    elif isinstance(s, (ast.For, ast.AsyncFor)):
        roots = [s.iter]
    elif isinstance(s, ast.While):
        roots = [s.test]
    elif isinstance(s, (ast.With, ast.AsyncWith)):
        roots = [i.context_expr for i in s.items]
    elif isinstance(s, ast.Match):
        roots = [s.subject]
    elif isinstance(s, (ast.Try, ast.ExceptHandler, ast.FunctionDef, ast.ClassDef)):
        roots = []
    else:
        roots = [s]
    for r in roots:
        for n in ast.walk(r):
            if isinstance(n, ast.Call):
                yield n
