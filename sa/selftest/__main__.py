import sys

from . import run_selftest

sys.exit(run_selftest(sys.argv[1] if len(sys.argv) > 1 else None))
