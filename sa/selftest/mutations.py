"""Mutation corpus for the checker's self-test.  Each entry: id, file, old, new (exact source
fragments, must occur once), expect: {property: [fragment of the violation key, ...]}."""

OPS = "cirkit/symbolic/operators.py"
FUN = "cirkit/symbolic/functional.py"
PIPE = "cirkit/pipeline.py"
RPAR = "cirkit/backend/torch/rules/parameters.py"
RLAY = "cirkit/backend/torch/rules/layers.py"
RINI = "cirkit/backend/torch/rules/initializers.py"
TNODES = "cirkit/backend/torch/parameters/nodes.py"
SPAR = "cirkit/symbolic/parameters.py"
SLAY = "cirkit/symbolic/layers.py"
COMP = "cirkit/backend/torch/compiler.py"
ACOMP = "cirkit/backend/compiler.py"
ALGO = "cirkit/utils/algorithms.py"
REG = "cirkit/symbolic/registry.py"

MUTATIONS = [
    # ---------------------------------------------------------------- C03
    dict(id="c03-reduce-axis", file=OPS, old="reduce_lse = ReduceLSEParameter(sl.logits.shape, axis=1)", new="reduce_lse = ReduceLSEParameter(sl.logits.shape, axis=0)", expect={"C03": ["R2e:cirkit.symbolic.operators.integrate_categorical_layer:axis"]}, allow_others=True),
    dict(id="c03-logspace-flag", file=OPS, old="int_sl = ConstantValueLayer(sl.num_output_units, log_space=False, value=value)", new="int_sl = ConstantValueLayer(sl.num_output_units, log_space=True, value=value)", expect={"C03": ["R2e:cirkit.symbolic.operators.integrate_embedding_layer:space"]}, allow_others=True),
    dict(id="c03-drop-ref", file=OPS, old="        log_partition = sl.log_partition.ref()\n    int_sl", new="        log_partition = sl.log_partition\n    int_sl", expect={"C03": ["R2a:cirkit.symbolic.operators.integrate_gaussian_layer"], "C10": ["R2a:cirkit.symbolic.operators.integrate_gaussian_layer"]}),
    dict(id="c03-guard-or-and", file=FUN, old="""    if not sc.is_smooth or not sc.is_decomposable:
        raise StructuralPropertyError(
            "Only smooth and decomposable circuits can be efficiently integrated.\"""", new="""    if not sc.is_smooth and not sc.is_decomposable:
        raise StructuralPropertyError(
            "Only smooth and decomposable circuits can be efficiently integrated.\"""", expect={"C03": ["R8:cirkit.symbolic.functional.integrate:non-"], "C09": ["R8:cirkit.symbolic.functional.integrate:non-"]}),
    dict(id="c03-replace-cond", file=FUN, old="""        if isinstance(sl, InputLayer) and sl.scope & scope:
            func = registry.retrieve_rule(LayerOperator.INTEGRATION, type(sl))""", new="""        if isinstance(sl, InputLayer):
            func = registry.retrieve_rule(LayerOperator.INTEGRATION, type(sl))""", expect={"C03": ["replacement-condition"]}),
    dict(id="c03-metadata", file=FUN, old="""            operator=CircuitOperator.INTEGRATION,
            operands=(sc,),
            metadata={"scope": scope},""", new="""            operator=CircuitOperator.INTEGRATION,
            operands=(sc,),
            metadata={"scope": sc.scope},""", expect={"C03": ["metadata:scope"]}),
    dict(id="c03-const-one", file=OPS, old="""    if sl.logits is None:
        log_partition = Parameter.from_input(ConstantParameter(sl.num_output_units, value=0.0))""", new="""    if sl.logits is None:
        log_partition = Parameter.from_input(ConstantParameter(sl.num_output_units, value=1.0))""", expect={"C03": ["R2e:cirkit.symbolic.operators.integrate_categorical_layer:const"]}, allow_others=True),
    # ---------------------------------------------------------------- C07
    dict(id="c07-drop-probs", file=OPS, old="        logits=logits,\n        probs=probs,\n    )", new="        logits=logits,\n    )", expect={"C07": ["R2c:cirkit.symbolic.operators.conjugate_categorical_layer:param=probs"]}),
    dict(id="c07-no-conjugate-wrap", file=OPS, old="    coeff = Parameter.from_unary(ConjugateParameter(sl.coeff.shape), sl.coeff.ref())", new="    coeff = sl.coeff.ref()", expect={"C07": ["R2d:cirkit.symbolic.operators.conjugate_polynomial_layer:param=coeff"]}),
    dict(id="c07-sum-weight-copy", file=OPS, old="    weight = Parameter.from_unary(ConjugateParameter(sl.weight.shape), sl.weight.ref())\n    sl = SumLayer(", new="    weight = Parameter.from_unary(ConjugateParameter(sl.weight.shape), sl.weight)\n    sl = SumLayer(", expect={"C07": ["R2a:cirkit.symbolic.operators.conjugate_sum_layer"], "C10": ["R2a:cirkit.symbolic.operators.conjugate_sum_layer"]}),
    # ---------------------------------------------------------------- C09
    dict(id="c09-order-lt", file=FUN, old="    if order <= 0:\n        raise ValueError(\"The order of differentiation must be positive.\")\n\n    # Use the registry", new="    if order < 0:\n        raise ValueError(\"The order of differentiation must be positive.\")\n\n    # Use the registry", expect={"C09": ["R8:cirkit.symbolic.functional.differentiate:order=0"], "C05": ["R8:cirkit.symbolic.functional.differentiate:order=0"]}),
    dict(id="c09-compat-dropped", file=FUN, old="    if not are_compatible(sc1, sc2):\n        raise StructuralPropertyError(", new="    if not are_compatible(sc1, sc2) and not sc1.is_smooth:\n        raise StructuralPropertyError(", expect={"C09": ["R8:cirkit.symbolic.functional.multiply:incompatible"], "C04": ["R8:cirkit.symbolic.functional.multiply:incompatible"]}),
    dict(id="c09-circuit-arity", file="cirkit/symbolic/circuit.py", old="            if sl.arity != len(sl_ins):\n                raise ValueError(", new="            if sl.arity < len(sl_ins):\n                raise ValueError(", expect={"C09": ["R8:cirkit.symbolic.circuit.Circuit.__init__:arity-mismatch"]}),
    dict(id="c09-mask-batch", file="cirkit/backend/torch/queries.py", old="        if integrate_vars_mask.shape[0] not in (1, x.shape[0]):", new="        if integrate_vars_mask.shape[0] > x.shape[0]:", expect={"C09": ["R8:cirkit.backend.torch.queries.IntegrateQuery.__call__:mask-batch"], "C11": ["mask-batch"]}),
    dict(id="c09-evidence-partial", file=FUN, old="            if not sl.scope <= scope:\n                raise NotImplementedError(", new="            if not sl.scope & scope:\n                raise NotImplementedError(", expect={"C09": ["R8:cirkit.symbolic.functional.evidence:partial-multivariate"], "C06": ["partial-multivariate"]}),
    # ---------------------------------------------------------------- C18
    dict(id="c18-reset-guarded", file=PIPE, old="        assert self._token is not None\n        _PIPELINE_CONTEXT.reset(self._token)", new="        assert self._token is not None\n        if __exc_type is None:\n            _PIPELINE_CONTEXT.reset(self._token)", expect={"C18": ["R6a:cirkit.pipeline.PipelineContext.__exit__:_PIPELINE_CONTEXT:reset-on-all-paths"]}),
    dict(id="c18-registry-exit-dropped", file=PIPE, old="        self._op_registry.__exit__(__exc_type, __exc_value, __traceback)\n", new="        if __exc_type is None:\n            self._op_registry.__exit__(__exc_type, __exc_value, __traceback)\n", expect={"C18": ["R6a:cirkit.pipeline.PipelineContext.__exit__:wrapped:_op_registry"]}),
    dict(id="c18-bimap-side", file=ALGO, old="        return self._rhs_map[rhs]", new="        return self._lhs_map[rhs]", expect={"C18": ["R6c:cirkit.utils.algorithms.BiMap.get_right:own-side"]}),
    dict(id="c18-compile-not-memoised", file=ACOMP, old="        if self.is_compiled(sc):\n            return self.get_compiled_circuit(sc)\n        return self.compile_pipeline(sc)", new="        return self.compile_pipeline(sc)", expect={"C18": ["R6b:cirkit.backend.compiler.AbstractCompiler.compile"], "C10": ["R6b:cirkit.backend.compiler.AbstractCompiler.compile"]}),
    dict(id="c18-pipeline-skip-check", file=COMP, old="            if self.is_compiled(sci):\n                continue\n", new="            if self.is_compiled(sci) and sci is sc:\n                continue\n", expect={"C18": ["R6b:cirkit.backend.torch.compiler.TorchCompiler.compile_pipeline:compile-once"], "C10": ["compile-once"]}),
    dict(id="c18-wrong-sf-op", file=PIPE, old="        conj_sc = SF.conjugate(sc, registry=self._op_registry)", new="        conj_sc = SF.conjugate(sc)", expect={"C18": ["R6d:cirkit.pipeline.PipelineContext.conjugate:registry"]}),
    dict(id="c18-multiply-swapped", file=PIPE, old="        prod_sc = SF.multiply(sc1, sc2, registry=self._op_registry)", new="        prod_sc = SF.multiply(sc2, sc1, registry=self._op_registry)", expect={"C18": ["R6d:cirkit.pipeline.PipelineContext.multiply:operand-order"]}),
    dict(id="c18-module-fn-drops-arg", file=PIPE, old="    return ctx.differentiate(cc, order=order)", new="    return ctx.differentiate(cc)", expect={"C18": ["R6d:cirkit.pipeline.differentiate:delegates"]}),
    dict(id="c18-register-before-postprocess", file=COMP, old="        cc = self._post_process_circuit(cc)\n\n        # Allocate & initialize the parameters\n        cc.reset_parameters()\n\n        # Register the compiled circuit\n        self.register_compiled_circuit(sc, cc)", new="        # Register the compiled circuit\n        self.register_compiled_circuit(sc, cc)\n        cc = self._post_process_circuit(cc)\n\n        # Allocate & initialize the parameters\n        cc.reset_parameters()", expect={"C18": ["R6b:cirkit.backend.torch.compiler.TorchCompiler._compile_circuit:registers-postprocessed"], "C10": ["registers-postprocessed"]}),
    # ---------------------------------------------------------------- round 2 (post-fix tree)
    dict(id="c05-scope-iter-unsorted", file="cirkit/utils/scope.py", old="        return iter(sorted(self._set))\n", new="        return iter(self._set)\n", expect={"C05": ["R7b:cirkit.symbolic.functional.differentiate:zip#1"]}),
    dict(id="c05-diff-order-not-in-config", file=TNODES, old='        config["order"] = self.order\n', new="", expect={"C05": ["R3f:cirkit.backend.torch.parameters.nodes.TorchPolynomialDifferential:hyper:order"], "C02": ["R3f:cirkit.backend.torch.parameters.nodes.TorchPolynomialDifferential"], "C14": ["R3f:cirkit.backend.torch.parameters.nodes.TorchPolynomialDifferential"]}),
    dict(id="c07-gaussian-drops-log-partition", file=OPS, old="mean=mean, stddev=stddev, log_partition=log_partition\n", new="mean=mean, stddev=stddev\n", expect={"C07": ["R2c:cirkit.symbolic.operators.conjugate_gaussian_layer:param=log_partition"]}),
    dict(id="c08-factorization-subset-sort", file="cirkit/symbolic/circuit.py", old="sorted((sc.layer_scope(sli) for sli in sc.layer_inputs(sl)), key=_scope_sort_key)", new="sorted((sc.layer_scope(sli) for sli in sc.layer_inputs(sl)))", expect={"C08": ["R7a:cirkit.symbolic.circuit._scope_factorizations"]}),
    dict(id="c08-onesided-compat", file="cirkit/symbolic/circuit.py", old="    for scope in sfs1.keys() & sfs2.keys():\n        fs1, fs2 = sfs1[scope], sfs2[scope]\n", new="    for scope, fs1 in sfs1.items():\n        fs2 = sfs2.get(scope, None)\n        if fs2 is None:\n            return False\n", expect={"C08": ["R7c:cirkit.symbolic.circuit._are_compatible:one-sided"]}),
    dict(id="c08-rg-wrong-owner", file="cirkit/templates/region_graph/graph.py", old="            partition2_inputs = other.node_inputs(partition2)\n", new="            partition2_inputs = self.node_inputs(partition2)\n", expect={"C08": ["R7o:cirkit.templates.region_graph.graph.RegionGraph.is_compatible:self.node_inputs(partition2)"]}),
    dict(id="c04-pairing-subset-sort", file=FUN, old="key=lambda i: tuple(sorted(sc1.layer_scope(l1_inputs[i])))", new="key=lambda i: sc1.layer_scope(l1_inputs[i])", expect={"C04": ["R7a:cirkit.symbolic.functional.multiply"]}),
    dict(id="c04-kronecker-operands-swapped", file=OPS, old="KroneckerParameter(sl1.weight.shape, sl2.weight.shape), sl1.weight.ref(), sl2.weight.ref()", new="KroneckerParameter(sl1.weight.shape, sl2.weight.shape), sl2.weight.ref(), sl1.weight.ref()", expect={"C04": ["R2f:cirkit.symbolic.operators.multiply_sum_layers"]}),
    dict(id="c20-hmm-by-position", file="cirkit/templates/pgms.py", old="        input_sl = input_factories[ordering[i]](Scope([ordering[i]]), num_latent_states)\n", new="        input_sl = input_factories[i](Scope([ordering[i]]), num_latent_states)\n", expect={"C20": ["R13a:cirkit.templates.pgms.hmm:input_factories@Scope([ordering[i]])"]}, allow_others=True),
    dict(id="c20-tt-enumerate-offset", file="cirkit/templates/tensor_factorizations.py", old="for i, dim in enumerate(shape[1:-1], start=1)", new="for i, dim in enumerate(shape[2:-1], start=1)", expect={"C20": ["R13a:cirkit.templates.tensor_factorizations.tensor_train:shape[2:-1]"]}),
    dict(id="c11-logits-rank2", file="cirkit/backend/torch/layers/input.py", old="        return torch.logsumexp(logits, dim=2).unsqueeze(dim=1)\n", new="        return torch.logsumexp(logits, dim=2)\n", expect={"C11": ["R4:cirkit.backend.torch.layers.input.TorchCategoricalLayer:log_partition_function:return#1"]}),
    dict(id="c11-gaussian-rank2", file="cirkit/backend/torch/layers/input.py", old="        return log_partition.unsqueeze(dim=1)  # (F, 1, K)\n", new="        return log_partition\n", expect={"C11": ["R4:cirkit.backend.torch.layers.input.TorchGaussianLayer:log_partition_function:return#1"]}),
    dict(id="c17-foldwise-int-index", file="cirkit/backend/torch/initializers.py", old="            initializer_(t[i : i + 1])\n", new="            initializer_(t[i])\n", expect={"C17": ["R4:cirkit.backend.torch.initializers.foldwise_initializer_:apply#1"]}),
    dict(id="c17-dirichlet-dim-dropped", file=RINI, old="functools.partial(dirichlet_, alpha=init.alpha, dim=axis)", new="functools.partial(dirichlet_, alpha=init.alpha)", expect={"C17": ["compile_dirichlet_initializer"]}),
    dict(id="c16-partition-falls-through", file="cirkit/templates/region_graph/graph.py", old="                node_to_layer[node] = prod_sl\n                continue\n", new="                node_to_layer[node] = prod_sl\n", expect={"C16": ["R9:cirkit.templates.region_graph.graph.RegionGraph.build_circuit"]}),
    dict(id="c02-gather-wrong-variable", file="cirkit/backend/torch/graph/folding.py", old="        ss = [type(module), *module.fold_settings]\n", new="        ss = [type(m), *m.fold_settings]\n", expect={"C02": ["R3d:cirkit.backend.torch.graph.folding.group_foldable_modules:gather"], "C06": ["R3d:cirkit.backend.torch.graph.folding.group_foldable_modules:gather"]}),
    dict(id="c02-interior-output-fused", file="cirkit/backend/torch/graph/optimize.py", old="            if any(m in outputs for m in match.entries[1:]):\n                continue\n", new="", expect={"C02": ["R12a:cirkit.backend.torch.graph.optimize.match_optimization_patterns:interior-output"]}),
    dict(id="c14-index-ignores-dim", file=TNODES, old="        return torch.index_select(x, self.dim + 1, self._indices)\n", new="        return x[:, self._indices]\n", expect={"C14": ["R5b:cirkit.backend.torch.parameters.nodes.TorchIndexParameter:used:dim"]}),
    dict(id="c14-reduce-sum-unshifted", file=TNODES, old="        return torch.sum(x, dim=self.dim + 1)\n", new="        return torch.sum(x, dim=self.dim)\n", expect={"C14": ["R5a:"]}, allow_others=True),
    dict(id="c14-softmax-axis-dropped", file=RPAR, old="    return TorchSoftmaxParameter(in_shape, dim=p.axis)\n", new="    return TorchSoftmaxParameter(in_shape)\n", expect={"C14": ["R1c:cirkit.backend.torch.rules.parameters.compile_softmax_parameter"], "C01": ["R1c:cirkit.backend.torch.rules.parameters.compile_softmax_parameter"], "C12": ["R1c:cirkit.backend.torch.rules.parameters.compile_softmax_parameter"]}),
    dict(id="c01-categorical-num-categories-dropped", file=RLAY, old="        num_categories=sl.num_categories,\n", new="", expect={"C01": ["R1c:cirkit.backend.torch.rules.layers.compile_categorical_layer"]}),
    dict(id="c06-concatenate-reversed", file=FUN, old="    for sc in scs:\n", new="    for sc in reversed(scs):\n", expect={"C06": ["R7e:cirkit.symbolic.functional.concatenate:operand-order"]}),
    # ---------------------------------------------------------------- behaviour-preserving variants: every check must stay quiet
    dict(id="q-scope-iter-yield-from", quiet=True, file="cirkit/utils/scope.py", old="        return iter(sorted(self._set))\n", new="        yield from sorted(self._set)\n", expect={}),
    dict(id="q-hmm-hoisted-id", quiet=True, file="cirkit/templates/pgms.py", old="        input_sl = input_factories[ordering[i]](Scope([ordering[i]]), num_latent_states)\n", new="        var = ordering[i]\n        input_sl = input_factories[var](Scope([var]), num_latent_states)\n", expect={}),
    dict(id="q-hmm-hoisted-factory", quiet=True, file="cirkit/templates/pgms.py", old="        input_sl = input_factories[ordering[i]](Scope([ordering[i]]), num_latent_states)\n", new="        factory = input_factories[ordering[i]]\n        input_sl = factory(Scope([ordering[i]]), num_latent_states)\n", expect={}),
    dict(id="q-foldwise-unsqueeze", quiet=True, file="cirkit/backend/torch/initializers.py", old="            initializer_(t[i : i + 1])\n", new="            initializer_(t[i].unsqueeze(0))\n", expect={}),
    dict(id="q-optimize-output-set", quiet=True, file="cirkit/backend/torch/graph/optimize.py", old="            if any(m in outputs for m in match.entries[1:]):\n                continue\n", new="            if not set(outputs).isdisjoint(match.entries[1:]):\n                continue\n", expect={}),
    dict(id="q-logpartition-keepdim", quiet=True, file="cirkit/backend/torch/layers/input.py", old="        return torch.logsumexp(logits, dim=2).unsqueeze(dim=1)\n", new="        return torch.logsumexp(logits, dim=2, keepdim=True).transpose(1, 2)\n", expect={}),
    dict(id="q-logpartition-none-index", quiet=True, file="cirkit/backend/torch/layers/input.py", old="        return torch.logsumexp(logits, dim=2).unsqueeze(dim=1)\n", new="        return torch.logsumexp(logits, dim=2)[:, None, :]\n", expect={}),
    dict(id="q-compat-keys-first", quiet=True, file="cirkit/symbolic/circuit.py", old="    for scope in sfs1.keys() & sfs2.keys():\n        fs1, fs2 = sfs1[scope], sfs2[scope]\n", new="    common = set(sfs1) & set(sfs2)\n    for scope in common:\n        fs1 = sfs1[scope]\n        fs2 = sfs2[scope]\n", expect={}),
    dict(id="q-factorization-frozenset-key", quiet=True, file="cirkit/symbolic/circuit.py", old="    return tuple(sorted(scope))\n", new="    return tuple(sorted(list(scope)))\n", expect={}),
    dict(id="q-multiply-named-key", quiet=True, file=FUN, old="key=lambda i: tuple(sorted(sc1.layer_scope(l1_inputs[i])))", new="key=lambda i: sorted(sc1.layer_scope(l1_inputs[i]))", expect={}),
    dict(id="q-rg-compat-alias", quiet=True, file="cirkit/templates/region_graph/graph.py", old="            partition2_inputs = other.node_inputs(partition2)\n", new="            rg2 = other\n            partition2_inputs = rg2.node_inputs(partition2)\n", expect={}),
    dict(id="q-gaussian-conj-inline", quiet=True, file=OPS, old="    log_partition = sl.log_partition.ref() if sl.log_partition is not None else None\n    sl = GaussianLayer(", new="    log_partition = None\n    if sl.log_partition is not None:\n        log_partition = sl.log_partition.ref()\n    sl = GaussianLayer(", expect={}),
    dict(id="q-index-param-advanced-index", quiet=True, file=TNODES, old="        return torch.index_select(x, self.dim + 1, self._indices)\n", new="        return x.index_select(self.dim + 1, self._indices)\n", expect={}),
    dict(id="q-gather-settings-renamed", quiet=True, file="cirkit/backend/torch/graph/folding.py", old="        ss = [type(module), *module.fold_settings]\n", new="        ss = [type(module)]\n        ss.extend(module.fold_settings)\n", expect={}),
    dict(id="q-diff-config-dict", quiet=True, file=TNODES, old='        config = super().config\n        config["order"] = self.order\n        return config\n', new='        return {**super().config, "order": self.order}\n', expect={}),
    dict(id="q-build-circuit-elif", quiet=True, file="cirkit/templates/region_graph/graph.py", old="            assert isinstance(\n                node, RegionNode\n            ), \"Region graph nodes must be either region or partition nodes\"\n", new="            if not isinstance(node, RegionNode):\n                raise ValueError(\"Region graph nodes must be either region or partition nodes\")\n", expect={}),
    dict(id="q-integrate-split-guard", quiet=True, file=FUN, old="""    if not sc.is_smooth or not sc.is_decomposable:
        raise StructuralPropertyError(
            "Only smooth and decomposable circuits can be efficiently integrated."
        )
""", new="""    if not sc.is_smooth:
        raise StructuralPropertyError("Only smooth circuits can be efficiently integrated.")
    if not sc.is_decomposable:
        raise StructuralPropertyError("Only decomposable circuits can be efficiently integrated.")
""", expect={}),
    dict(id="q-differentiate-demorgan-guard", quiet=True, file=FUN, old="""    if not sc.is_smooth or not sc.is_decomposable:
        raise StructuralPropertyError(
            "Only smooth and decomposable circuits can be efficiently differentiated."
        )
    if order <= 0:
""", new="""    if not (sc.is_smooth and sc.is_decomposable):
        raise StructuralPropertyError(
            "Only smooth and decomposable circuits can be efficiently differentiated."
        )
    if order < 1:
""", expect={}),
    # the same rewrite with the order check moved first was classified as behaviour-preserving until the R8 precedence
    # clause: for a non-smooth circuit *and* order 0 the refusal is then a ValueError, not the promised StructuralPropertyError
    dict(id="r8-differentiate-order-check-first", file=FUN, old="""    if not sc.is_smooth or not sc.is_decomposable:
        raise StructuralPropertyError(
            "Only smooth and decomposable circuits can be efficiently differentiated."
        )
    if order <= 0:
""", new="""    if order <= 0:
        raise ValueError("The order of differentiation must be positive.")
    if not (sc.is_smooth and sc.is_decomposable):
        raise StructuralPropertyError(
            "Only smooth and decomposable circuits can be efficiently differentiated."
        )
    if order < 1:
""", expect={"C05": ["R8:cirkit.symbolic.functional.differentiate:non-"], "C09": ["R8:cirkit.symbolic.functional.differentiate:non-"]}),
    dict(id="q-exit-reset-first", quiet=True, file=PIPE, old="""        self._op_registry.__exit__(__exc_type, __exc_value, __traceback)
        assert self._token is not None
        _PIPELINE_CONTEXT.reset(self._token)
        self._token = None
""", new="""        assert self._token is not None
        _PIPELINE_CONTEXT.reset(self._token)
        self._token = None
        self._op_registry.__exit__(__exc_type, __exc_value, __traceback)
""", expect={}),
    dict(id="q-exit-try-finally", quiet=True, file=PIPE, old="""        self._op_registry.__exit__(__exc_type, __exc_value, __traceback)
        assert self._token is not None
        _PIPELINE_CONTEXT.reset(self._token)
        self._token = None
""", new="""        try:
            self._op_registry.__exit__(__exc_type, __exc_value, __traceback)
        finally:
            assert self._token is not None
            _PIPELINE_CONTEXT.reset(self._token)
            self._token = None
""", expect={}),
    dict(id="q-compile-memo-else", quiet=True, file=ACOMP, old="        if self.is_compiled(sc):\n            return self.get_compiled_circuit(sc)\n        return self.compile_pipeline(sc)", new="        if not self.is_compiled(sc):\n            return self.compile_pipeline(sc)\n        return self.get_compiled_circuit(sc)", expect={}),
    dict(id="q-softmax-rule-local", quiet=True, file=RPAR, old="    return TorchSoftmaxParameter(in_shape, dim=p.axis)\n", new="    axis = p.axis\n    return TorchSoftmaxParameter(in_shape, dim=axis)\n", expect={}),
    dict(id="q-conj-sum-local", quiet=True, file=OPS, old="    weight = Parameter.from_unary(ConjugateParameter(sl.weight.shape), sl.weight.ref())\n    sl = SumLayer(", new="    w = sl.weight.ref()\n    weight = Parameter.from_unary(ConjugateParameter(sl.weight.shape), w)\n    sl = SumLayer(", expect={}),
    dict(id="q-concatenate-enumerate", quiet=True, file=FUN, old="    for sc in scs:\n", new="    for _, sc in enumerate(scs):\n", expect={}),
    dict(id="q-reduce-sum-dim-local", quiet=True, file=TNODES, old="        return torch.sum(x, dim=self.dim + 1)\n", new="        d = self.dim + 1\n        return torch.sum(x, dim=d)\n", expect={}),
    dict(id="q-inner-fold-settings-tuple", quiet=True, file="cirkit/backend/torch/layers/inner.py", old="        pshapes = [(n, p.shape) for n, p in self.params.items()]\n        return *self.config.items(), *pshapes\n", new="        pshapes = tuple((n, p.shape) for n, p in self.params.items())\n        return tuple(self.config.items()) + pshapes\n", expect={}),
    dict(id="q-categorical-rule-kwargs-dict", quiet=True, file=RLAY, old="""    return TorchCategoricalLayer(
        torch.tensor(tuple(sl.scope)),
        sl.num_output_units,
        num_categories=sl.num_categories,
""", new="""    scope_idx = torch.tensor(tuple(sl.scope))
    num_categories = sl.num_categories
    return TorchCategoricalLayer(
        scope_idx,
        sl.num_output_units,
        num_categories=num_categories,
""", expect={}),
    dict(id="q-integrate-categorical-negative-axis", quiet=True, file=OPS, old="reduce_lse = ReduceLSEParameter(sl.logits.shape, axis=1)", new="reduce_lse = ReduceLSEParameter(sl.logits.shape, axis=-1)", expect={}),
    dict(id="q-multiply-sum-locals", quiet=True, file=OPS, old="""    weight = Parameter.from_binary(
        KroneckerParameter(sl1.weight.shape, sl2.weight.shape), sl1.weight.ref(), sl2.weight.ref()
    )
""", new="""    w1, w2 = sl1.weight.ref(), sl2.weight.ref()
    kron = KroneckerParameter(sl1.weight.shape, sl2.weight.shape)
    weight = Parameter.from_binary(kron, w1, w2)
""", expect={}),
    dict(id="q-evidence-guard-merged", quiet=True, file=FUN, old="""    if not scope:
        raise ValueError("There are no variables to observe")
    if not scope <= sc.scope:
        raise ValueError("The variables to observe must be a subset of the scope of the circuit")
""", new="""    if not scope or not scope <= sc.scope:
        raise ValueError("The variables to observe must be a non-empty subset of the scope")
""", expect={}),
    dict(id="q-bimap-add-order", quiet=True, file=ALGO, old="        self._lhs_map[lhs] = rhs\n        self._rhs_map[rhs] = lhs\n", new="        self._rhs_map[rhs] = lhs\n        self._lhs_map[lhs] = rhs\n", expect={}),
    # ---------------------------------------------------------------- R7d
    dict(id="c08-smooth-subset", file="cirkit/symbolic/circuit.py", old="            self.layer_scope(sum_sl) == self.layer_scope(in_sl)\n", new="            self.layer_scope(sum_sl) >= self.layer_scope(in_sl)\n", expect={"C08": ["R7d:cirkit.symbolic.circuit.Circuit.is_smooth:definition"], "C09": ["R7d:cirkit.symbolic.circuit.Circuit.is_smooth:definition"]}),
    dict(id="c08-smooth-any", file="cirkit/symbolic/circuit.py", old="        return all(\n            self.layer_scope(sum_sl) == self.layer_scope(in_sl)\n", new="        return any(\n            self.layer_scope(sum_sl) == self.layer_scope(in_sl)\n", expect={"C08": ["R7d:cirkit.symbolic.circuit.Circuit.is_smooth:definition"], "C09": ["R7d:cirkit.symbolic.circuit.Circuit.is_smooth:definition"]}),
    dict(id="c08-decomposable-not-all", file="cirkit/symbolic/circuit.py", old="        return not any(\n            self.layer_scope(in_sl1) & self.layer_scope(in_sl2)\n", new="        return not all(\n            self.layer_scope(in_sl1) & self.layer_scope(in_sl2)\n", expect={"C08": ["R7d:cirkit.symbolic.circuit.Circuit.is_decomposable:definition"], "C09": ["R7d:cirkit.symbolic.circuit.Circuit.is_decomposable:definition"]}),
    dict(id="c08-decomposable-sum-layers", file="cirkit/symbolic/circuit.py", old="            for prod_sl in self.product_layers\n            for in_sl1, in_sl2", new="            for prod_sl in self.sum_layers\n            for in_sl1, in_sl2", expect={"C08": ["R7d:cirkit.symbolic.circuit.Circuit.is_decomposable:definition"], "C09": ["R7d:cirkit.symbolic.circuit.Circuit.is_decomposable:definition"]}),
    dict(id="c08-structured-any", file="cirkit/symbolic/circuit.py", old="        return all(len(fs) == 1 for _, fs in scope_factorizations.items())", new="        return any(len(fs) == 1 for _, fs in scope_factorizations.items())", expect={"C08": ["R7d:cirkit.symbolic.circuit.Circuit.is_structured_decomposable:one-factorization-per-scope"], "C09": ["R7d:cirkit.symbolic.circuit.Circuit.is_structured_decomposable:one-factorization-per-scope"]}),
    dict(id="q-smooth-not-any", quiet=True, file="cirkit/symbolic/circuit.py", old="        return all(\n            self.layer_scope(sum_sl) == self.layer_scope(in_sl)\n", new="        return not any(\n            self.layer_scope(sum_sl) != self.layer_scope(in_sl)\n", expect={}),
    dict(id="q-decomposable-all-not", quiet=True, file="cirkit/symbolic/circuit.py", old="        return not any(\n            self.layer_scope(in_sl1) & self.layer_scope(in_sl2)\n", new="        return all(\n            not (self.layer_scope(in_sl1) & self.layer_scope(in_sl2))\n", expect={}),
    dict(id="q-structured-values", quiet=True, file="cirkit/symbolic/circuit.py", old="        return all(len(fs) == 1 for _, fs in scope_factorizations.items())", new="        return not any(len(fs) > 1 for fs in scope_factorizations.values())", expect={}),
    # ---------------------------------------------------------------- C16 structure guards
    dict(id="c16-no-validation", file="cirkit/templates/region_graph/graph.py", old="        super().__init__(nodes, in_nodes, outputs)\n        self._check_structure()\n", new="        super().__init__(nodes, in_nodes, outputs)\n", expect={"C16": ["R6:cirkit.templates.region_graph.graph.RegionGraph.__init__:validates-on-construction"]}),
    dict(id="c16-overlap-accepted", file="cirkit/templates/region_graph/graph.py", old="            if scope != node.scope or sum(len(sc) for sc in scopes) != len(scope):\n", new="            if scope != node.scope:\n", expect={"C16": ["R8:cirkit.templates.region_graph.graph.RegionGraph._check_structure:overlapping"]}),
    dict(id="c16-cover-and", file="cirkit/templates/region_graph/graph.py", old="            if scope != node.scope or sum(len(sc) for sc in scopes) != len(scope):\n", new="            if scope != node.scope and sum(len(sc) for sc in scopes) != len(scope):\n", expect={"C16": ["R8:cirkit.templates.region_graph.graph.RegionGraph._check_structure:"]}),
    dict(id="c16-partition-scope-unchecked", file="cirkit/templates/region_graph/graph.py", old="                    if ptn.scope != node.scope:\n", new="                    if ptn.scope > node.scope:\n", expect={"C16": ["R8:cirkit.templates.region_graph.graph.RegionGraph._check_structure:partition-scope-differs"]}),
    dict(id="q-check-structure-merged", quiet=True, file="cirkit/templates/region_graph/graph.py", old="            if scope != node.scope or sum(len(sc) for sc in scopes) != len(scope):\n", new="            if sum(len(sc) for sc in scopes) != len(scope) or scope != node.scope:\n", expect={}),
    # ---------------------------------------------------------------- C12 / name tables
    dict(id="c12-softmax-name-builds-sigmoid", file="cirkit/templates/utils.py", old="            return functools.partial(SoftmaxParameter, **kwargs)\n", new="            return functools.partial(SigmoidParameter)\n", expect={"C12": ["N1:cirkit.templates.utils.name_to_parameter_activation:case:softmax"]}),
    dict(id="c20-categorical-name-builds-binomial", file="cirkit/templates/utils.py", old="            return functools.partial(CategoricalLayer, **kwargs)\n", new="            return functools.partial(BinomialLayer, **kwargs)\n", expect={"C20": ["N1:cirkit.templates.utils.name_to_input_layer_factory:case:categorical"]}),
    dict(id="c12-softmax-dim-unshifted", file=TNODES, old="        return torch.softmax(x, dim=self.dim + 1)\n", new="        return torch.softmax(x, dim=self.dim)\n", expect={"C12": ["R5a:"], "C14": ["R5a:"]}),
]

# ---------------------------------------------------------------- round 3: shape interpreter (R4), R10, R11, matchers, R7i/R7p, R3g
TINNER = "cirkit/backend/torch/layers/inner.py"
TINPUT = "cirkit/backend/torch/layers/input.py"
TOPT = "cirkit/backend/torch/layers/optimized.py"
SEMI = "cirkit/backend/torch/semiring.py"
QUER = "cirkit/backend/torch/queries.py"
GMOD = "cirkit/backend/torch/graph/modules.py"
FOLD = "cirkit/backend/torch/graph/folding.py"
OLAY = "cirkit/backend/torch/optimization/layers.py"
CIRC = "cirkit/symbolic/circuit.py"

MUTATIONS += [
    # R4b: layer forward contracts
    dict(id="r4b-sum-permute", file=TINNER, old="        x = x.permute(0, 2, 1, 3).flatten(start_dim=2)\n        weight = self.weight()\n        return self.semiring.einsum(\n            \"fbi,foi->fbo\"", new="        x = x.permute(2, 0, 1, 3).flatten(start_dim=2)\n        weight = self.weight()\n        return self.semiring.einsum(\n            \"fbi,foi->fbo\"", expect={"C01": ["R4b:cirkit.backend.torch.layers.inner.TorchSumLayer:forward"]}, allow_others=True),
    dict(id="r4b-sum-einsum-letters", file=TINNER, old="            \"fbi,foi->fbo\", inputs=(x,), operands=(weight,), dim=-1, keepdim=True\n        )  # shape (F, B, K_o).\n\n    def sample", new="            \"fbi,fio->fbo\", inputs=(x,), operands=(weight,), dim=-1, keepdim=True\n        )  # shape (F, B, K_o).\n\n    def sample", expect={"C01": ["R4b:cirkit.backend.torch.layers.inner.TorchSumLayer:forward"]}, allow_others=True),
    dict(id="r4b-gaussian-unsqueeze", file=TINPUT, old="        mean = self.mean().unsqueeze(dim=1)  # (F, 1, K)", new="        mean = self.mean().unsqueeze(dim=2)  # (F, 1, K)", expect={"C01": ["R4b:cirkit.backend.torch.layers.input.TorchGaussianLayer:"]}, allow_others=True),
    dict(id="r4b-constant-expand", file=TINPUT, old="        value = value.unsqueeze(dim=1).expand(value.shape[0], batch_size, value.shape[1])", new="        value = value.unsqueeze(dim=0).expand(value.shape[0], batch_size, value.shape[1])", expect={"C11": ["R4q:"], "C06": ["R4b:"], "C01": ["R4b:cirkit.backend.torch.layers.input.TorchConstantValueLayer:forward"]}),
    dict(id="r4b-tucker-view", file=TOPT, old="            -1,\n            self.num_output_units,\n            *(self.num_input_units for _ in range(self.arity)),", new="            -1,\n            self.num_input_units,\n            *(self.num_input_units for _ in range(self.arity)),", expect={"C01": ["R4b:cirkit.backend.torch.layers.optimized.TorchTuckerLayer:forward"]}, allow_others=True),
    dict(id="r4b-tensordot-permute", file=TOPT, old="        x = x.permute(0, 1, 3, 2)", new="        x = x.permute(0, 1, 2, 3)", expect={"C01": ["R4b:cirkit.backend.torch.layers.optimized.TorchTensorDotLayer:forward"]}, allow_others=True),
    # R4c / R4q: marginal queries
    dict(id="r4c-cat-logpart-axis", file=TINPUT, old="        return torch.logsumexp(logits, dim=2).unsqueeze(dim=1)", new="        return torch.logsumexp(logits, dim=1).unsqueeze(dim=1)", expect={"C11": ["R4c:cirkit.backend.torch.layers.input.TorchCategoricalLayer:"]}, allow_others=True),
    dict(id="r4q-mask-permute", file=QUER, old="        integration_mask = integration_mask.permute([1, 0, 2])", new="        integration_mask = integration_mask.permute([0, 1, 2])", expect={"C11": ["R4q:cirkit.backend.torch.queries.IntegrateQuery._layer_fn"]}),
    # R4s / R4q: sampling
    dict(id="r4s-kron-sample-axes", file=TINNER, old="            y0 = y0.unsqueeze(dim=2)  # (F, K, 1, num_samples, D)", new="            y0 = y0.unsqueeze(dim=3)  # (F, K, 1, num_samples, D)", expect={"C15": ["R4s:cirkit.backend.torch.layers.inner.TorchKroneckerLayer:sample"]}),
    dict(id="r4s-cat-sample-permute", file=TINPUT, old="        dist = distributions.Categorical(logits=logits)\n        # samples: (N, F, K)\n        samples = dist.sample((num_samples,))\n        samples = samples.permute(1, 2, 0)", new="        dist = distributions.Categorical(logits=logits)\n        # samples: (N, F, K)\n        samples = dist.sample((num_samples,))\n        samples = samples.permute(2, 1, 0)", expect={"C15": ["R4s:cirkit.backend.torch.layers.input.TorchCategoricalLayer:sample"]}),
    dict(id="r4q-pad-zeros", file=QUER, old="            (*samples.shape, num_rvs), device", new="            (num_rvs, *samples.shape), device", expect={"C15": ["R4q:cirkit.backend.torch.queries.SamplingQuery._pad_samples:pad"]}),
    # R4a: parameter operators
    dict(id="r4a-outer-unsqueeze", file=TNODES, old="        x2 = x2.unsqueeze(self.dim + 1)  # (F, K1, K2, ..., 1, Ki2, ...., Kn)", new="        x2 = x2.unsqueeze(self.dim + 2)  # (F, K1, K2, ..., 1, Ki2, ...., Kn)", expect={"C14": ["R4a:cirkit.backend.torch.parameters.nodes.TorchOuterProductParameter:forward"]}, allow_others=True),
    dict(id="r4a-mixing-permute", file=TNODES, old="        return diag_weights.permute(0, 2, 1, 3).flatten(start_dim=2)", new="        return diag_weights.permute(0, 2, 1, 3).flatten(start_dim=1)", expect={"C14": ["R4a:cirkit.backend.torch.parameters.nodes.TorchMixingWeightParameter:forward"]}, allow_others=True),
    dict(id="r4a-gauss-mean-view", file=TNODES, old="        return mean.view(-1, *self.shape)  # (F, K1 * K2, C)", new="        return mean  # (F, K1 * K2, C)", expect={"C04": ["R4"], "C14": ["R4a:cirkit.backend.torch.parameters.nodes.TorchGaussianProductMean:forward"]}),
    # R4p / R4r
    dict(id="r4p-reduce-axis-dropped", file=RPAR, old="    return TorchReduceLSEParameter(in_shape, dim=p.axis)", new="    return TorchReduceLSEParameter(in_shape, dim=p.axis - 1)", expect={"C14": ["R4p:cirkit.backend.torch.rules.parameters.compile_reduce_lse_parameter"]}, allow_others=True),
    dict(id="r4r-poly-degree", file=OPS, old="        degree=sl1.degree + sl2.degree,", new="        degree=sl1.degree + sl2.degree + 1,", expect={"C04": ["R4r:cirkit.symbolic.operators.multiply_polynomial_layers"]}),
    dict(id="r4r-mult-units", file=OPS, old="    sl = CategoricalLayer(\n        sl1.scope,\n        sl1.num_output_units * sl2.num_output_units,\n        num_categories=sl1.num_categories,\n        logits=sl_logits,", new="    sl = CategoricalLayer(\n        sl1.scope,\n        sl1.num_output_units * sl1.num_output_units,\n        num_categories=sl1.num_categories,\n        logits=sl_logits,", expect={"C04": ["R4r:cirkit.symbolic.operators.multiply_categorical_layers"]}),
    dict(id="r4r-outer-axis", file=OPS, old="        OuterProductParameter(sl1.weight.shape, sl2.weight.shape, axis=0),", new="        OuterProductParameter(sl1.weight.shape, sl2.weight.shape, axis=1),", expect={"C04": ["R4r:cirkit.symbolic.operators.multiply_embedding_layers"]}, allow_others=True),
    # R11
        dict(id="r11-lse-add-family", file=SEMI, old="class LSESumSemiring(SemiringImpl):", new="class LSESumSemiring(SemiringImpl):\n    @classmethod\n    def _unused(cls) -> None:\n        return None\n", expect={}, quiet=True),
    dict(id="r11-morphism-exp", file=SEMI, old="@SumProductSemiring.register_map_from(LSESumSemiring)\ndef _(x: Tensor) -> Tensor:\n    return torch.exp(x)", new="@SumProductSemiring.register_map_from(LSESumSemiring)\ndef _(x: Tensor) -> Tensor:\n    return torch.log(x)", expect={"C01": ["R11b:cirkit.backend.torch.semiring:LSESumSemiring->SumProductSemiring"]}),
    # R10
    dict(id="r10-modulelist", file=GMOD, old="        modules: list[TorchModuleT] = nn.ModuleList(modules)  # type: ignore", new="        modules: list[TorchModuleT] = list(modules)  # type: ignore", expect={"C19": ["R10d:cirkit.backend.torch.graph.modules.TorchDiAcyclicGraph:modules"]}),
    dict(id="r10-pointer-hidden", file=TNODES, old="        super().__init__(num_folds=num_folds)\n        self._parameter = parameter\n        self._fold_idx: Tensor", new="        super().__init__(num_folds=num_folds)\n        self._parameter = (parameter,)\n        self._fold_idx: Tensor", expect={"C19": ["R10a:cirkit.backend.torch.parameters.nodes.TorchPointerParameter:ctor:parameter"]}, allow_others=True),
    dict(id="r10-ptensor-plain", file=TNODES, old="            self._ptensor = nn.Parameter(\n", new="            self._ptensor = torch.as_tensor(\n", expect={"C19": ["R10c:cirkit.backend.torch.parameters.nodes.TorchTensorParameter:store"]}, allow_others=True),
    # R8 matchers / R3g / R1d sweep
    dict(id="r8-matcher-fanin", file=COMP, old="        in_nodes = incomings_fn(layer)\n        if len(in_nodes) > 1 and lid != num_entries - 1:\n            return None", new="        in_nodes = incomings_fn(layer)\n        if len(in_nodes) > 2 and lid != num_entries - 1:\n            return None", expect={"C02": ["R8:cirkit.backend.torch.compiler._match_layer_pattern:fan-in"], "C01": ["R8:cirkit.backend.torch.compiler._match_layer_pattern:fan-in"]}),
    dict(id="r3g-stacked-range", file=FOLD, old="    if [i for idx in cum_fold_idx for i in idx] == list(range(fold_size)):", new="    if [i for idx in cum_fold_idx for i in idx] == list(range(len(cum_fold_idx) * len(cum_fold_idx[0]))):", expect={"C14": ["R3g:"], "C01": ["R3g:"], "C02": ["R3g:cirkit.backend.torch.graph.folding.build_address_book_stacked_entry"]}),
    dict(id="r1d-candecomp-semiring", file=OLAY, old="        weight=dense.weight,\n        semiring=compiler.semiring,\n    )\n    return (cpt,)", new="        weight=dense.weight,\n    )\n    return (cpt,)", expect={"C02": ["R1d:cirkit.backend.torch.optimization.layers.apply_candecomp"], "C01": ["R1d:cirkit.backend.torch.optimization.layers.apply_candecomp"]}),
    # R7i / R7p / R7d
    dict(id="r7i-evidence-reversed", file=FUN, old="        in_blocks[evi_block] = [layers_to_block[isl] for isl in sc.layer_inputs(sl)]", new="        in_blocks[evi_block] = list(reversed([layers_to_block[isl] for isl in sc.layer_inputs(sl)]))", expect={"C06": ["R7i:cirkit.symbolic.functional.evidence"]}, allow_others=True),
    dict(id="r7p-rule-call-swapped", file=FUN, old="        prod_block = func(l1, l2)", new="        prod_block = func(l2, l1)", expect={"C04": ["R7p:cirkit.symbolic.functional.multiply:rule-call"]}, allow_others=True),
    # quiet variants (behaviour preserving): every check must stay silent
    dict(id="q-sum-flatten-explicit", file=TINNER, old="        x = x.permute(0, 2, 1, 3).flatten(start_dim=2)\n        weight = self.weight()\n        return self.semiring.einsum(\n            \"fbi,foi->fbo\"", new="        x = x.permute(0, 2, 1, 3).flatten(start_dim=2, end_dim=3)\n        weight = self.weight()\n        return self.semiring.einsum(\n            \"fbi,foi->fbo\"", expect={}, quiet=True),
    dict(id="q-sum-einsum-renamed", file=TINNER, old="            \"fbi,foi->fbo\", inputs=(x,), operands=(weight,), dim=-1, keepdim=True\n        )  # shape (F, B, K_o).\n\n    def sample", new="            \"abc,adc->abd\", inputs=(x,), operands=(weight,), dim=-1, keepdim=True\n        )  # shape (F, B, K_o).\n\n    def sample", expect={}, quiet=True),
    dict(id="q-cat-logpart-keepdim", file=TINPUT, old="        return torch.logsumexp(logits, dim=2).unsqueeze(dim=1)", new="        return torch.logsumexp(logits, dim=-1).unsqueeze(dim=1)", expect={}, quiet=True),
    dict(id="q-gaussian-unsqueeze-none", file=TINPUT, old="        mean = self.mean().unsqueeze(dim=1)  # (F, 1, K)", new="        mean = self.mean()[:, None, :]  # (F, 1, K)", expect={}, quiet=True),
    dict(id="q-lse-shift-hoisted", file=SEMI, old="        exp_xs = [torch.exp(xi - max_xi) for xi, max_xi in zip(xs, max_xs)]\n\n        # NOTE: exp_x is not tuple, but list still can be unpacked with *.\n        func_exp_xs = func(*cast(tuple[Tensor, ...], exp_xs))\n\n        reduced_max_xs = functools.reduce(torch.add, max_xs)  # Do n-1 add instead of n.\n        if not keepdim:\n            reduced_max_xs = reduced_max_xs.squeeze(dim)  # To match shape of func_exp_x.\n        # Use the logarithm having a safe backward at zero, as for the complex semiring below\n        return safelog(func_exp_xs) + reduced_max_xs", new="        shifted = [xi - max_xi for xi, max_xi in zip(xs, max_xs)]\n        exp_xs = [torch.exp(s) for s in shifted]\n\n        # NOTE: exp_x is not tuple, but list still can be unpacked with *.\n        func_exp_xs = func(*cast(tuple[Tensor, ...], exp_xs))\n\n        reduced_max_xs = functools.reduce(torch.add, max_xs)  # Do n-1 add instead of n.\n        if not keepdim:\n            reduced_max_xs = reduced_max_xs.squeeze(dim)  # To match shape of func_exp_x.\n        return safelog(func_exp_xs) + reduced_max_xs", expect={}, quiet=True),
    dict(id="q-matcher-guard-split", file=COMP, old="        out_nodes = outcomings_fn(layer)\n        if len(out_nodes) > 1 and lid != 0:\n            return None", new="        out_nodes = outcomings_fn(layer)\n        if lid > 0:\n            if len(out_nodes) >= 2:\n                return None", expect={}, quiet=True),
    dict(id="q-compat-all-form", file=CIRC, old="        fs1, fs2 = sfs1[scope], sfs2[scope]\n        if len(fs1) != 1 or len(fs2) != 1:\n            return False\n        if fs1 != fs2:\n            return False\n    return True", new="        fs1, fs2 = sfs1[scope], sfs2[scope]\n        if not (len(fs1) == 1 and len(fs2) == 1 and fs1 == fs2):\n            return False\n    return True", expect={}, quiet=True),
    dict(id="q-evidence-rewire-loop-var", file=FUN, old="        in_blocks[evi_block] = [layers_to_block[isl] for isl in sc.layer_inputs(sl)]", new="        in_blocks[evi_block] = list(layers_to_block[x] for x in sc.layer_inputs(sl))", expect={}, quiet=True),
    dict(id="q-pointer-attr-renamed", file=TNODES, old="        super().__init__(num_folds=num_folds)\n        self._parameter = parameter\n        self._fold_idx: Tensor", new="        super().__init__(num_folds=num_folds)\n        p = parameter\n        self._parameter = parameter\n        del p\n        self._fold_idx: Tensor", expect={}, quiet=True),
    dict(id="q-kron-sample-negative-axes", file=TINNER, old="            y0 = y0.unsqueeze(dim=2)  # (F, K, 1, num_samples, D)", new="            y0 = y0.unsqueeze(dim=-3)  # (F, K, 1, num_samples, D)", expect={}, quiet=True),
    # ---- layout typing (shape-preserving, value-changing edits)
    dict(id="r4l-outersum-operand-order", file=TNODES, old="        x1 = x1.unsqueeze(self.dim + 2)  # (F, d1, d2, ..., dk1, 1, ..., dn)\n        x2 = x2.unsqueeze(self.dim + 1)  # (F, d1, d2, ..., 1, dk1, ...., dn)", new="        x1 = x1.unsqueeze(self.dim + 1)  # (F, d1, d2, ..., dk1, 1, ..., dn)\n        x2 = x2.unsqueeze(self.dim + 2)  # (F, d1, d2, ..., 1, dk1, ...., dn)", expect={"C04": ["R4"], "C14": ["R4l:cirkit.backend.torch.parameters.nodes.TorchOuterSumParameter:layout"]}),
    dict(id="r4l-mixing-columns", file=TNODES, old="        return diag_weights.permute(0, 2, 1, 3).flatten(start_dim=2)", new="        return diag_weights.permute(0, 2, 3, 1).flatten(start_dim=2)", expect={"C12": ["R4l:"], "C14": ["R4l:cirkit.backend.torch.parameters.nodes.TorchMixingWeightParameter:layout"]}),
    dict(id="r4l-gauss-stddev-order", file=TNODES, old="        inv_var1 = torch.reciprocal(var1).unsqueeze(dim=2)  # (F, K1, 1, C)\n        inv_var2 = torch.reciprocal(var2).unsqueeze(dim=1)  # (F, 1, K2, C)", new="        inv_var1 = torch.reciprocal(var1).unsqueeze(dim=1)  # (F, K1, 1, C)\n        inv_var2 = torch.reciprocal(var2).unsqueeze(dim=2)  # (F, 1, K2, C)", expect={"C04": ["R4"], "C14": ["R4l:cirkit.backend.torch.parameters.nodes.TorchGaussianProductStddev:layout"]}),
    dict(id="r4l-kron-forward-order", file=TINNER, old="            y0 = y0.unsqueeze(dim=-1)  # (F, B, K, 1).\n            y1 = x[:, i].unsqueeze(dim=-2)  # (F, B, 1, Ki).", new="            y0 = y0.unsqueeze(dim=-2)  # (F, B, K, 1).\n            y1 = x[:, i].unsqueeze(dim=-1)  # (F, B, 1, Ki).", expect={"C01": ["R4l:cirkit.backend.torch.layers.inner.TorchKroneckerLayer:layout"]}, allow_others=True),
    dict(id="r4l-sum-flatten-order", file=TINNER, old="        x = x.permute(0, 2, 1, 3).flatten(start_dim=2)\n        weight = self.weight()\n        return self.semiring.einsum(\n            \"fbi,foi->fbo\"", new="        x = x.permute(0, 2, 3, 1).flatten(start_dim=2)\n        weight = self.weight()\n        return self.semiring.einsum(\n            \"fbi,foi->fbo\"", expect={"C01": ["R4l:cirkit.backend.torch.layers.inner.TorchSumLayer:layout"]}, allow_others=True),
    dict(id="r12b-tucker-pairing", file=TOPT, old="            tuple((0, 1, i + 2) for i in range(arity))", new="            tuple((0, 1, arity + 1 - i) for i in range(arity))", expect={"C02": ["R12b:cirkit.backend.torch.optimization.layers.apply_tucker"], "C01": ["R12b:cirkit.backend.torch.optimization.layers.apply_tucker"]}),
    dict(id="r12b-einsum-flatten-order", patch="seeded/C03a/patch.diff", expect={"C01": ["R12b:"], "C02": ["R12b:cirkit.backend.torch.optimization.parameters.apply_sum_outer_prod_einsum"], "C03": ["R12b:cirkit.backend.torch.optimization.parameters.apply_sum_outer_prod_einsum"]}, allow_others=True),
    dict(id="q-kron-forward-loop-names", file=TINNER, old="            y0 = y0.unsqueeze(dim=-1)  # (F, B, K, 1).\n            y1 = x[:, i].unsqueeze(dim=-2)  # (F, B, 1, Ki).", new="            y0 = y0[..., None]  # (F, B, K, 1).\n            y1 = x[:, i].unsqueeze(dim=2)  # (F, B, 1, Ki).", expect={}, quiet=True),
    dict(id="l2-kron-perm-inverse", patch="seeded/C04b/patch.diff", expect={"C04": ["L2:cirkit.symbolic.operators.multiply_kronecker_layers:permutation"]}),
    dict(id="l2-kron-perm-axes", file=OPS, old="axes=sum(((1 + a, 1 + a + arity) for a in range(arity)), start=(0,))", new="axes=sum(((1 + a + arity, 1 + a) for a in range(arity)), start=(0,))", expect={"C04": ["L2:cirkit.symbolic.operators.multiply_kronecker_layers:permutation"]}),
    # ---- more behaviour-preserving refactors of interpreted code
    dict(id="q-cat-logpart-keepdim-transpose", file=TINPUT, old="        return torch.logsumexp(logits, dim=2).unsqueeze(dim=1)", new="        return torch.logsumexp(logits, dim=2, keepdim=True).transpose(1, 2)", expect={}, quiet=True),
    dict(id="q-sum-forward-einops", file=TINNER, old="        x = x.permute(0, 2, 1, 3).flatten(start_dim=2)\n        weight = self.weight()\n        return self.semiring.einsum(\n            \"fbi,foi->fbo\"", new="        x = E.rearrange(x, \"f h b k -> f b (h k)\")\n        weight = self.weight()\n        return self.semiring.einsum(\n            \"fbi,foi->fbo\"", expect={}, quiet=True),
    dict(id="q-constant-expand-minus-one", file=TINPUT, old="        value = value.unsqueeze(dim=1).expand(value.shape[0], batch_size, value.shape[1])", new="        value = value[:, None, :].expand(-1, batch_size, -1)", expect={}, quiet=True),
    dict(id="q-outer-reshape", file=TNODES, old="        x = x1 * x2  # (F, K1, K2, ..., Ki1, Ki2, ..., Kn)\n        x = x.view(self.num_folds, *self.shape)  # (F, K1, K2, ..., Ki1 * Ki2, ..., Kn)", new="        x = x1 * x2  # (F, K1, K2, ..., Ki1, Ki2, ..., Kn)\n        x = x.reshape(x.shape[0], *self.shape)  # (F, K1, K2, ..., Ki1 * Ki2, ..., Kn)", expect={}, quiet=True),
    dict(id="q-kron-perm-helper", file=OPS, old="    arity = max(sl1.arity, sl2.arity)\n    kron_sl = KroneckerLayer(sl1.num_input_units * sl2.num_input_units, arity=arity)", new="    arity = sl1.arity if sl1.arity >= sl2.arity else sl2.arity\n    kron_sl = KroneckerLayer(sl1.num_input_units * sl2.num_input_units, arity=arity)", expect={}, quiet=True),
    dict(id="q-einsum-rewrite-names", file="cirkit/backend/torch/optimization/parameters.py", old="    del reduce_idx[reduce_dim]\n", new="    reduce_idx = reduce_idx[:reduce_dim] + reduce_idx[reduce_dim + 1 :]\n", expect={}, quiet=True),
    # ---- wave-2 rules
    dict(id="r4g-lookup-permute", file="cirkit/backend/torch/circuits.py", old="x = in_graph[..., layer.scope_idx].permute(1, 0, 2)", new="x = in_graph[..., layer.scope_idx].permute(0, 1, 2)", expect={"C01": ["R4g:cirkit.backend.torch.circuits.LayerAddressBook.lookup:input"]}),
    dict(id="r4g-output-transpose", file="cirkit/backend/torch/circuits.py", old="        y = y.transpose(0, 1)  # (B, O, K)", new="        y = y.transpose(0, 2)  # (B, O, K)", expect={"C01": ["R4g:cirkit.backend.torch.circuits.TorchCircuit._evaluate_layers:outputs"]}),
    dict(id="r4l-sum-sample-layout", patch="seeded/C15a/patch.diff", expect={"C15": ["R4l:cirkit.backend.torch.layers.inner.TorchSumLayer:layout-sample"]}),
    dict(id="r5c-index-range", patch="seeded/C14b/patch.diff", expect={"C14": ["R5c:cirkit.backend.torch.parameters.nodes.TorchIndexParameter:buffer:_indices"]}),
    dict(id="r11d-global-max", patch="seeded/C12b/patch.diff", expect={"C12": ["R11d:cirkit.backend.torch.parameters.nodes.TorchSoftmaxParameter.forward"], "C01": ["R11d:"]}, allow_others=True),
    dict(id="r13c-hmm-position", patch="seeded/C12a/patch.diff", expect={"C12": ["R13c:cirkit.templates.pgms.hmm"], "C20": ["R13c:cirkit.templates.pgms.hmm"]}),
    dict(id="r13c-hmm-zip", patch="seeded/C20a/patch.diff", expect={"C20": ["R13"], "C12": ["R13"]}),
    dict(id="r13d-filtered-enumerate", patch="seeded/C11a/patch.diff", expect={"C11": ["R13d:cirkit.backend.torch.queries.IntegrateQuery.scopes_to_mask"]}),
    dict(id="r8m-bound-check", patch="seeded/C11b/patch.diff", expect={"C11": ["R8m:cirkit.backend.torch.queries.IntegrateQuery.scopes_to_mask"]}, allow_others=True),
    dict(id="r7n-per-node", patch="seeded/C16a/patch.diff", expect={"C08": ["R7n:"], "C16": ["R7n:cirkit.templates.region_graph.graph.RegionGraph.is_structured_decomposable"]}),
    dict(id="r7n-scope-identity", patch="seeded/C16b/patch.diff", expect={"C16": ["R7n:cirkit.templates.region_graph.graph.RegionGraph.dump"]}),
    dict(id="r6e-cached-factory", patch="seeded/C18a/patch.diff", expect={"C18": ["R6e:cirkit.symbolic.registry.OperatorRegistry.from_default_rules"]}),
    dict(id="r10h-stale-memo", patch="seeded/C20b/patch.diff", expect={"C20": ["R10h:cirkit.templates.logic.graph.LogicalCircuit"]}),
    dict(id="r10g-evidence-cache", patch="seeded/C06b/patch.diff", expect={"C06": ["R10g:"], "C10": ["R10g:"], "C19": ["R10g:"]}),
    dict(id="r3d-evidence-key", patch="seeded/C06a/patch.diff", expect={"C06": ["R3d:"], "C02": ["R3d:"]}),
    dict(id="q-hmm-enumerate-ordering", file="cirkit/templates/pgms.py", old="    input_sl = input_factories[ordering[-1]](Scope([ordering[-1]]), num_latent_states)", new="    last_var = ordering[-1]\n    input_sl = input_factories[last_var](Scope([last_var]), num_latent_states)", expect={}, quiet=True),
    dict(id="q-mask-enumerate-alias", file="cirkit/backend/torch/queries.py", old="        num_idxs = sum(len(s) for s in batch_integrate_vars)", new="        num_idxs = sum(map(len, batch_integrate_vars))", expect={}, quiet=True),
    # ---- behaviour-preserving twins of seeded changes: must stay silent
    dict(id="q-index-range-lossless", edits=[(TNODES, "        self._indices: Tensor\n        self.register_buffer(\"_indices\", torch.tensor(indices))", "        self._indices: Tensor\n        self.register_buffer(\"_indices\", torch.tensor(indices))\n        self._range: tuple[int, int] | None = None\n        if list(indices) == list(range(indices[0], indices[0] + len(indices))):\n            self._range = (indices[0], len(indices))"), (TNODES, "        return torch.index_select(x, self.dim + 1, self._indices)", "        if self._range is not None:\n            return torch.narrow(x, self.dim + 1, self._range[0], self._range[1])\n        return torch.index_select(x, self.dim + 1, self._indices)")], expect={}, quiet=True),
    dict(id="q-evidence-index-helper-cache", file=TINPUT, old="        obs = self.observation()  # (F, D)\n        obs = obs.unsqueeze(dim=1)  # (F, 1, D)", new="        self._last_batch_size = batch_size\n        obs = self.observation()  # (F, D)\n        obs = obs.unsqueeze(dim=1)  # (F, 1, D)", expect={}, quiet=True),
    dict(id="r12b-tensordot-weights-swapped", file=OLAY, old="    weight1 = weight.subgraph(in_kronecker1)\n    weight2 = weight.subgraph(in_kronecker2)", new="    weight1 = weight.subgraph(in_kronecker2)\n    weight2 = weight.subgraph(in_kronecker1)", expect={"C02": ["R12b:cirkit.backend.torch.optimization.layers.apply_dense_tensordot"]}),
    dict(id="r12b-tensordot-view-order", file=TOPT, old="        x = x.view(x.shape[0], x.shape[1], self._num_contract_units, self._num_batch_units)", new="        x = x.view(x.shape[0], x.shape[1], self._num_batch_units, self._num_contract_units).transpose(2, 3)", expect={"C02": ["R12b:cirkit.backend.torch.optimization.layers.apply_dense_tensordot"]}, allow_others=True),
    dict(id="r11e-complex-plain-log", patch="seeded/C13b/patch.diff", expect={"C13": ["R11e:"]}),
    dict(id="c13-requires-grad-key", patch="seeded/C13a/patch.diff", expect={"C06": ["R3d:"], "C13": ["R3d:"], "C17": ["R3d:"], "C02": ["R3d:"]}),
    dict(id="r4i-dirichlet-transpose", file="cirkit/backend/torch/initializers.py", old="    tensor.copy_(torch.movedim(samples, -1, dim))", new="    tensor.copy_(torch.transpose(samples, dim, -1))", expect={"C17": ["R4i:cirkit.backend.torch.initializers.dirichlet_:dirichlet[rank=4,dim=1]"]}),
    dict(id="r4i-dirichlet-wrong-dim", file="cirkit/backend/torch/initializers.py", old="    tensor.copy_(torch.movedim(samples, -1, dim))", new="    tensor.copy_(torch.movedim(samples, -1, dim - 1))", expect={"C17": ["R4i:cirkit.backend.torch.initializers.dirichlet_"]}),
    dict(id="q-dirichlet-permute", file="cirkit/backend/torch/initializers.py", old="    tensor.copy_(torch.movedim(samples, -1, dim))", new="    order = list(range(len(shape) - 1))\n    order.insert(dim, len(shape) - 1)\n    tensor.copy_(samples.permute(order))", expect={}, quiet=True),
    # ---- R6p: foreign tensors stay behind pointers
    dict(id="r6p-fold-unwrap", file=COMP, old="        return TorchPointerParameter(in_folded_node, fold_idx=in_fold_idx)", new="        if in_fold_idx == list(range(in_folded_node.num_folds)):\n            return in_folded_node\n        return TorchPointerParameter(in_folded_node, fold_idx=in_fold_idx)", expect={"C10": ["R6p:cirkit.backend.torch.compiler._fold_parameter_nodes_group"], "C19": ["R6p:cirkit.backend.torch.compiler._fold_parameter_nodes_group"]}),
    dict(id="r6p-pointer-forwards-reset", file=TNODES, old="    def deref(self) -> TorchTensorParameter:\n        return self._parameter\n", new="    def deref(self) -> TorchTensorParameter:\n        return self._parameter\n\n    def reset_parameters(self) -> None:\n        self._parameter.reset_parameters()\n", expect={"C10": ["R6p:cirkit.backend.torch.parameters.nodes.TorchPointerParameter.reset_parameters"], "C19": ["R6p:cirkit.backend.torch.parameters.nodes.TorchPointerParameter.reset_parameters"]}),
    dict(id="r6p-reference-compiles-to-tensor", file=RPAR, old="    return TorchPointerParameter(compiled_p, fold_idx=fold_idx)", new="    if fold_idx is None or compiled_p.num_folds == 1:\n        return compiled_p\n    return TorchPointerParameter(compiled_p, fold_idx=fold_idx)", expect={"C10": ["R6p:cirkit.backend.torch.rules.parameters.compile_reference_parameter"], "C19": ["R6p:cirkit.backend.torch.rules.parameters.compile_reference_parameter"]}, allow_others=True),
    dict(id="q-r6p-pointer-kwarg-checked", quiet=True, file=COMP, old="        return TorchPointerParameter(in_folded_node, fold_idx=in_fold_idx)", new="        assert isinstance(in_folded_node, TorchTensorParameter) and in_folded_node.num_folds >= len(group)\n        ptr = TorchPointerParameter(parameter=in_folded_node, fold_idx=in_fold_idx)\n        return ptr", expect={}),
    # ---- R3g (b)/(c): the no-op shortcuts compare the index in order, element by element
    dict(id="r3g-stacked-sorted", file="cirkit/backend/torch/graph/folding.py", old="    if [i for idx in cum_fold_idx for i in idx] == list(range(fold_size)):", new="    if sorted(i for idx in cum_fold_idx for i in idx) == list(range(fold_size)):", expect={"C14": ["R3g:"], "C06": ["R3m:"], "C02": ["R3g:cirkit.backend.torch.graph.folding.build_address_book_stacked_entry:in-order"], "C01": ["R3g:"]}),
    dict(id="r3g-stacked-lengths-only", file="cirkit/backend/torch/graph/folding.py", old="    if [i for idx in cum_fold_idx for i in idx] == list(range(fold_size)):", new="    if sum(len(idx) for idx in cum_fold_idx) == fold_size:", expect={"C14": ["R3g:"], "C02": ["R3g:cirkit.backend.torch.graph.folding.build_address_book_stacked_entry:guarded"], "C01": ["R3g:"]}),
    dict(id="q-r3g-stacked-split-forms", quiet=True, file="cirkit/backend/torch/graph/folding.py", old="""    if [i for idx in cum_fold_idx for i in idx] == list(range(fold_size)):
        if len(cum_fold_idx) == 1 and len(cum_fold_idx[0]) == fold_size:
            # Equivalent to .unsqueeze(dim=0)
            return AddressBookEntry(module, [in_module_ids], [(None,)])
        if len(cum_fold_idx) == fold_size and len(cum_fold_idx[0]) == 1:
            # Equivalent to .unsqueeze(dim=1)
            return AddressBookEntry(module, [in_module_ids], [(slice(None), None)])
""", new="""    if len(cum_fold_idx) == 1 and cum_fold_idx[0] == list(range(fold_size)):
        # Equivalent to .unsqueeze(dim=0)
        return AddressBookEntry(module, [in_module_ids], [(None,)])
    if cum_fold_idx == [[i] for i in range(fold_size)]:
        # Equivalent to .unsqueeze(dim=1)
        return AddressBookEntry(module, [in_module_ids], [(slice(None), None)])
""", expect={}),
    # ---- R4x: fold / batch axes keep their identity; R6s: per-instance state
    dict(id="r4x-evidence-repeat-view", file="cirkit/backend/torch/layers/input.py", old="        return x.expand(x.shape[0], batch_size, x.shape[2])", new="        return x.repeat(batch_size, 1, 1).view(-1, batch_size, x.shape[2])", expect={"C06": ["R4x:cirkit.backend.torch.layers.input.TorchEvidenceLayer"], "C01": ["R4x:cirkit.backend.torch.layers.input.TorchEvidenceLayer"]}),
    dict(id="q-r4x-evidence-repeat-batch-axis", quiet=True, file="cirkit/backend/torch/layers/input.py", old="        return x.expand(x.shape[0], batch_size, x.shape[2])", new="        return x.repeat(1, batch_size, 1)", expect={}),
    dict(id="q-r4x-evidence-repeat-then-transpose", quiet=True, file="cirkit/backend/torch/layers/input.py", old="        return x.expand(x.shape[0], batch_size, x.shape[2])", new="        return x.repeat(batch_size, 1, 1).view(batch_size, -1, x.shape[2]).transpose(0, 1)", expect={}),
    dict(id="r6s-compiler-state-class-level", edits=[(COMP, "        self._compiled_parameters: dict[TensorParameter, tuple[TorchTensorParameter, int]] = {}\n", "        pass\n"), (COMP, "class TorchCompilerState:\n", "class TorchCompilerState:\n    _compiled_parameters: dict[TensorParameter, tuple[TorchTensorParameter, int]] = {}\n\n")], expect={"C10": ["R6s:cirkit.backend.torch.compiler.TorchCompilerState"]}),
    dict(id="q-r6s-class-default-rebound", quiet=True, edits=[(COMP, "class TorchCompilerState:\n", "class TorchCompilerState:\n    _compiled_parameters: dict[TensorParameter, tuple[TorchTensorParameter, int]] = {}\n\n")], expect={}),
    # ---- R2e const-guard
    dict(id="r2e-const-guard-softmax-kind", patch="seeded/C03b/patch.diff", expect={"C03": ["R2e:cirkit.symbolic.operators.integrate_categorical_layer:const-guard"]}, allow_others=True),
    dict(id="q-r2e-const-guard-axis-checked", quiet=True, edits=[(OPS, "    LogParameter,\n    OuterProductParameter,", "    LogParameter,\n    LogSoftmaxParameter,\n    OuterProductParameter,"), (OPS, "    if sl.logits is None:\n        log_partition = Parameter.from_input(ConstantParameter(sl.num_output_units, value=0.0))\n    else:\n        reduce_lse", "    if sl.logits is None or (\n        isinstance(sl.logits.output, LogSoftmaxParameter) and sl.logits.output.axis in (1, -1)\n    ):\n        log_partition = Parameter.from_input(ConstantParameter(sl.num_output_units, value=0.0))\n    else:\n        reduce_lse")], expect={}),
    # ---- R5d exponent ramp
    dict(id="r5d-hoisted-ramp-loop-counter", patch="seeded/C05b/patch.diff", expect={"C05": ["R5d:"], "C14": ["R5d:"]}),
    dict(id="r5d-hoisted-ramp-negative-slice", patch="seeded/C14a/patch.diff", expect={"C05": ["R5d:"], "C14": ["R5d:"]}),
    dict(id="r5d-ramp-from-zero", file=TNODES, old="        arange = torch.arange(1, degp1).to(x)  # shape (deg,).", new="        arange = torch.arange(0, degp1 - 1).to(x)  # shape (deg,).", expect={"C05": ["R5d:"], "C14": ["R5d:"]}),
    dict(id="q-r5d-hoisted-ramp-prefix", quiet=True, file=TNODES, old="""        if x.shape[-1] <= self.order:
            return torch.zeros_like(x[..., :1])  # shape (F, K, 1).

        for _ in range(self.order):
            x = self._diff_once(x)
""", new="""        if x.shape[-1] <= self.order:
            return torch.zeros_like(x[..., :1])  # shape (F, K, 1).

        ramp = torch.arange(1, x.shape[-1]).to(x)
        for _ in range(self.order):
            x = x[..., 1:] * ramp[: x.shape[-1] - 1]
""", expect={}),
    dict(id="q-r5d-ramp-sliced-from-iota", quiet=True, file=TNODES, old="        arange = torch.arange(1, degp1).to(x)  # shape (deg,).", new="        arange = torch.arange(degp1)[1:].to(x)  # shape (deg,).", expect={}),
    # ---- wave-3 seeds as kept
    dict(id="w3-c02c-addressbook-prefix", patch="seeded/C02c/patch.diff", expect={"C14": ["R3g:"], "C01": ["R3g:"], "C02": ["R3g:"]}),
    dict(id="w3-c02d-stacked-sorted", patch="seeded/C02d/patch.diff", expect={"C01": ["R3g:"], "C02": ["R3g:"]}, allow_others=True),
    dict(id="w3-c03c-einsum-index-order", patch="seeded/C03c/patch.diff", expect={"C01": ["R12b:"], "C03": ["R12b:"], "C02": ["R12b:"]}, allow_others=True),
    dict(id="w3-c03d-integrate-topological-outputs", patch="seeded/C03d/patch.diff", expect={"C03": ["R7e:"]}),
    dict(id="w3-c06c-dtype-fold-key", patch="seeded/C06c/patch.diff", expect={"C06": ["R3d:"], "C02": ["R3d:"], "C13": ["R3d:"], "C17": ["R3d:"]}),
    dict(id="w3-c06d-evidence-repeat-view", patch="seeded/C06d/patch.diff", expect={"C06": ["R4x:"], "C01": ["R4x:"]}),
    dict(id="w3-c10c-class-level-state", patch="seeded/C10c/patch.diff", expect={"C10": ["R6s:"]}),
    dict(id="w3-c10d-module-compile", patch="seeded/C10d/patch.diff", expect={"C10": ["R6d:"], "C18": ["R6d:"]}),
    dict(id="w3-c19b-fold-unwrap", patch="seeded/C19b/patch.diff", expect={"C10": ["R6p:"], "C19": ["R6p:"]}),
    dict(id="w3-c04c-gaussian-logpartition", patch="seeded/C04c/patch.diff", expect={"C04": ["R2f:"]}),
    dict(id="w3-c04d-kron-perm-row", patch="seeded/C04d/patch.diff", expect={"C04": ["L2:"]}),
    dict(id="w3-c01d-lse-clamp", patch="seeded/C01d/patch.diff", expect={"C01": ["R11c:"], "C12": ["R11c:"], "C13": ["R11c:"]}),
    # ---- R4q sample-call
    dict(id="r4q-sample-call-permute", file="cirkit/backend/torch/queries.py", old="        samples = samples.permute(2, 0, 1, 3)", new="        samples = samples.permute(3, 0, 1, 2)", expect={"C15": ["R4q:cirkit.backend.torch.queries.SamplingQuery.__call__:sample-call"]}),
    dict(id="q-r4q-sample-call-index-then-transposeless", quiet=True, file="cirkit/backend/torch/queries.py", old="        samples = samples.permute(2, 0, 1, 3)\n        # TODO: fix for the case of multi-output circuits, i.e., O != 1 or K != 1\n        samples = samples[:, 0, 0]  # (num_samples, D)", new="        samples = samples[0, 0]  # (num_samples, D)", expect={}),
    # ---- quiet twins of the wave-4 rules (behaviour-preserving rewrites: every check stays silent)
    dict(id="q-r2d-conjugate-hoisted", quiet=True, file=OPS, old="    weight = Parameter.from_unary(ConjugateParameter(sl.weight.shape), sl.weight.ref())\n    sl = SumLayer(", new="    w_ref = sl.weight.ref()\n    conj = ConjugateParameter(w_ref.shape)\n    weight = Parameter.from_unary(conj, w_ref)\n    sl = SumLayer(", expect={}),
    dict(id="q-r7s-scopes-hoisted", quiet=True, file="cirkit/symbolic/circuit.py", old="            self._scopes[sl] = Scope.union(*tuple(self._scopes[sli] for sli in sl_ins))", new="            in_scopes = [self._scopes[sli] for sli in sl_ins]\n            self._scopes[sl] = Scope.union(*in_scopes)", expect={}),
    dict(id="q-r8-nothing-selected-method-any", quiet=True, file="cirkit/backend/torch/queries.py", old="        if not torch.any(integration_mask).item():\n            return output", new="        if not integration_mask.any():\n            return output", expect={}),
    dict(id="q-r8s-where-bool", quiet=True, file="cirkit/backend/torch/queries.py", old="        return torch.where(integration_mask, integration_output, output)", new="        selected = integration_mask.bool()\n        return torch.where(selected, integration_output, output)", expect={}),
    dict(id="q-r14b-iterate-copy", quiet=True, edits=[("cirkit/templates/logic/graph.py", "            for input_to_d in self.node_inputs(d):", "            for input_to_d in list(self.node_inputs(d)):"), ("cirkit/templates/logic/graph.py", "                        in_nodes[d].insert(0, ad_hoc)", "                        in_nodes[d].append(ad_hoc)")], expect={}),
    dict(id="q-r14d-width-hoisted", quiet=True, file="cirkit/templates/region_graph/graph.py", old="                sum_sl = sum_factory(sum_input.num_output_units, num_units)", new="                width = sum_input.num_output_units\n                sum_sl = sum_factory(width, num_units)", expect={}),
    dict(id="q-r10i-clone-then-inplace", quiet=True, file="cirkit/backend/torch/layers/inner.py", old="        x = torch.sum(x, dim=1)  # (F, C, K, num_samples, D)\n        return x, None", new="        y = x[:, 0].clone()\n        for i in range(1, x.shape[1]):\n            y += x[:, i]\n        return y, None", expect={}),
    dict(id="q-r4s-randn-full-shape", quiet=True, file="cirkit/backend/torch/layers/input.py", old="        dist = distributions.Normal(loc=self.mean(), scale=self.stddev())\n        # samples: (N, F, K)\n        samples = dist.sample((num_samples,))\n        samples = samples.permute(1, 2, 0)  # (F, K, N)\n        return samples", new="        mean = self.mean().unsqueeze(dim=-1)  # (F, K, 1)\n        stddev = self.stddev().unsqueeze(dim=-1)  # (F, K, 1)\n        eps = torch.randn(mean.shape[0], mean.shape[1], num_samples)\n        return mean + stddev * eps  # (F, K, N)", expect={}),
    dict(id="q-r5d-zero-branch-degree-form", quiet=True, file=TNODES, old="        if x.shape[-1] <= self.order:\n            return torch.zeros_like(x[..., :1])  # shape (F, K, 1).", new="        degree = x.shape[-1] - 1\n        if degree < self.order:\n            return torch.zeros_like(x[..., :1])  # shape (F, K, 1).", expect={}),
    dict(id="q-polyval-leading-coeff-expanded", quiet=True, file="cirkit/backend/torch/layers/input.py", old="        y = x.new_zeros(*x.shape[:-1], coeff.shape[-2])  # shape (F, B, Ko).\n\n        # TODO: iterating over dim=2 is inefficient\n        for a_n in reversed(\n            coeff.unbind(dim=2)\n        ):  # Reverse iterator of the degree axis, shape (F, Ko).", new="        a_deg, *a_ns = reversed(coeff.unbind(dim=2))\n        y = a_deg.unsqueeze(dim=1).expand(-1, x.shape[1], -1)\n        for a_n in a_ns:", expect={}),
    dict(id="q-r14a-groupby-sorted-same-key", quiet=True, file="cirkit/templates/region_graph/graph.py", old="""        is_structured_decomposable = True
        decompositions: dict[Scope, frozenset[Scope]] = {}
        for partition in self.partition_nodes:
            # A decomposition is the set of the sub-scopes, regardless of how they are ordered
            decomp = frozenset(region.scope for region in self.node_inputs(partition))
            if partition.scope not in decompositions:
                decompositions[partition.scope] = decomp
            is_structured_decomposable &= decomp == decompositions[partition.scope]
        return is_structured_decomposable
""", new="""        partitions = sorted(self.partition_nodes, key=lambda p: tuple(p.scope))
        for _, scope_partitions in itertools.groupby(partitions, key=lambda ptn: tuple(ptn.scope)):
            decompositions = {
                frozenset(region.scope for region in self.node_inputs(partition))
                for partition in scope_partitions
            }
            if len(decompositions) > 1:
                return False
        return True
""", expect={}),
    # ---- wave-4 seeds as kept
    dict(id="w4-c05c", patch="seeded/C05c/patch.diff", expect={'C05': ['R5d:'], 'C14': ['R5d:']}, allow_others=True),
    dict(id="w4-c05d", patch="seeded/C05d/patch.diff", expect={'C05': ['R4b:'], 'C01': ['R4b:'], 'C11': ['R4']}, allow_others=True),
    dict(id="w4-c07c", patch="seeded/C07c/patch.diff", expect={'C07': ['R2d:']}, allow_others=True),
    dict(id="w4-c07d", patch="seeded/C07d/patch.diff", expect={'C07': ['R2h:']}, allow_others=True),
    dict(id="w4-c08c", patch="seeded/C08c/patch.diff", expect={'C08': ['R7s:']}, allow_others=True),
    dict(id="w4-c08d", patch="seeded/C08d/patch.diff", expect={'C08': ['R7n:'], 'C16': ['R7n:']}, allow_others=True),
    dict(id="w4-c11c", patch="seeded/C11c/patch.diff", expect={'C11': ['R8:']}, allow_others=True),
    dict(id="w4-c11d", patch="seeded/C11d/patch.diff", expect={'C11': ['R8s:']}, allow_others=True),
    dict(id="w4-c12c", patch="seeded/C12c/patch.diff", expect={'C12': ['R3d:'], 'C02': ['R3d:']}, allow_others=True),
    dict(id="w4-c12d", patch="seeded/C12d/patch.diff", expect={'C12': ['R4l:'], 'C14': ['R4l:']}, allow_others=True),
    dict(id="w4-c14c", patch="seeded/C14c/patch.diff", expect={'C14': ['R12c:'], 'C02': ['R12c:']}, allow_others=True),
    dict(id="w4-c14d", patch="seeded/C14d/patch.diff", expect={'C14': ['R3i:'], 'C02': ['R3i:']}, allow_others=True),
    dict(id="w4-c15c", patch="seeded/C15c/patch.diff", expect={'C15': ['R4s:']}, allow_others=True),
    dict(id="w4-c15d", patch="seeded/C15d/patch.diff", expect={'C15': ['R10i:'], 'C01': ['R10i:']}, allow_others=True),
    dict(id="w4-c16c", patch="seeded/C16c/patch.diff", expect={'C16': ['R14d:']}, allow_others=True),
    dict(id="w4-c16d", patch="seeded/C16d/patch.diff", expect={'C16': ['R14a:'], 'C08': ['R14a:']}, allow_others=True),
    dict(id="w4-c20c", patch="seeded/C20c/patch.diff", expect={'C20': ['R14b:']}, allow_others=True),
    dict(id="w4-c20d", patch="seeded/C20d/patch.diff", expect={'C20': ['R14c:']}, allow_others=True),
    dict(id="r3j-config-list", file=TNODES, old='        config["indices"] = tuple(self.indices)', new='        config["indices"] = self.indices', expect={"C02": ["R3j:"], "C14": ["R3j:"]}),
    dict(id="r14e-numpy-scalar-into-scope", file="cirkit/templates/region_graph/algorithms/utils.py", old="            cur_v, prev_v = prev_v, int(tree[cur_v])", new="            cur_v, prev_v = prev_v, tree[cur_v]", expect={"C16": ["R14e:"]}),
    # ---- wave-5 rules: reverted repairs must be reported again, behaviour-preserving twins stay silent
    dict(id="r10j-reset-skips-sub-modules", file="cirkit/backend/torch/circuits.py", old="            for sub_l in l.sub_modules.values():\n                reset_layer_parameters(sub_l)\n", new="", expect={"C17": ["R10j:"], "C19": ["R10j:"]}),
    dict(id="r8-overlap-guard-removed", file=FUN, old="        if sc1.layer_scope(l1) != sc2.layer_scope(l2):\n            raise NotImplementedError(", new="        if False:\n            raise NotImplementedError(", expect={"C04": ["R8:cirkit.symbolic.functional.multiply:overlap-different-scope"], "C09": ["overlap-different-scope"]}),
    dict(id="r14f-view-of-einsum", file="cirkit/backend/torch/layers/optimized.py", old="        return y.reshape(y.shape[0], y.shape[1], self.num_output_units)", new="        return y.view(y.shape[0], y.shape[1], self.num_output_units)", expect={"C02": ["R14f:"], "C04": ["R14f:"]}),
    dict(id="q-r14f-contiguous-view", quiet=True, file="cirkit/backend/torch/layers/optimized.py", old="        return y.reshape(y.shape[0], y.shape[1], self.num_output_units)", new="        return y.contiguous().view(y.shape[0], y.shape[1], self.num_output_units)", expect={}),
    dict(id="q-r7e-outputs-loop", quiet=True, file=FUN, old="        output_blocks.extend(layers_to_block[sl] for sl in sc.outputs)", new="        for out_sl in sc.outputs:\n            output_blocks.append(layers_to_block[out_sl])", expect={}),
    dict(id="q-r13e-keyed-dict", quiet=True, file=FUN, old="            obs_ndarray = np.array([obs[var] for var in sorted(sl.scope)])", new="            layer_obs = {var: obs[var] for var in sl.scope}\n            obs_ndarray = np.array([layer_obs[var] for var in sorted(sl.scope)])", expect={}),
    dict(id="q-r11g-backward-equality-mask", quiet=True, file="cirkit/backend/torch/utils.py", old="        return torch.nan_to_num(grad_output / x.conj())", new="        is_zero = x == 0\n        grad = grad_output / torch.where(is_zero, torch.ones_like(x), x).conj()\n        return torch.where(is_zero, torch.zeros_like(grad), grad)", expect={}),
    # ---- wave-5 seeds as kept
    dict(id="w5-c04e", patch="seeded/C04e/patch.diff", expect={'C04': ['R14h:']}, allow_others=True),
    dict(id="w5-c04f", patch="seeded/C04f/patch.diff", expect={'C04': ['R4l:'], 'C14': ['R4l:']}, allow_others=True),
    dict(id="w5-c06e", patch="seeded/C06e/patch.diff", expect={'C06': ['R13e:']}, allow_others=True),
    dict(id="w5-c06f", patch="seeded/C06f/patch.diff", expect={'C06': ['R7e:']}, allow_others=True),
    dict(id="w5-c09c", patch="seeded/C09c/patch.diff", expect={'C09': ['R8:'], 'C04': ['R8:']}, allow_others=True),
    dict(id="w5-c09d", patch="seeded/C09d/patch.diff", expect={'C09': ['R8:'], 'C03': ['R8:']}, allow_others=True),
    dict(id="w5-c13c", patch="seeded/C13c/patch.diff", expect={'C13': ['R11g:']}, allow_others=True),
    dict(id="w5-c13d", patch="seeded/C13d/patch.diff", expect={'C13': ['R11h:']}, allow_others=True),
    dict(id="w5-c17c", patch="seeded/C17c/patch.diff", expect={'C17': ['R4i:']}, allow_others=True),
    dict(id="w5-c17d", patch="seeded/C17d/patch.diff", expect={'C17': ['R4i:']}, allow_others=True),
    dict(id="w5-c18c", patch="seeded/C18c/patch.diff", expect={'C18': ['R6w:']}, allow_others=True),
    dict(id="w5-c18d", patch="seeded/C18d/patch.diff", expect={'C18': ['R6d:'], 'C10': ['R6d:']}, allow_others=True),
    # ---- wave-5 (rest) and wave-6 seeds as kept
    dict(id="w6-c03e", patch="seeded/C03e/patch.diff", expect={'C03': ['R3k:']}, allow_others=True),
    dict(id="w6-c19c", patch="seeded/C19c/patch.diff", expect={'C19': ['R6q:'], 'C10': ['R6q:']}, allow_others=True),
    dict(id="w6-c19d", patch="seeded/C19d/patch.diff", expect={'C19': ['R10']}, allow_others=True),
    dict(id="w6-c01e", patch="seeded/C01e/patch.diff", expect={'C01': ['R12b:']}, allow_others=True),
    dict(id="w6-c01f", patch="seeded/C01f/patch.diff", expect={'C01': ['R11i:']}, allow_others=True),
    dict(id="w6-c02e", patch="seeded/C02e/patch.diff", expect={'C02': ['R14m:']}, allow_others=True),
    dict(id="w6-c02f", patch="seeded/C02f/patch.diff", expect={'C02': ['R14l:']}, allow_others=True),
    dict(id="w6-c05e", patch="seeded/C05e/patch.diff", expect={'C05': ['R7e:']}, allow_others=True),
    dict(id="w6-c05f", patch="seeded/C05f/patch.diff", expect={'C05': ['R14i:']}, allow_others=True),
    dict(id="w6-c10f", patch="seeded/C10f/patch.diff", expect={'C10': ['R6d:']}, allow_others=True),
    dict(id="w6-c11e", patch="seeded/C11e/patch.diff", expect={'C11': ['R10i:']}, allow_others=True),
    dict(id="w6-c11f", patch="seeded/C11f/patch.diff", expect={'C11': ['R4q:']}, allow_others=True),
    dict(id="w6-c14e", patch="seeded/C14e/patch.diff", expect={'C14': ['R5f:']}, allow_others=True),
    dict(id="w6-c14f", patch="seeded/C14f/patch.diff", expect={'C14': ['R5d:'], 'C05': ['R5d:']}, allow_others=True),
    dict(id="w6-c16e", patch="seeded/C16e/patch.diff", expect={'C16': ['R14j:']}, allow_others=True),
    dict(id="w6-c20e", patch="seeded/C20e/patch.diff", expect={'C20': ['R14k:']}, allow_others=True),
    dict(id="w6-c20f", patch="seeded/C20f/patch.diff", expect={'C20': ['R13f:']}, allow_others=True),
    dict(id="r8-smoothing-extends-any-node", file="cirkit/templates/logic/graph.py", old="                    if isinstance(input_to_d, ConjunctionNode):", new="                    if input_to_d in in_nodes:", expect={"C20": ["R8:cirkit.templates.logic.graph.LogicalCircuit.smooth:smoothing-conjoins"]}),
    dict(id="r14g-sorted-pairs", file=FUN, old="            next_to_multiply = [(l1_inputs[i], l2_inputs[l2_matches[i]]) for i in range(len(l1_inputs))]", new="            next_to_multiply = [(l1_inputs[i], l2_inputs[j]) for i, j in zip(l1_ranks, l2_ranks)]", expect={"C04": ["R14g:"]}, allow_others=True),
    # ---- wave-7 seeds as kept
    dict(id="w7-c08e", patch="seeded/C08e/patch.diff", expect={'C08': ['R7d:']}, allow_others=True),
    dict(id="w7-c08f", patch="seeded/C08f/patch.diff", expect={'C08': ['R7t:']}, allow_others=True),
    dict(id="w7-c12e", patch="seeded/C12e/patch.diff", expect={'C12': ['R11l:'], 'C14': ['R11l:']}, allow_others=True),
    dict(id="w7-c12f", patch="seeded/C12f/patch.diff", expect={'C12': ['R13g:']}, allow_others=True),
    dict(id="w7-c13e", patch="seeded/C13e/patch.diff", expect={'C13': ['R11j:']}, allow_others=True),
    dict(id="w7-c13f", patch="seeded/C13f/patch.diff", expect={'C13': ['R11c:']}, allow_others=True),
    dict(id="w7-c04g", patch="seeded/C04g/patch.diff", expect={'C04': ['R7e:']}, allow_others=True),
    dict(id="w7-c04h", patch="seeded/C04h/patch.diff", expect={'C04': ['R2a:']}, allow_others=True),
    dict(id="w7-c10e", patch="seeded/C10e/patch.diff", expect={'C10': ['R2a:']}, allow_others=True),
    dict(id="w7-c03f", patch="seeded/C03f/patch.diff", expect={'C03': ['R11k:'], 'C14': ['R11k:']}, allow_others=True),
    dict(id="w7-c03g", patch="seeded/C03g/patch.diff", expect={'C03': ['R2e:']}, allow_others=True),
    dict(id="w7-c15e", patch="seeded/C15e/patch.diff", expect={'C15': ['R14n:']}, allow_others=True),
    dict(id="w7-c15f", patch="seeded/C15f/patch.diff", expect={'C15': ['R14p:']}, allow_others=True),
    dict(id="w7-c06g", patch="seeded/C06g/patch.diff", expect={'C06': ['R3m:'], 'C02': ['R3m:'], 'C01': ['R3m:']}, allow_others=True),
    dict(id="w7-c06h", patch="seeded/C06h/patch.diff", expect={'C06': ['R3l:'], 'C02': ['R3l:'], 'C01': ['R3l:']}, allow_others=True),
    dict(id="w7-c07e", patch="seeded/C07e/patch.diff", expect={'C07': ['X1:']}, allow_others=True),
    dict(id="w7-c07f", patch="seeded/C07f/patch.diff", expect={'C07': ['X1:']}, allow_others=True),
    # ---- wave-7 rules: reverted repairs (D30, D9/D31, D32) are reported again; behaviour-preserving twins stay silent
    dict(id="r4q-pad-len-scope", file=QUER, old="        num_rvs = max(self._circuit.scope) + 1\n        padded_samples", new="        num_rvs = len(self._circuit.scope)\n        padded_samples", expect={"C15": ["R4q:cirkit.backend.torch.queries.SamplingQuery._pad_samples:pad"]}),
    dict(id="q-r4q-pad-inline-max", quiet=True, file=QUER, old="        num_rvs = max(self._circuit.scope) + 1\n        padded_samples = torch.zeros(\n            (*samples.shape, num_rvs),", new="        padded_samples = torch.zeros(\n            (*samples.shape, 1 + max(self._circuit.scope)),", expect={}),
    dict(id="r14q-reindex-dropped", file=OPS, old="    if sl1.num_input_units > 1 and sl2.arity > 1:\n        # The columns", new="    if False:\n        # The columns", expect={"C04": ["R14q:", "L1:"]}),
    dict(id="r14q-reindex-extra-condition", file=OPS, old="    if sl1.num_input_units > 1 and sl2.arity > 1:\n        # The columns", new="    if sl1.num_input_units > 1 and sl2.arity > 1 and sl1.arity > 1:\n        # The columns", expect={"C04": ["R14q:cirkit.symbolic.operators.multiply_sum_layers:kronecker-columns:when"]}),
    dict(id="r14q-reindex-wrong-nesting", file=OPS, old="            for a2 in range(sl2.arity)\n            for i1 in range(sl1.num_input_units)\n", new="            for i1 in range(sl1.num_input_units)\n            for a2 in range(sl2.arity)\n", expect={"C04": ["R14q:cirkit.symbolic.operators.multiply_sum_layers:kronecker-columns:indices"]}),
    dict(id="r14q-reindex-wrong-polynomial", file=OPS, old="            ((a1 * sl1.num_input_units + i1) * sl2.arity + a2) * sl2.num_input_units + i2", new="            ((a1 * sl2.arity + a2) * sl1.num_input_units + i1) * sl2.num_input_units + i2", expect={"C04": ["R14q:cirkit.symbolic.operators.multiply_sum_layers:kronecker-columns:indices"]}),
    dict(id="q-r14q-reindex-expanded-polynomial", quiet=True, file=OPS, old="            ((a1 * sl1.num_input_units + i1) * sl2.arity + a2) * sl2.num_input_units + i2", new="            (a1 * sl1.num_input_units + i1) * (sl2.arity * sl2.num_input_units) + a2 * sl2.num_input_units + i2", expect={}),
    dict(id="q-r14q-condition-swapped", quiet=True, file=OPS, old="    if sl1.num_input_units > 1 and sl2.arity > 1:\n        # The columns", new="    if sl2.arity > 1 and sl1.num_input_units > 1:\n        # The columns", expect={}),
    dict(id="r14q-sum-pairs-second-major", file=FUN, old="            next_to_multiply = list(itertools.product(l1_inputs, l2_inputs))", new="            next_to_multiply = [(a, b) for b, a in itertools.product(l2_inputs, l1_inputs)]", expect={"C04": ["R14q:cirkit.symbolic.functional.multiply:sum-pairs"]}, allow_others=True),
    dict(id="r5g-matmul-not-promoted", file=TNODES, old="        dtype = torch.promote_types(x1.dtype, x2.dtype)\n        return torch.matmul(x1.to(dtype), x2.to(dtype))", new="        return torch.matmul(x1, x2)", expect={"C02": ["R5g:cirkit.backend.torch.parameters.nodes.TorchMatMulParameter"], "C07": ["R5g:"]}),
    dict(id="r5g-einsum-not-promoted", file="cirkit/backend/torch/parameters/optimized.py", old="        xs = tuple(x.to(dtype) for x in xs)\n", new="", expect={"C02": ["R5g:cirkit.backend.torch.parameters.optimized.TorchEinsumParameter"], "C07": ["R5g:"]}),
    dict(id="q-r5g-matmul-type-as", quiet=True, file=TNODES, old="        dtype = torch.promote_types(x1.dtype, x2.dtype)\n        return torch.matmul(x1.to(dtype), x2.to(dtype))", new="        out_dtype = torch.result_type(x1, x2)\n        lhs, rhs = x1.to(out_dtype), x2.to(out_dtype)\n        return torch.matmul(lhs, rhs)", expect={}),
    dict(id="q-r3l-running-sum", quiet=True, file=FOLD, old="    cum_module_ids = [\n        dict(zip(mids, itertools.accumulate([0] + [num_folds[mid] for mid in mids])))\n        for mids in in_module_ids\n    ]\n", new="    cum_module_ids: list[dict[int, int]] = []\n    for mids in in_module_ids:\n        offset = 0\n        offsets: dict[int, int] = {}\n        for mid in mids:\n            offsets[mid] = offset\n            offset += num_folds[mid]\n        cum_module_ids.append(offsets)\n", expect={}),
    dict(id="r3l-accumulate-without-zero", file=FOLD, old="            itertools.accumulate([0] + module_fold_sizes),", new="            itertools.accumulate(module_fold_sizes),", expect={"C01": ["R3l:"], "C02": ["R3l:"], "C06": ["R3l:"]}, allow_others=True),
    dict(id="r3m-reversed-fold-idx", file="cirkit/backend/torch/circuits.py", old="None, [fold_idx_info.out_fold_idx], num_folds=num_folds, output=True", new="None, [list(reversed(fold_idx_info.out_fold_idx))], num_folds=num_folds, output=True", expect={"C01": ["R3m:"], "C02": ["R3m:"], "C06": ["R3m:"]}, allow_others=True),
    dict(id="q-r11l-seed-clamped", quiet=True, patch="seeded/C12e/patch.diff", edits=[(TINPUT, "            log_probs, log_compl_probs = torch.log(probs), torch.log1p(-probs)", "            probs = torch.distributions.utils.clamp_probs(probs)\n            log_probs, log_compl_probs = torch.log(probs), torch.log1p(-probs)")], expect={}),
    dict(id="q-r11l-seed-xlogy", quiet=True, patch="seeded/C12e/patch.diff", edits=[
        (TINPUT, "            log_probs, log_compl_probs = torch.log(probs), torch.log1p(-probs)", "            log_lik = torch.xlogy(x.to(probs.dtype), probs) + torch.special.xlog1py((self.total_count - x).to(probs.dtype), -probs)"),
        (TINPUT, "            log_probs = torch.nn.functional.logsigmoid(logits)\n            log_compl_probs = torch.nn.functional.logsigmoid(-logits)\n", "            log_lik = x * torch.nn.functional.logsigmoid(logits) + (self.total_count - x) * torch.nn.functional.logsigmoid(-logits)\n"),
        (TINPUT, "        x = x.to(log_probs.dtype)\n", "        x = x.to(log_lik.dtype)\n"),
        (TINPUT, "        return log_binom + x * log_probs + (self.total_count - x) * log_compl_probs", "        return log_binom + log_lik"),
    ], expect={}),
    # ---- R14r (the seed that was missed until a path-sensitive bound rule existed) and its correct twin
    dict(id="w6-c16f", patch="seeded/C16f/patch.diff", expect={'C16': ['R14r:']}, allow_others=True),
    dict(id="q-r14r-tight-table", quiet=True, file="cirkit/templates/region_graph/algorithms/chow_liu.py", old='            data = torch.div(data, num_categories // num_bins, rounding_mode="floor")\n', new='            data = torch.div(data, num_categories // num_bins, rounding_mode="floor")\n            num_categories = (num_categories - 1) // (num_categories // num_bins) + 1\n', expect={}),
    dict(id="r14r-table-one-short", file="cirkit/templates/region_graph/algorithms/chow_liu.py", old='            data = torch.div(data, num_categories // num_bins, rounding_mode="floor")\n', new='            data = torch.div(data, num_categories // num_bins, rounding_mode="floor")\n            num_categories = (num_categories - 1) // (num_categories // num_bins)\n', expect={'C16': ['R14r:']}),
    # ---- wave-8 rules: reverted repairs (D33, D35, D36) are reported again; behaviour-preserving twins stay silent
    dict(id="r9u-leaf-root-keeps-input-layer", file="cirkit/templates/region_graph/graph.py", old="                    if region_outputs:\n                        node_to_layer[node] = input_sl\n                        continue\n", new="                    if True:\n                        node_to_layer[node] = input_sl\n                        continue\n", expect={"C16": ["R9u:"]}),
    dict(id="r8m-mask-check-dropped", file=QUER, old="            if torch.any(integrate_vars_mask[:, ~in_scope]):\n                raise ValueError(\n                    \"The variables to marginalize must be a subset of the circuit scope\"\n                )\n", new="", expect={"C11": ["R8m:cirkit.backend.torch.queries.IntegrateQuery.__call__"], "C09": ["R8m:"]}),
    dict(id="r14u-from-nary-no-dedup", file=SPAR, old="        p_nodes = list(dict.fromkeys(chain.from_iterable(p.nodes for p in p_graphs))) + [n]", new="        p_nodes = list(chain.from_iterable(p.nodes for p in p_graphs)) + [n]", expect={"C14": ["R14u:cirkit.symbolic.parameters.Parameter.from_nary"]}),
    dict(id="r14u-from-nary-set-dedup", file=SPAR, old="        p_nodes = list(dict.fromkeys(chain.from_iterable(p.nodes for p in p_graphs))) + [n]", new="        p_nodes = list(set(chain.from_iterable(p.nodes for p in p_graphs))) + [n]", expect={"C14": ["R14u:cirkit.symbolic.parameters.Parameter.from_nary"]}),
    dict(id="q-r14s-outgoings-mapping", quiet=True, file="cirkit/symbolic/circuit.py", old="    return topological_ordering(bfs(roots, incomings_fn=_operands_fn), incomings_fn=_operands_fn)", new="    circuits = list(bfs(roots, incomings_fn=_operands_fn))\n    derived = graph_nodes_outgoings(circuits, _operands_fn)\n    return topological_ordering(circuits, _operands_fn, lambda sc: derived.get(sc, []))", expect={}),
    dict(id="r14s-outgoings-deduplicated", file="cirkit/utils/algorithms.py", old="            if ch in outgoings:\n                outgoings[ch].append(n)", new="            if ch in outgoings:\n                if n not in outgoings[ch]:\n                    outgoings[ch].append(n)", expect={"C18": ["R14s:cirkit.utils.algorithms.graph_nodes_outgoings"], "C01": ["R14s:"], "C04": ["R14s:"]}),
    dict(id="q-r5h-fold-shift-ge", quiet=True, file=RINI, old="    axis = init.axis if init.axis < 0 else init.axis + 1", new="    axis = init.axis + 1 if init.axis >= 0 else init.axis", expect={}),
    dict(id="r5h-normalise-gt", file=TNODES, old="        start_dim = start_dim if start_dim >= 0 else start_dim + len(in_shape)", new="        start_dim = start_dim if start_dim > 0 else start_dim + len(in_shape)", expect={"C14": ["R5h:"], "C17": ["R5h:"]}, allow_others=True),
    dict(id="q-r14t-membership-in-values-set", quiet=True, file="cirkit/backend/torch/graph/optimize.py", old="                (m for m in matches if m in prioritized_module_matches.values()), None", new="                (m for m in matches if any(m is sel for sel in prioritized_module_matches.values())), None", expect={}),
    dict(id="q-r10m-non-persistent-cache", quiet=True, patch="seeded/C19f/patch.diff", edits=[(TINPUT, '        self.register_buffer("_zero_log_partition", None)', '        self.register_buffer("_zero_log_partition", None, persistent=False)')], expect={}),
    dict(id="q-r3g-slice-under-range-comparison", quiet=True, patch="seeded/C14g/patch.diff", edits=[(FOLD, "        elif cum_fold_i_idx[-1] - cum_fold_i_idx[0] + 1 == len(cum_fold_i_idx):", "        elif cum_fold_i_idx == list(range(cum_fold_i_idx[0], cum_fold_i_idx[-1] + 1)):")], expect={}),
    dict(id="r6t-registry-keeps-given-dict", file="cirkit/backend/registry.py", old="        self._rules = {} if rules is None else dict(rules)", new="        self._rules = {} if rules is None else rules", expect={"C17": ["R6t:"], "C18": ["R6t:"], "C01": ["R6t:"]}),
    dict(id="q-r6t-registry-copy-method", quiet=True, file="cirkit/backend/registry.py", old="        self._rules = {} if rules is None else dict(rules)", new="        self._rules = {} if rules is None else rules.copy()", expect={}),
    dict(id="r14w-from-numpy-as-given", file="cirkit/backend/torch/initializers.py", old="    t = torch.from_numpy(np.ascontiguousarray(array))", new="    t = torch.from_numpy(array)", expect={"C17": ["R14w:cirkit.backend.torch.initializers.copy_from_ndarray_:contiguous"]}),
    dict(id="q-r14w-from-numpy-copy", quiet=True, file="cirkit/backend/torch/initializers.py", old="    t = torch.from_numpy(np.ascontiguousarray(array))", new="    t = torch.from_numpy(array.copy())", expect={}),
    dict(id="r14w-default-dtype-detour", file="cirkit/backend/torch/initializers.py", old="    # The values are converted to the data type of the given tensor\n    return tensor.copy_(t)", new="    if t.is_floating_point():\n        t = t.to(torch.get_default_dtype())\n    return tensor.copy_(t)", expect={"C17": ["R14w:cirkit.backend.torch.initializers.copy_from_ndarray_:dtype"]}),
    dict(id="r1e-torch-scaled-sigmoid-pickier", file=TNODES, old='        assert vmin < vmax, "Must provide vmin < vmax."', new='        assert 0 <= vmin < vmax, "Must provide 0 <= vmin < vmax."', expect={"C14": ["R1e:cirkit.backend.torch.parameters.nodes.TorchScaledSigmoidParameter"]}),
    # ---- wave-8 seeds as kept
    dict(id="w8-c01g", patch="seeded/C01g/patch.diff", expect={'C01': ['R3g:'], 'C02': ['R3g:'], 'C14': ['R3g:']}, allow_others=True),
    dict(id="w8-c01h", patch="seeded/C01h/patch.diff", expect={'C01': ['R14t:'], 'C02': ['R14t:']}, allow_others=True),
    dict(id="w8-c02g", patch="seeded/C02g/patch.diff", expect={'C02': ['R3g:'], 'C01': ['R3g:'], 'C14': ['R3g:']}, allow_others=True),
    dict(id="w8-c05g", patch="seeded/C05g/patch.diff", expect={'C05': ['R7i:']}, allow_others=True),
    dict(id="w8-c05h", patch="seeded/C05h/patch.diff", expect={'C05': ['R5d:'], 'C14': ['R5d:']}, allow_others=True),
    dict(id="w8-c09e", patch="seeded/C09e/patch.diff", expect={'C09': ['R14g:'], 'C04': ['R14g:']}, allow_others=True),
    dict(id="w8-c09f", patch="seeded/C09f/patch.diff", expect={'C09': ['R8m:'], 'C11': ['R8m:']}, allow_others=True),
    dict(id="w8-c10g", patch="seeded/C10g/patch.diff", expect={'C10': ['R10n:'], 'C19': ['R10n:']}, allow_others=True),
    dict(id="w8-c10h", patch="seeded/C10h/patch.diff", expect={'C10': ['R2e:'], 'C03': ['R2e:']}, allow_others=True),
    dict(id="w8-c11g", patch="seeded/C11g/patch.diff", expect={'C11': ['R11m:'], 'C12': ['R11m:'], 'C03': ['R11m:']}, allow_others=True),
    dict(id="w8-c11h", patch="seeded/C11h/patch.diff", expect={'C11': ['R8:']}, allow_others=True),
    dict(id="w8-c14g", patch="seeded/C14g/patch.diff", expect={'C14': ['R3g:'], 'C01': ['R3g:'], 'C02': ['R3g:']}, allow_others=True),
    dict(id="w8-c14h", patch="seeded/C14h/patch.diff", expect={'C14': ['R12b:']}, allow_others=True),
    dict(id="w8-c16g", patch="seeded/C16g/patch.diff", expect={'C16': ['R7n:'], 'C08': ['R7n:']}, allow_others=True),
    dict(id="w8-c16h", patch="seeded/C16h/patch.diff", expect={'C16': ['R14e:']}, allow_others=True),
    dict(id="w8-c17e", patch="seeded/C17e/patch.diff", expect={'C17': ['R3']}, allow_others=True),
    dict(id="w8-c17f", patch="seeded/C17f/patch.diff", expect={'C17': ['R5h:'], 'C14': ['R5h:']}, allow_others=True),
    dict(id="w8-c18e", patch="seeded/C18e/patch.diff", expect={'C18': ['R14s:'], 'C01': ['R14s:'], 'C04': ['R14s:']}, allow_others=True),
    dict(id="w8-c18f", patch="seeded/C18f/patch.diff", expect={'C18': ['R6g:']}, allow_others=True),
    dict(id="w8-c19e", patch="seeded/C19e/patch.diff", expect={'C19': ['R6p:'], 'C10': ['R6p:']}, allow_others=True),
    dict(id="w8-c19f", patch="seeded/C19f/patch.diff", expect={'C19': ['R10m:']}, allow_others=True),
    dict(id="w8-c19g", patch="seeded/C19g/patch.diff", expect={'C19': ['R10a:']}, allow_others=True),
    dict(id="w8-c20g", patch="seeded/C20g/patch.diff", expect={'C20': ['R13h:']}, allow_others=True),
    dict(id="w8-c20h", patch="seeded/C20h/patch.diff", expect={'C20': ['R14c:']}, allow_others=True),
    dict(id="q-r6g-generator-with-finally", quiet=True, patch="seeded/C18f/patch.diff", edits=[("cirkit/pipeline.py", "            token = _PIPELINE_CONTEXT.set(self)\n            yield\n            _PIPELINE_CONTEXT.reset(token)", "            token = _PIPELINE_CONTEXT.set(self)\n            try:\n                yield\n            finally:\n                _PIPELINE_CONTEXT.reset(token)")], expect={}, allow_analysis_error=True),
    dict(id="q-r13h-lookup-along-ordering", quiet=True, patch="seeded/C20g/patch.diff", edits=[("cirkit/templates/pgms.py", "    input_sls = [sl for _, sl in sorted(zip(ordering, input_sls), key=lambda t: t[0])]", "    input_sls = [input_sls[v] for v in ordering]")], expect={}, allow_analysis_error=True),
    dict(id="r9n-new-refusal-next-to-known-one", file="cirkit/templates/region_graph/graph.py", old="            num_units = num_sum_units if self.region_outputs(rgn) else num_classes\n            kronecker = KroneckerLayer(", new="            if len(rgn_partitioning) > 2:\n                raise ValueError(\"Cannot build a Tucker layer with more than two inputs\")\n            num_units = num_sum_units if self.region_outputs(rgn) else num_classes\n            kronecker = KroneckerLayer(", expect={"C16": ["R9n:cirkit.templates.region_graph.graph.RegionGraph.build_circuit:refuses:build_tucker_:Cannot build a Tucker layer with"]}),
    dict(id="r13i-binomial-one-state-too-many", file="cirkit/templates/tensor_factorizations.py", old='            factor_dim_kwargs = {"total_count": dim - 1}', new='            factor_dim_kwargs = {"total_count": dim}', expect={"C12": ["R13i:"], "C20": ["R13i:"]}),
    dict(id="r13i-image-binomial-256", file="cirkit/templates/data_modalities.py", old='            input_kwargs = {"total_count": 255}', new='            input_kwargs = {"total_count": 256}', expect={"C12": ["R13i:cirkit.templates.data_modalities.image_data:states-agree"], "C20": ["R13i:"]}, allow_others=True),
    dict(id="r11n-lse-plain-log", file=SEMI, old="        return safelog(func_exp_xs) + reduced_max_xs", new="        return torch.log(func_exp_xs) + reduced_max_xs", expect={"C13": ["R11n:cirkit.backend.torch.semiring.LSESumSemiring.apply_reduce"]}),
    # ---- wave-9 seeds as kept
    dict(id="w9-c03h", patch="seeded/C03h/patch.diff", expect={'C03': ['R12b:']}, allow_others=True),
    dict(id="w9-c04i", patch="seeded/C04i/patch.diff", expect={'C04': ['R2']}, allow_others=True),
    dict(id="w9-c04j", patch="seeded/C04j/patch.diff", expect={'C04': ['L2:']}, allow_others=True),
    dict(id="w9-c06i", patch="seeded/C06i/patch.diff", expect={'C06': ['R13e:']}, allow_others=True),
    dict(id="w9-c07g", patch="seeded/C07g/patch.diff", expect={'C07': ['R2']}, allow_others=True),
    dict(id="w9-c08g", patch="seeded/C08g/patch.diff", expect={'C08': ['R7v:']}, allow_others=True),
    dict(id="w9-c08h", patch="seeded/C08h/patch.diff", expect={'C08': ['R14x:']}, allow_others=True),
    dict(id="w9-c12g", patch="seeded/C12g/patch.diff", expect={'C12': ['R4a:'], 'C14': ['R4a:']}, allow_others=True),
    dict(id="w9-c13g", patch="seeded/C13g/patch.diff", expect={'C13': ['R11c:'], 'C01': ['R11c:']}, allow_others=True),
    dict(id="w9-c15g", patch="seeded/C15g/patch.diff", expect={'C15': ['R4u:']}, allow_others=True),
    dict(id="w9-c15h", patch="seeded/C15h/patch.diff", expect={'C15': ['R14y:']}, allow_others=True),
    dict(id="q-r11c-shared-shift-times-n", quiet=True, patch="seeded/C13g/patch.diff", edits=[(SEMI, "        return safelog(func_exp_xs) + max_x", "        return safelog(func_exp_xs) + len(xs) * max_x")], expect={}),
    dict(id="q-r4a-scatter-index-expanded", quiet=True, patch="seeded/C12g/patch.diff", edits=[(TNODES, "        return weight.scatter(2, col_idx.unsqueeze(dim=0), x)", "        return weight.scatter(2, col_idx.unsqueeze(dim=0).expand(x.shape[0], -1, -1), x)")], expect={}),
    dict(id="q-r14x-keyword-construction", quiet=True, file="cirkit/symbolic/circuit.py", old="        return StructuralProperties(\n            self.is_smooth,\n            self.is_decomposable,\n            self.is_structured_decomposable,\n            self.is_omni_compatible,\n        )", new="        return StructuralProperties(\n            decomposable=self.is_decomposable,\n            smooth=self.is_smooth,\n            structured_decomposable=self.is_structured_decomposable,\n            omni_compatible=self.is_omni_compatible,\n        )", expect={}),
    # ---- wave-10 seeds as kept (short round: three changes, all reported by rules as they stood)
    dict(id="w10-c09g", patch="seeded/C09g/patch.diff", expect={'C09': ['R7d:'], 'C08': ['R7d:']}, allow_others=True),
    dict(id="w10-c17g", patch="seeded/C17g/patch.diff", expect={'C17': ['R4i:']}, allow_others=True),
    dict(id="w10-c18g", patch="seeded/C18g/patch.diff", expect={'C18': ['R6b:'], 'C10': ['R6b:']}, allow_others=True),
    dict(id="r5i-dirichlet-axis-upper-bound-only", file="cirkit/symbolic/initializers.py", old="        if not 0 <= axis < len(shape):", new="        if axis >= len(shape):", expect={"C17": ["R5i:cirkit.symbolic.initializers.DirichletInitializer.allows_shape"], "C14": ["R5i:"]}),
    dict(id="q-r5i-two-separate-tests", quiet=True, file="cirkit/symbolic/initializers.py", old="        if not 0 <= axis < len(shape):", new="        if axis < 0 or axis >= len(shape):", expect={}),
]
