"""Mutation corpus for the checker's self-test.  Each entry: id, file, old, new (exact source
fragments, must occur once), expect: {property: [fragment of the violation key, ...]}."""

OPS = "cirkit/symbolic/operators.py"
FUN = "cirkit/symbolic/functional.py"
PIPE = "cirkit/pipeline.py"
RPAR = "cirkit/backend/torch/rules/parameters.py"
RLAY = "cirkit/backend/torch/rules/layers.py"
RINI = "cirkit/backend/torch/rules/initializers.py"
TNODES = "cirkit/backend/torch/parameters/nodes.py"
SPAR = "cirkit/symbolic/parameters.py"
SLAY = "cirkit/symbolic/layers.py"
COMP = "cirkit/backend/torch/compiler.py"
ACOMP = "cirkit/backend/compiler.py"
ALGO = "cirkit/utils/algorithms.py"
REG = "cirkit/symbolic/registry.py"

MUTATIONS = [
    # ---------------------------------------------------------------- C03
    dict(id="c03-reduce-axis", file=OPS, old="reduce_lse = ReduceLSEParameter(sl.logits.shape, axis=1)", new="reduce_lse = ReduceLSEParameter(sl.logits.shape, axis=0)", expect={"C03": ["R2e:cirkit.symbolic.operators.integrate_categorical_layer:axis"]}),
    dict(id="c03-logspace-flag", file=OPS, old="int_sl = ConstantValueLayer(sl.num_output_units, log_space=False, value=value)", new="int_sl = ConstantValueLayer(sl.num_output_units, log_space=True, value=value)", expect={"C03": ["R2e:cirkit.symbolic.operators.integrate_embedding_layer:space"]}),
    dict(id="c03-drop-ref", file=OPS, old="        log_partition = sl.log_partition.ref()\n    int_sl", new="        log_partition = sl.log_partition\n    int_sl", expect={"C03": ["R2a:cirkit.symbolic.operators.integrate_gaussian_layer"], "C10": ["R2a:cirkit.symbolic.operators.integrate_gaussian_layer"]}),
    dict(id="c03-guard-or-and", file=FUN, old="""    if not sc.is_smooth or not sc.is_decomposable:
        raise StructuralPropertyError(
            "Only smooth and decomposable circuits can be efficiently integrated.\"""", new="""    if not sc.is_smooth and not sc.is_decomposable:
        raise StructuralPropertyError(
            "Only smooth and decomposable circuits can be efficiently integrated.\"""", expect={"C03": ["R8:cirkit.symbolic.functional.integrate:non-"], "C09": ["R8:cirkit.symbolic.functional.integrate:non-"]}),
    dict(id="c03-replace-cond", file=FUN, old="""        if isinstance(sl, InputLayer) and sl.scope & scope:
            func = registry.retrieve_rule(LayerOperator.INTEGRATION, type(sl))""", new="""        if isinstance(sl, InputLayer):
            func = registry.retrieve_rule(LayerOperator.INTEGRATION, type(sl))""", expect={"C03": ["replacement-condition"]}),
    dict(id="c03-metadata", file=FUN, old="""            operator=CircuitOperator.INTEGRATION,
            operands=(sc,),
            metadata={"scope": scope},""", new="""            operator=CircuitOperator.INTEGRATION,
            operands=(sc,),
            metadata={"scope": sc.scope},""", expect={"C03": ["metadata:scope"]}),
    dict(id="c03-const-one", file=OPS, old="""    if sl.logits is None:
        log_partition = Parameter.from_input(ConstantParameter(sl.num_output_units, value=0.0))""", new="""    if sl.logits is None:
        log_partition = Parameter.from_input(ConstantParameter(sl.num_output_units, value=1.0))""", expect={"C03": ["R2e:cirkit.symbolic.operators.integrate_categorical_layer:const"]}),
    # ---------------------------------------------------------------- C07
    dict(id="c07-drop-probs", file=OPS, old="        logits=logits,\n        probs=probs,\n    )", new="        logits=logits,\n    )", expect={"C07": ["R2c:cirkit.symbolic.operators.conjugate_categorical_layer:param=probs"]}),
    dict(id="c07-no-conjugate-wrap", file=OPS, old="    coeff = Parameter.from_unary(ConjugateParameter(sl.coeff.shape), sl.coeff.ref())", new="    coeff = sl.coeff.ref()", expect={"C07": ["R2d:cirkit.symbolic.operators.conjugate_polynomial_layer:param=coeff"]}),
    dict(id="c07-sum-weight-copy", file=OPS, old="    weight = Parameter.from_unary(ConjugateParameter(sl.weight.shape), sl.weight.ref())\n    sl = SumLayer(", new="    weight = Parameter.from_unary(ConjugateParameter(sl.weight.shape), sl.weight)\n    sl = SumLayer(", expect={"C07": ["R2a:cirkit.symbolic.operators.conjugate_sum_layer"], "C10": ["R2a:cirkit.symbolic.operators.conjugate_sum_layer"]}),
    # ---------------------------------------------------------------- C09
    dict(id="c09-order-lt", file=FUN, old="    if order <= 0:\n        raise ValueError(\"The order of differentiation must be positive.\")\n\n    # Use the registry", new="    if order < 0:\n        raise ValueError(\"The order of differentiation must be positive.\")\n\n    # Use the registry", expect={"C09": ["R8:cirkit.symbolic.functional.differentiate:order=0"], "C05": ["R8:cirkit.symbolic.functional.differentiate:order=0"]}),
    dict(id="c09-compat-dropped", file=FUN, old="    if not are_compatible(sc1, sc2):\n        raise StructuralPropertyError(", new="    if not are_compatible(sc1, sc2) and not sc1.is_smooth:\n        raise StructuralPropertyError(", expect={"C09": ["R8:cirkit.symbolic.functional.multiply:incompatible"], "C04": ["R8:cirkit.symbolic.functional.multiply:incompatible"]}),
    dict(id="c09-circuit-arity", file="cirkit/symbolic/circuit.py", old="            if sl.arity != len(sl_ins):\n                raise ValueError(", new="            if sl.arity < len(sl_ins):\n                raise ValueError(", expect={"C09": ["R8:cirkit.symbolic.circuit.Circuit.__init__:arity-mismatch"]}),
    dict(id="c09-mask-batch", file="cirkit/backend/torch/queries.py", old="        if integrate_vars_mask.shape[0] not in (1, x.shape[0]):", new="        if integrate_vars_mask.shape[0] > x.shape[0]:", expect={"C09": ["R8:cirkit.backend.torch.queries.IntegrateQuery.__call__:mask-batch"], "C11": ["mask-batch"]}),
    dict(id="c09-evidence-partial", file=FUN, old="            if not sl.scope <= scope:\n                raise NotImplementedError(", new="            if not sl.scope & scope:\n                raise NotImplementedError(", expect={"C09": ["R8:cirkit.symbolic.functional.evidence:partial-multivariate"], "C06": ["partial-multivariate"]}),
    # ---------------------------------------------------------------- C18
    dict(id="c18-reset-guarded", file=PIPE, old="        assert self._token is not None\n        _PIPELINE_CONTEXT.reset(self._token)", new="        assert self._token is not None\n        if __exc_type is None:\n            _PIPELINE_CONTEXT.reset(self._token)", expect={"C18": ["R6a:cirkit.pipeline.PipelineContext.__exit__:_PIPELINE_CONTEXT:reset-on-all-paths"]}),
    dict(id="c18-registry-exit-dropped", file=PIPE, old="        self._op_registry.__exit__(__exc_type, __exc_value, __traceback)\n", new="        if __exc_type is None:\n            self._op_registry.__exit__(__exc_type, __exc_value, __traceback)\n", expect={"C18": ["R6a:cirkit.pipeline.PipelineContext.__exit__:wrapped:_op_registry"]}),
    dict(id="c18-bimap-side", file=ALGO, old="        return self._rhs_map[rhs]", new="        return self._lhs_map[rhs]", expect={"C18": ["R6c:cirkit.utils.algorithms.BiMap.get_right:own-side"]}),
    dict(id="c18-compile-not-memoised", file=ACOMP, old="        if self.is_compiled(sc):\n            return self.get_compiled_circuit(sc)\n        return self.compile_pipeline(sc)", new="        return self.compile_pipeline(sc)", expect={"C18": ["R6b:cirkit.backend.compiler.AbstractCompiler.compile"], "C10": ["R6b:cirkit.backend.compiler.AbstractCompiler.compile"]}),
    dict(id="c18-pipeline-skip-check", file=COMP, old="            if self.is_compiled(sci):\n                continue\n", new="            if self.is_compiled(sci) and sci is sc:\n                continue\n", expect={"C18": ["R6b:cirkit.backend.torch.compiler.TorchCompiler.compile_pipeline:compile-once"], "C10": ["compile-once"]}),
    dict(id="c18-wrong-sf-op", file=PIPE, old="        conj_sc = SF.conjugate(sc, registry=self._op_registry)", new="        conj_sc = SF.conjugate(sc)", expect={"C18": ["R6d:cirkit.pipeline.PipelineContext.conjugate:registry"]}),
    dict(id="c18-multiply-swapped", file=PIPE, old="        prod_sc = SF.multiply(sc1, sc2, registry=self._op_registry)", new="        prod_sc = SF.multiply(sc2, sc1, registry=self._op_registry)", expect={"C18": ["R6d:cirkit.pipeline.PipelineContext.multiply:operand-order"]}),
    dict(id="c18-module-fn-drops-arg", file=PIPE, old="    return ctx.differentiate(cc, order=order)", new="    return ctx.differentiate(cc)", expect={"C18": ["R6d:cirkit.pipeline.differentiate:delegates"]}),
    dict(id="c18-register-before-postprocess", file=COMP, old="        cc = self._post_process_circuit(cc)\n\n        # Allocate & initialize the parameters\n        cc.reset_parameters()\n\n        # Register the compiled circuit\n        self.register_compiled_circuit(sc, cc)", new="        # Register the compiled circuit\n        self.register_compiled_circuit(sc, cc)\n        cc = self._post_process_circuit(cc)\n\n        # Allocate & initialize the parameters\n        cc.reset_parameters()", expect={"C18": ["R6b:cirkit.backend.torch.compiler.TorchCompiler._compile_circuit:registers-postprocessed"], "C10": ["registers-postprocessed"]}),
    # ---------------------------------------------------------------- round 2 (post-fix tree)
    dict(id="c05-scope-iter-unsorted", file="cirkit/utils/scope.py", old="        return iter(sorted(self._set))\n", new="        return iter(self._set)\n", expect={"C05": ["R7b:cirkit.symbolic.functional.differentiate:zip#1"]}),
    dict(id="c05-diff-order-not-in-config", file=TNODES, old='        config["order"] = self.order\n', new="", expect={"C05": ["R3f:cirkit.backend.torch.parameters.nodes.TorchPolynomialDifferential:hyper:order"], "C02": ["R3f:cirkit.backend.torch.parameters.nodes.TorchPolynomialDifferential"], "C14": ["R3f:cirkit.backend.torch.parameters.nodes.TorchPolynomialDifferential"]}),
    dict(id="c07-gaussian-drops-log-partition", file=OPS, old="mean=mean, stddev=stddev, log_partition=log_partition\n", new="mean=mean, stddev=stddev\n", expect={"C07": ["R2c:cirkit.symbolic.operators.conjugate_gaussian_layer:param=log_partition"]}),
    dict(id="c08-factorization-subset-sort", file="cirkit/symbolic/circuit.py", old="sorted((sc.layer_scope(sli) for sli in sc.layer_inputs(sl)), key=_scope_sort_key)", new="sorted((sc.layer_scope(sli) for sli in sc.layer_inputs(sl)))", expect={"C08": ["R7a:cirkit.symbolic.circuit._scope_factorizations"]}),
    dict(id="c08-onesided-compat", file="cirkit/symbolic/circuit.py", old="    for scope in sfs1.keys() & sfs2.keys():\n        fs1, fs2 = sfs1[scope], sfs2[scope]\n", new="    for scope, fs1 in sfs1.items():\n        fs2 = sfs2.get(scope, None)\n        if fs2 is None:\n            return False\n", expect={"C08": ["R7c:cirkit.symbolic.circuit._are_compatible:one-sided"]}),
    dict(id="c08-rg-wrong-owner", file="cirkit/templates/region_graph/graph.py", old="            partition2_inputs = other.node_inputs(partition2)\n", new="            partition2_inputs = self.node_inputs(partition2)\n", expect={"C08": ["R7o:cirkit.templates.region_graph.graph.RegionGraph.is_compatible:self.node_inputs(partition2)"]}),
    dict(id="c04-pairing-subset-sort", file=FUN, old="key=lambda sl: tuple(sorted(sc1.layer_scope(sl)))", new="key=sc1.layer_scope", expect={"C04": ["R7a:cirkit.symbolic.functional.multiply"]}),
    dict(id="c04-kronecker-operands-swapped", file=OPS, old="KroneckerParameter(sl1.weight.shape, sl2.weight.shape), sl1.weight.ref(), sl2.weight.ref()", new="KroneckerParameter(sl1.weight.shape, sl2.weight.shape), sl2.weight.ref(), sl1.weight.ref()", expect={"C04": ["R2f:cirkit.symbolic.operators.multiply_sum_layers"]}),
    dict(id="c20-hmm-by-position", file="cirkit/templates/pgms.py", old="        input_sl = input_factories[ordering[i]](Scope([ordering[i]]), num_latent_states)\n", new="        input_sl = input_factories[i](Scope([ordering[i]]), num_latent_states)\n", expect={"C20": ["R13a:cirkit.templates.pgms.hmm:input_factories@Scope([ordering[i]])"]}),
    dict(id="c20-tt-enumerate-offset", file="cirkit/templates/tensor_factorizations.py", old="for i, dim in enumerate(shape[1:-1], start=1)", new="for i, dim in enumerate(shape[2:-1], start=1)", expect={"C20": ["R13a:cirkit.templates.tensor_factorizations.tensor_train:shape[2:-1]"]}),
    dict(id="c11-logits-rank2", file="cirkit/backend/torch/layers/input.py", old="        return torch.logsumexp(logits, dim=2).unsqueeze(dim=1)\n", new="        return torch.logsumexp(logits, dim=2)\n", expect={"C11": ["R4:cirkit.backend.torch.layers.input.TorchCategoricalLayer:log_partition_function:return#1"]}),
    dict(id="c11-gaussian-rank2", file="cirkit/backend/torch/layers/input.py", old="        return log_partition.unsqueeze(dim=1)  # (F, 1, K)\n", new="        return log_partition\n", expect={"C11": ["R4:cirkit.backend.torch.layers.input.TorchGaussianLayer:log_partition_function:return#1"]}),
    dict(id="c17-foldwise-int-index", file="cirkit/backend/torch/initializers.py", old="            initializer_(t[i : i + 1])\n", new="            initializer_(t[i])\n", expect={"C17": ["R4:cirkit.backend.torch.initializers.foldwise_initializer_:apply#1"]}),
    dict(id="c17-dirichlet-dim-dropped", file=RINI, old="functools.partial(dirichlet_, alpha=init.alpha, dim=axis)", new="functools.partial(dirichlet_, alpha=init.alpha)", expect={"C17": ["compile_dirichlet_initializer"]}),
    dict(id="c16-partition-falls-through", file="cirkit/templates/region_graph/graph.py", old="                node_to_layer[node] = prod_sl\n                continue\n", new="                node_to_layer[node] = prod_sl\n", expect={"C16": ["R9:cirkit.templates.region_graph.graph.RegionGraph.build_circuit"]}),
    dict(id="c02-gather-wrong-variable", file="cirkit/backend/torch/graph/folding.py", old="        ss = [type(module), *module.fold_settings]\n", new="        ss = [type(m), *m.fold_settings]\n", expect={"C02": ["R3d:cirkit.backend.torch.graph.folding.group_foldable_modules:gather"], "C06": ["R3d:cirkit.backend.torch.graph.folding.group_foldable_modules:gather"]}),
    dict(id="c02-interior-output-fused", file="cirkit/backend/torch/graph/optimize.py", old="            if any(m in outputs for m in match.entries[1:]):\n                continue\n", new="", expect={"C02": ["R12a:cirkit.backend.torch.graph.optimize.match_optimization_patterns:interior-output"]}),
    dict(id="c14-index-ignores-dim", file=TNODES, old="        return torch.index_select(x, self.dim + 1, self._indices)\n", new="        return x[:, self._indices]\n", expect={"C14": ["R5b:cirkit.backend.torch.parameters.nodes.TorchIndexParameter:used:dim"]}),
    dict(id="c14-reduce-sum-unshifted", file=TNODES, old="        return torch.sum(x, dim=self.dim + 1)\n", new="        return torch.sum(x, dim=self.dim)\n", expect={"C14": ["R5a:"]}),
    dict(id="c14-softmax-axis-dropped", file=RPAR, old="    return TorchSoftmaxParameter(in_shape, dim=p.axis)\n", new="    return TorchSoftmaxParameter(in_shape)\n", expect={"C14": ["R1c:cirkit.backend.torch.rules.parameters.compile_softmax_parameter"], "C01": ["R1c:cirkit.backend.torch.rules.parameters.compile_softmax_parameter"]}),
    dict(id="c01-categorical-num-categories-dropped", file=RLAY, old="        num_categories=sl.num_categories,\n", new="", expect={"C01": ["R1c:cirkit.backend.torch.rules.layers.compile_categorical_layer"]}),
    dict(id="c06-concatenate-reversed", file=FUN, old="    for sc in scs:\n", new="    for sc in reversed(scs):\n", expect={"C06": ["R7e:cirkit.symbolic.functional.concatenate:operand-order"]}),
]
