"""Mutation corpus for the checker's self-test.  Each entry: id, file, old, new (exact source
fragments, must occur once), expect: {property: [fragment of the violation key, ...]}."""

OPS = "cirkit/symbolic/operators.py"
FUN = "cirkit/symbolic/functional.py"
PIPE = "cirkit/pipeline.py"
RPAR = "cirkit/backend/torch/rules/parameters.py"
RLAY = "cirkit/backend/torch/rules/layers.py"
RINI = "cirkit/backend/torch/rules/initializers.py"
TNODES = "cirkit/backend/torch/parameters/nodes.py"
SPAR = "cirkit/symbolic/parameters.py"
SLAY = "cirkit/symbolic/layers.py"
COMP = "cirkit/backend/torch/compiler.py"
ACOMP = "cirkit/backend/compiler.py"
ALGO = "cirkit/utils/algorithms.py"
REG = "cirkit/symbolic/registry.py"

MUTATIONS = [
    # ---------------------------------------------------------------- C03
    dict(id="c03-reduce-axis", file=OPS, old="reduce_lse = ReduceLSEParameter(sl.logits.shape, axis=1)", new="reduce_lse = ReduceLSEParameter(sl.logits.shape, axis=0)", expect={"C03": ["R2e:cirkit.symbolic.operators.integrate_categorical_layer:axis"]}),
    dict(id="c03-logspace-flag", file=OPS, old="int_sl = ConstantValueLayer(sl.num_output_units, log_space=False, value=value)", new="int_sl = ConstantValueLayer(sl.num_output_units, log_space=True, value=value)", expect={"C03": ["R2e:cirkit.symbolic.operators.integrate_embedding_layer:space"]}),
    dict(id="c03-drop-ref", file=OPS, old="        log_partition = sl.log_partition.ref()\n    int_sl", new="        log_partition = sl.log_partition\n    int_sl", expect={"C03": ["R2a:cirkit.symbolic.operators.integrate_gaussian_layer"], "C10": ["R2a:cirkit.symbolic.operators.integrate_gaussian_layer"]}),
    dict(id="c03-guard-or-and", file=FUN, old="""    if not sc.is_smooth or not sc.is_decomposable:
        raise StructuralPropertyError(
            "Only smooth and decomposable circuits can be efficiently integrated.\"""", new="""    if not sc.is_smooth and not sc.is_decomposable:
        raise StructuralPropertyError(
            "Only smooth and decomposable circuits can be efficiently integrated.\"""", expect={"C03": ["R8:cirkit.symbolic.functional.integrate:non-"], "C09": ["R8:cirkit.symbolic.functional.integrate:non-"]}),
    dict(id="c03-replace-cond", file=FUN, old="""        if isinstance(sl, InputLayer) and sl.scope & scope:
            func = registry.retrieve_rule(LayerOperator.INTEGRATION, type(sl))""", new="""        if isinstance(sl, InputLayer) and sl.scope <= scope:
            func = registry.retrieve_rule(LayerOperator.INTEGRATION, type(sl))""", expect={"C03": ["replacement-condition"]}),
    dict(id="c03-metadata", file=FUN, old="""            operator=CircuitOperator.INTEGRATION,
            operands=(sc,),
            metadata={"scope": scope},""", new="""            operator=CircuitOperator.INTEGRATION,
            operands=(sc,),
            metadata={"scope": sc.scope},""", expect={"C03": ["metadata:scope"]}),
    dict(id="c03-const-one", file=OPS, old="""    if sl.logits is None:
        log_partition = Parameter.from_input(ConstantParameter(sl.num_output_units, value=0.0))""", new="""    if sl.logits is None:
        log_partition = Parameter.from_input(ConstantParameter(sl.num_output_units, value=1.0))""", expect={"C03": ["R2e:cirkit.symbolic.operators.integrate_categorical_layer:const"]}),
    # ---------------------------------------------------------------- C07
    dict(id="c07-drop-probs", file=OPS, old="        logits=logits,\n        probs=probs,\n    )", new="        logits=logits,\n    )", expect={"C07": ["R2c:cirkit.symbolic.operators.conjugate_categorical_layer:param=probs"]}),
    dict(id="c07-no-conjugate-wrap", file=OPS, old="    coeff = Parameter.from_unary(ConjugateParameter(sl.coeff.shape), sl.coeff.ref())", new="    coeff = sl.coeff.ref()", expect={"C07": ["R2d:cirkit.symbolic.operators.conjugate_polynomial_layer:param=coeff"]}),
    dict(id="c07-sum-weight-copy", file=OPS, old="    weight = Parameter.from_unary(ConjugateParameter(sl.weight.shape), sl.weight.ref())\n    sl = SumLayer(", new="    weight = Parameter.from_unary(ConjugateParameter(sl.weight.shape), sl.weight)\n    sl = SumLayer(", expect={"C07": ["R2a:cirkit.symbolic.operators.conjugate_sum_layer"], "C10": ["R2a:cirkit.symbolic.operators.conjugate_sum_layer"]}),
    # ---------------------------------------------------------------- C09
    dict(id="c09-order-lt", file=FUN, old="    if order <= 0:\n        raise ValueError(\"The order of differentiation must be positive.\")\n\n    # Use the registry", new="    if order < 0:\n        raise ValueError(\"The order of differentiation must be positive.\")\n\n    # Use the registry", expect={"C09": ["R8:cirkit.symbolic.functional.differentiate:order=0"], "C05": ["R8:cirkit.symbolic.functional.differentiate:order=0"]}),
    dict(id="c09-compat-dropped", file=FUN, old="    if not are_compatible(sc1, sc2):\n        raise StructuralPropertyError(", new="    if not are_compatible(sc1, sc2) and not sc1.is_smooth:\n        raise StructuralPropertyError(", expect={"C09": ["R8:cirkit.symbolic.functional.multiply:incompatible"], "C04": ["R8:cirkit.symbolic.functional.multiply:incompatible"]}),
    dict(id="c09-circuit-arity", file="cirkit/symbolic/circuit.py", old="            if sl.arity != len(sl_ins):\n                raise ValueError(", new="            if sl.arity < len(sl_ins):\n                raise ValueError(", expect={"C09": ["R8:cirkit.symbolic.circuit.Circuit.__init__:arity-mismatch"]}),
    dict(id="c09-mask-batch", file="cirkit/backend/torch/queries.py", old="        if integrate_vars_mask.shape[0] not in (1, x.shape[0]):", new="        if integrate_vars_mask.shape[0] > x.shape[0]:", expect={"C09": ["R8:cirkit.backend.torch.queries.IntegrateQuery.__call__:mask-batch"], "C11": ["mask-batch"]}),
    dict(id="c09-evidence-partial", file=FUN, old="            if not sl.scope <= scope:\n                raise NotImplementedError(", new="            if not sl.scope & scope:\n                raise NotImplementedError(", expect={"C09": ["R8:cirkit.symbolic.functional.evidence:partial-multivariate"], "C06": ["partial-multivariate"]}),
    # ---------------------------------------------------------------- C18
    dict(id="c18-reset-guarded", file=PIPE, old="        assert self._token is not None\n        _PIPELINE_CONTEXT.reset(self._token)", new="        assert self._token is not None\n        if __exc_type is None:\n            _PIPELINE_CONTEXT.reset(self._token)", expect={"C18": ["R6a:cirkit.pipeline.PipelineContext.__exit__:_PIPELINE_CONTEXT:reset-on-all-paths"]}),
    dict(id="c18-registry-exit-dropped", file=PIPE, old="        self._op_registry.__exit__(__exc_type, __exc_value, __traceback)\n", new="        if __exc_type is None:\n            self._op_registry.__exit__(__exc_type, __exc_value, __traceback)\n", expect={"C18": ["R6a:cirkit.pipeline.PipelineContext.__exit__:wrapped:_op_registry"]}),
    dict(id="c18-bimap-side", file=ALGO, old="        return self._rhs_map[rhs]", new="        return self._lhs_map[rhs]", expect={"C18": ["R6c:cirkit.utils.algorithms.BiMap.get_right:own-side"]}),
    dict(id="c18-compile-not-memoised", file=ACOMP, old="        if self.is_compiled(sc):\n            return self.get_compiled_circuit(sc)\n        return self.compile_pipeline(sc)", new="        return self.compile_pipeline(sc)", expect={"C18": ["R6b:cirkit.backend.compiler.AbstractCompiler.compile"]}),
    dict(id="c18-pipeline-skip-check", file=COMP, old="            if self.is_compiled(sci):\n                continue\n", new="            if self.is_compiled(sci) and sci is sc:\n                continue\n", expect={"C18": ["R6b:cirkit.backend.torch.compiler.TorchCompiler.compile_pipeline:compile-once"], "C10": ["compile-once"]}),
    dict(id="c18-wrong-sf-op", file=PIPE, old="        conj_sc = SF.conjugate(sc, registry=self._op_registry)", new="        conj_sc = SF.conjugate(sc)", expect={"C18": ["R6d:cirkit.pipeline.PipelineContext.conjugate:registry"]}),
    dict(id="c18-multiply-swapped", file=PIPE, old="        prod_sc = SF.multiply(sc1, sc2, registry=self._op_registry)", new="        prod_sc = SF.multiply(sc2, sc1, registry=self._op_registry)", expect={"C18": ["R6d:cirkit.pipeline.PipelineContext.multiply:operand-order"]}),
    dict(id="c18-module-fn-drops-arg", file=PIPE, old="    return ctx.differentiate(cc, order=order)", new="    return ctx.differentiate(cc)", expect={"C18": ["R6d:cirkit.pipeline.differentiate:delegates"]}),
    dict(id="c18-register-before-postprocess", file=COMP, old="        cc = self._post_process_circuit(cc)\n\n        # Allocate & initialize the parameters\n        cc.reset_parameters()\n\n        # Register the compiled circuit\n        self.register_compiled_circuit(sc, cc)", new="        # Register the compiled circuit\n        self.register_compiled_circuit(sc, cc)\n        cc = self._post_process_circuit(cc)\n\n        # Allocate & initialize the parameters\n        cc.reset_parameters()", expect={"C18": ["R6b:cirkit.backend.torch.compiler.TorchCompiler._compile_circuit:registers-postprocessed"], "C10": ["registers-postprocessed"]}),
]
