"""Both-ways self-test of the checker: each mutation breaks one rule instance on a scratch copy
of the repository (outside /repo and /verif, removed at once); the expected property must report a
violation whose key contains the expected fragment, and no other property may raise a *new* alarm.

A mutation whose ``old`` text no longer occurs exactly once in the current tree is skipped
(the source moved on) -- it never fails the run by itself; a floor on the number of mutations that
could be applied keeps the self-test from silently becoming empty."""

from __future__ import annotations

import importlib
import os
import pkgutil
import shutil
import sys
import tempfile
from concurrent.futures import ProcessPoolExecutor

from ..model import REPO_ROOT


def all_pids() -> list[str]:
    from .. import props

    return sorted(m.name for m in pkgutil.iter_modules(props.__path__) if m.name.startswith("C"))


def _violation_keys(pid: str, root: str) -> tuple[set[str], list[str]]:
    from ..check import evaluate

    spec, ctx, obs, errors = evaluate(pid, "quick", root)
    return {o.key for o in obs if o.status == "violation"}, errors


def _baseline(pids: list[str]) -> dict[str, set[str]]:
    return {p: _violation_keys(p, REPO_ROOT)[0] for p in pids}


def run_one(args) -> dict:
    mut, pids, baseline = args
    tmp = tempfile.mkdtemp(prefix="sa_selftest_")
    try:
        shutil.copytree(os.path.join(REPO_ROOT, "cirkit"), os.path.join(tmp, "cirkit"), ignore=shutil.ignore_patterns("__pycache__"))
        if "patch" in mut:
            import subprocess

            pth = os.path.join(os.path.dirname(os.path.dirname(os.path.dirname(os.path.abspath(__file__)))), mut["patch"])
            r = subprocess.run(["git", "apply", pth], cwd=tmp, capture_output=True, text=True)
            if r.returncode != 0:
                return {"id": mut["id"], "status": "skipped", "why": f"patch does not apply: {r.stderr.strip()[:120]}"}
            edits = mut.get("edits", [])  # further edits on top of the patch (a repaired twin of a seed)
        else:
            edits = mut["edits"] if "edits" in mut else [(mut["file"], mut["old"], mut["new"])]
        for file, old, new in edits:
            path = os.path.join(tmp, file)
            src = open(path, encoding="utf-8").read()
            if src.count(old) != 1:
                return {"id": mut["id"], "status": "skipped", "why": f"old text occurs {src.count(old)} times in {file}"}
            open(path, "w", encoding="utf-8").write(src.replace(old, new))
        res = {"id": mut["id"], "status": "ok", "problems": []}
        for pid in pids:
            keys, errors = _violation_keys(pid, tmp)
            new_keys = keys - baseline.get(pid, set())
            want = mut["expect"].get(pid)
            if want is not None:
                for frag in want:
                    if not any(frag in k for k in new_keys):
                        res["problems"].append(f"{pid}: expected a violation containing '{frag}', got {sorted(new_keys)} errors={errors}")
            elif new_keys and not mut.get("allow_others"):
                res["problems"].append(f"{pid}: unexpected cross-alarm {sorted(new_keys)}")
            # a refactor that moves the code a rule is anchored in may legitimately end as ANALYSIS-ERROR
            # (exit 2: anchor vanished / floor missed -- never a silent pass, never a VIOLATION)
            if mut.get("quiet") and errors and not mut.get("allow_analysis_error"):
                res["problems"].append(f"{pid}: behaviour-preserving variant made the analysis fail: {errors}")
        if res["problems"]:
            res["status"] = "failed"
        return res
    finally:
        shutil.rmtree(tmp, ignore_errors=True)


LAST: dict = {}


def run_selftest(pid: str | None = None, verbose: bool = True, jobs: int = 16) -> int:
    from .mutations import MUTATIONS

    pids = all_pids()
    muts = [m for m in MUTATIONS if pid is None or pid in m["expect"] or m.get("quiet")]
    only = os.environ.get("SA_SELFTEST_ONLY")
    if only:
        muts = [m for m in muts if any(m["id"].startswith(o) for o in only.split(","))]
    if not muts:
        if verbose:
            print(f"[selftest] no mutation registered for {pid}")
        return 0
    baseline = _baseline(pids)
    with ProcessPoolExecutor(max_workers=min(jobs, len(muts))) as ex:
        # breaking mutations are evaluated under every property (cross-alarm check); for a single
        # property the behaviour-preserving variants only need that property's verdict
        results = list(ex.map(run_one, [(m, ([pid] if (pid and m.get("quiet")) else pids), baseline) for m in muts]))
    applied = [r for r in results if r["status"] != "skipped"]
    failed = [r for r in results if r["status"] == "failed"]
    LAST.clear()
    LAST.update(
        {
            "variants": len(muts),
            "applied": len(applied),
            "failed": [r["id"] for r in failed],
            "breaking_variants_detected": sorted(r["id"] for r, m in zip(results, muts) if r["status"] == "ok" and not m.get("quiet")),
            "behaviour_preserving_variants_quiet": sorted(r["id"] for r, m in zip(results, muts) if r["status"] == "ok" and m.get("quiet")),
            "where": "scratch copies of /repo/cirkit under tempfile.mkdtemp(), removed after each variant",
        }
    )
    if verbose:
        print(f"[selftest] property={pid or 'all'} mutations={len(muts)} applied={len(applied)} failed={len(failed)} skipped={len(muts) - len(applied)}")
        for r in results:
            if r["status"] == "failed":
                for p in r["problems"]:
                    print(f"  SELFTEST-FAIL {r['id']}: {p}")
            elif r["status"] == "skipped":
                print(f"  selftest-skip {r['id']}: {r['why']}")
    if failed:
        return 1
    if len(applied) * 2 < len(muts):
        if verbose:
            print("  SELFTEST-FAIL fewer than half of the mutations could be applied: the mutation table is stale")
        return 1
    return 0


if __name__ == "__main__":
    sys.exit(run_selftest(sys.argv[1] if len(sys.argv) > 1 else None))
