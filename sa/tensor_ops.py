"""Shape rules of the torch / einops / python operators cirkit's torch backend uses.

Each model maps abstract operands to the abstract result (``shapes.TensorV`` etc.).  A model raises
``ShapeError`` only when every operand it looked at is fully known and the real operator would raise
or -- for ``squeeze(dim)`` -- silently produce a rank that depends on a run-time size.  Everything
outside the vocabulary yields ``Unknown``.
"""

from __future__ import annotations

import ast
from typing import Any, Iterator

from .dims import Dim, as_dim, fmt_shape
from .shapes import (
    FALSE, NONE, TRUE, BoolV, BuiltinV, ClassV, DictV, DistV, FloatV, FuncV, IntV, LambdaV, NoneV, ObjV, OpaqueV, ParamV,
    ScopeV, SemiringV, SeqV, ShapeError, State, StrV, TensorV, TupleV, UnboundShape, Unknown, V, VmapV, MAX_UNROLL, is_unknown, mkint,
)

from . import layout as L

Shape = tuple[Dim, ...]


def lays(t: TensorV) -> list:
    return list(t.lay) if t.lay is not None else [None] * len(t.shape)


def mk(shape: Any, dtype: str = "float", lay: Any = None, val: Any = None) -> TensorV:
    shape = tuple(shape)
    if lay is not None:
        lay = tuple(lay)
        if len(lay) != len(shape) or (lay and all(l is None for l in lay)):
            lay = None
    return TensorV(shape, dtype, lay, val)


def mkfresh(shape: Any, dtype: str = "float") -> TensorV:
    shape = tuple(shape)
    return TensorV(shape, dtype, L.fresh(shape))

# ------------------------------------------------------------------------------- small helpers


def geti(v: V | None, st: State) -> int | None:
    if isinstance(v, IntV):
        return st.norm(v.d).as_int()
    if isinstance(v, BoolV) and v.val is not None:
        return int(v.val)
    return None


def getd(v: V | None, st: State) -> Dim | None:
    if isinstance(v, IntV):
        return st.norm(v.d)
    return None


def seq_items(v: V | None) -> list[V] | None:
    if isinstance(v, TupleV) and v.kind in ("tuple", "list", "gen"):
        return list(v.items)
    return None


def axis(dim: int, rank: int, node: ast.AST | None, what: str, extra: int = 0) -> int:
    n = rank + extra
    if not -n <= dim < n:
        raise ShapeError(f"{what}: dim {dim} out of range for a tensor of rank {rank}", node)
    return dim % n if n else 0


def prod(ds: Shape | list[Dim]) -> Dim:
    r = Dim.const(1)
    for d in ds:
        r = r * d
    return r


def same(a: Dim, b: Dim, st: State) -> bool:
    return st.norm(a) == st.norm(b)


def is_one(d: Dim, st: State) -> bool:
    return st.norm(d).as_int() == 1


def broadcast_shapes(shapes: list[Shape], st: State, node: ast.AST | None, what: str = "broadcast") -> Shape:
    r = max((len(s) for s in shapes), default=0)
    out: list[Dim] = []
    for i in range(1, r + 1):
        cur: Dim | None = None
        for s in shapes:
            if len(s) < i:
                continue
            d = st.norm(s[-i])
            if cur is None or is_one(cur, st):
                cur = d
            elif is_one(d, st) or d == cur:
                continue
            else:
                raise ShapeError(
                    f"{what}: sizes {cur!r} and {d!r} at axis -{i} of " + " and ".join(fmt_shape(st.norm_shape(x)) for x in shapes) + " are not broadcastable (they differ for some sizes)",
                    node,
                )
        out.append(cur if cur is not None else Dim.const(1))
    return tuple(reversed(out))


def broadcast_values(interp: Any, vals: list[V], st: State, dtype: str | None, node: ast.AST | None = None) -> V:
    shapes: list[Shape] = []
    ts: list[TensorV] = []
    dt = "float"
    for v in vals:
        if isinstance(v, TensorV):
            shapes.append(v.shape)
            ts.append(v)
            dt = v.dtype if dt == "float" and v.dtype != "float" and len(vals) == 1 else dt
        elif isinstance(v, (IntV, FloatV, BoolV, NoneV)):
            continue
        elif isinstance(v, OpaqueV):
            continue
        else:
            return interp.unk("broadcast with a non-tensor")
    out = broadcast_shapes(shapes, st, node)
    return mk(out, dtype or "float", broadcast_lays(ts, out, st, node))


def broadcast_lays(ts: list[TensorV], out: Shape, st: State, node: ast.AST | None, what: str = "element-wise operator") -> list:
    r = len(out)
    res: list = []
    for i in range(1, r + 1):
        cands = []
        for t in ts:
            if len(t.shape) < i or is_one(t.shape[-i], st):
                continue
            cands.append(lays(t)[-i])
        if is_one(out[-i], st):
            res.append(())
            continue
        if not cands:
            res.append(None)
            continue
        m, conflict = L.merge(cands)
        if conflict:
            raise ShapeError(f"{what}: axis -{i} of the operands holds {conflict} -- entries that do not belong together are combined", node)
        res.append(m)
    return list(reversed(res))


def broadcastable_to(src: Shape, dst: Shape, st: State) -> bool:
    if len(src) > len(dst):
        # leading 1s may be dropped
        extra = src[: len(src) - len(dst)]
        if not all(is_one(d, st) for d in extra):
            return False
        src = src[len(src) - len(dst) :]
    for a, b in zip(reversed(src), reversed(dst)):
        if not (is_one(a, st) or same(a, b, st)):
            return False
    return True


def size_arg(args: list[V], kwargs: dict[str, V], st: State, key: str = "size") -> Shape | None:
    """size given as f(2, 3), f((2, 3)), f(size=(2, 3)); None when not fully resolvable"""
    src: list[V] | None
    if key in kwargs:
        src = seq_items(kwargs[key])
        if src is None and isinstance(kwargs[key], IntV):
            src = [kwargs[key]]
    elif len(args) == 1 and seq_items(args[0]) is not None:
        src = seq_items(args[0])
    else:
        src = list(args)
    if src is None:
        return None
    out = []
    for x in src:
        d = getd(x, st)
        if d is None:
            return None
        out.append(d)
    return tuple(out)


# ------------------------------------------------------------------------------- tensor attributes

ELEMENTWISE = {
    "exp", "log", "square", "sigmoid", "sqrt", "rsqrt", "reciprocal", "abs", "neg", "conj", "clone", "contiguous", "detach",
    "log1p", "expm1", "tanh", "relu", "sign", "floor", "ceil", "round", "erf", "lgamma", "digamma", "sin", "cos", "cpu", "cuda",
    "requires_grad_", "float", "double", "half", "to", "type", "nan_to_num", "resolve_conj", "exp_", "log_", "clamp_", "zero_",
    "fill_", "normal_", "uniform_", "copy_", "abs_", "softplus", "logsigmoid", "conj_physical", "angle", "positive", "trunc",
}
TO_INT = {"long", "int", "argsort"}
TO_BOOL = {"isreal", "isnan", "isinf", "isfinite", "logical_not", "bool"}
BINARY = {"add", "sub", "mul", "div", "true_divide", "logaddexp", "maximum", "minimum", "pow", "atan2", "fmod", "remainder", "logical_and", "logical_or", "logical_xor", "eq", "ne", "lt", "le", "gt", "ge", "floor_divide", "add_", "mul_", "sub_", "div_", "masked_fill", "copysign", "xlogy"}
REDUCE = {"sum", "prod", "logsumexp", "amax", "amin", "mean", "any", "all", "max", "min", "argmax", "argmin", "std", "var", "nansum", "norm", "median"}
ALONG_DIM = {"softmax", "log_softmax", "cumsum", "cumprod", "logcumsumexp", "flip", "sort", "roll"}
ALLOC = {"zeros", "ones", "empty", "rand", "randn", "full"}
LIKE = {"zeros_like", "ones_like", "empty_like", "rand_like", "randn_like", "full_like"}
NEW = {"new_zeros", "new_ones", "new_empty", "new_full", "new_tensor"}


def tensor_attr(interp: Any, t: TensorV, attr: str, st: State) -> V:
    if attr == "shape":
        return TupleV(tuple(IntV(st.norm(d)) for d in t.shape))
    if attr in ("device", "dtype", "layout"):
        return OpaqueV(attr)
    if attr in ("real", "imag", "data", "grad"):
        return t
    if attr in ("T", "mT", "mH", "H"):
        if len(t.shape) < 2:
            return t
        ll = lays(t)
        if attr == "T":
            return mk(tuple(reversed(t.shape)), t.dtype, list(reversed(ll)))
        return mk(t.shape[:-2] + (t.shape[-1], t.shape[-2]), t.dtype, ll[:-2] + [ll[-1], ll[-2]])
    if attr == "ndim":
        return mkint(len(t.shape))
    if attr == "requires_grad":
        return BoolV(None)
    return BuiltinV("tensor." + attr, t)


# ------------------------------------------------------------------------------- indexing


def slice_len(sl: TupleV, n: Dim, st: State, interp: Any) -> Dim | None:
    lo, hi, step = sl.items
    if not isinstance(step, NoneV):
        if geti(step, st) != 1:
            return None
    n = st.norm(n)

    def pos(v: V) -> Dim | None | str:
        """absolute position as a Dim; None for 'not given'; '?' unknown"""
        if isinstance(v, NoneV):
            return None
        d = getd(v, st)
        if d is None:
            return "?"
        i = d.as_int()
        if i is not None:
            return n + i if i < 0 else d
        # a symbolic bound: its sign decides whether it counts from the end
        if st.decide(d, "<") is True:
            return st.norm(n + d)
        if st.decide(d, ">=") is True:
            return d
        return "?"

    a, b = pos(lo), pos(hi)
    if a == "?" or b == "?":
        return None
    a = Dim.const(0) if a is None else a
    open_end = b is None
    b = n if b is None else b
    # clamp to [0, n] when decidable
    def clamp(x: Dim) -> Dim | None:
        if st.decide(x, "<=") is True:
            return Dim.const(0)
        if st.decide(n - x, ">=") is True:
            return x if st.decide(x, ">=") is True else None
        if st.decide(n - x, "<") is True:
            return n
        # x vs n undecidable: a constant bound against a symbolic size >= 1
        xi = x.as_int()
        if xi is not None and xi <= 1 and not open_end:
            return x  # t[..., :1] on a non-empty axis
        if (x - (b if x is a else a)).as_int() is not None:
            return x  # window of constant width such as t[i : i + 1]: assumed in range
        return None

    ca, cb = clamp(a), clamp(b)  # type: ignore[arg-type]
    if ca is None or cb is None:
        return None
    ln = st.norm(cb - ca)
    if st.decide(ln, ">=") is True:
        return ln
    if st.decide(ln, "<") is True:
        return Dim.const(0)
    return None


def _index_items(iv: V) -> list[V]:
    if isinstance(iv, TupleV) and iv.kind == "index":
        return list(iv.items)
    if isinstance(iv, TupleV) and iv.kind == "tuple":
        return list(iv.items)
    return [iv]


def index_shape(interp: Any, t: TensorV, iv: V, st: State, node: ast.AST | None) -> tuple[Shape, list] | None:
    """shape and per-axis layouts of ``t[iv]``"""
    items = _index_items(iv)
    n_consume = sum(1 for x in items if not isinstance(x, NoneV) and not (isinstance(x, BuiltinV) and x.name == "Ellipsis"))
    for x in items:
        if isinstance(x, TensorV) and x.dtype == "bool":
            return None
    full = TupleV((NONE, NONE, NONE), "slice")
    if any(isinstance(x, BuiltinV) and x.name == "Ellipsis" for x in items):
        k = [i for i, x in enumerate(items) if isinstance(x, BuiltinV) and x.name == "Ellipsis"]
        if len(k) > 1:
            raise ShapeError("an index can only have a single ellipsis", node)
        fill = len(t.shape) - n_consume
        if fill < 0:
            raise ShapeError(f"too many indices for a tensor of rank {len(t.shape)}", node)
        items = items[: k[0]] + [full] * fill + items[k[0] + 1 :]
    elif n_consume > len(t.shape):
        raise ShapeError(f"too many indices ({n_consume}) for a tensor of shape {fmt_shape(st.norm_shape(t.shape))}", node)
    else:
        items = items + [full] * (len(t.shape) - n_consume)
    has_adv = any(isinstance(x, TensorV) or (isinstance(x, TupleV) and x.kind in ("list", "tuple")) for x in items)
    src_l = lays(t)
    out: list[Any] = []
    out_l: list[Any] = []
    adv_shapes: list[Shape] = []
    adv_pos: list[int] = []
    tags: list[tuple[str, int]] = []
    adv_idx: list[tuple[TensorV, Any]] = []
    ax = 0
    for x in items:
        if isinstance(x, NoneV):
            out.append(Dim.const(1))
            out_l.append(())
            continue
        size = t.shape[ax]
        if isinstance(x, TupleV) and x.kind == "slice":
            ln = slice_len(x, size, st, interp)
            if ln is None:
                return None
            out.append(ln)
            out_l.append(src_l[ax] if st.norm(ln) == st.norm(size) else (() if ln.as_int() == 1 else None))
        elif isinstance(x, IntV):
            i = geti(x, st)
            sz = st.norm(size).as_int()
            if i is not None and sz is not None and not -sz <= i < sz:
                raise ShapeError(f"index {i} is out of bounds for axis {ax} with size {sz}", node)
            la = src_l[ax]
            if i is not None and la is not None and len(la) == 1:
                tags.append((L.base_label(la[0][0]), i))
                if hasattr(interp, "selected"):
                    sz_ = st.norm(size).as_int()
                    interp.selected.add((L.base_label(la[0][0]), i % sz_ if sz_ else i))
            elif i is not None and sz is not None and t.lay is not None and la is None:
                pass
            if has_adv:
                adv_shapes.append(())
                adv_pos.append(len(out))
                out.append("adv")
                out_l.append("adv")
        elif isinstance(x, TensorV):
            adv_shapes.append(x.shape)
            adv_pos.append(len(out))
            out.append("adv")
            out_l.append("adv")
            adv_idx.append((x, src_l[ax]))
        elif isinstance(x, TupleV) and x.kind in ("list", "tuple"):
            adv_shapes.append((Dim.const(len(x.items)),))
            adv_pos.append(len(out))
            out.append("adv")
            out_l.append("adv")
        else:
            return None
        ax += 1
    if adv_shapes:
        b = broadcast_shapes(adv_shapes, st, node, "advanced indexing")
        bl: list[Any] = [() if is_one(d, st) else None for d in b]
        ident_rename: tuple[str, Any] | None = None
        if len(adv_idx) == 1 and len(adv_shapes) == 1 and adv_idx[0][0].lay is not None:
            # gather by one index tensor: the new axes are laid out like the index tensor; if the
            # gathered axis belongs to an identity matrix (eye), the *other* axis of the identity now
            # enumerates the values of the index tensor
            itn, src_axis_l = adv_idx[0]
            bl = list(itn.lay)
            if itn.val is not None and src_axis_l is not None and len(src_axis_l) == 1 and src_axis_l[0][0].startswith("δ#"):
                ident_rename = (src_axis_l[0][0], tuple(itn.val))
        elif len(adv_idx) >= 2 and len(adv_idx) == len(adv_shapes) and all(itn.lay is not None for itn, _ in adv_idx):
            # several index tensors broadcast together (``w[idx_fold[:, None], :, x]``): position p of
            # the result belongs with position p of every index tensor, so the new axes are laid out
            # like the index tensors' own axes -- provided every *computed* index (arange) enumerates
            # the axis it indexes in order (value layout == layout of the indexed axis)
            renamed: list[TensorV] | None = []
            for itn, src_axis_l in adv_idx:
                if itn.val is None:
                    renamed.append(itn)  # data-dependent index: position p of the index belongs to position p of the result
                    continue
                v = tuple(itn.val)
                if src_axis_l is not None and v == tuple(src_axis_l):
                    renamed.append(itn)
                elif (
                    src_axis_l is not None
                    and len(v) == 1
                    and v[0][0].startswith("ι#")
                    and st.norm(v[0][1]) == st.norm(L.size_of(tuple(src_axis_l)))
                ):
                    # arange(n) over an axis of size n: the positions of the index now enumerate that axis
                    new_l = tuple(
                        None if la is None else tuple(a2 for a in la for a2 in (tuple(src_axis_l) if a[0] == v[0][0] else (a,)))
                        for la in itn.lay
                    )
                    renamed.append(TensorV(itn.shape, itn.dtype, new_l, itn.val))
                else:
                    renamed = None
                    break
            if renamed is not None:
                try:
                    bl = broadcast_lays(renamed, tuple(b), st, node, "advanced indexing")
                except ShapeError:
                    bl = [() if is_one(d, st) else None for d in b]
        contiguous = adv_pos == list(range(adv_pos[0], adv_pos[0] + len(adv_pos)))
        if contiguous:
            k = adv_pos[0]
            res = [d for d in out[:k] if d != "adv"] + list(b) + [d for d in out[k:] if d != "adv"]
            resl = [d for d in out_l[:k] if d != "adv"] + bl + [d for d in out_l[k:] if d != "adv"]
        else:
            res = list(b) + [d for d in out if d != "adv"]
            resl = bl + [d for d in out_l if d != "adv"]
    else:
        res, resl = list(out), list(out_l)
    if adv_shapes and ident_rename is not None:
        lab0, newl = ident_rename
        resl = [newl if (l is not None and len(l) == 1 and l[0][0] == lab0) else l for l in resl]
    for lab, i in tags:
        resl = [L.tag(l, lab, i) if l is not None else None for l in resl]
    return tuple(res), resl


def getitem(interp: Any, t: TensorV, iv: V, st: State, node: ast.AST | None) -> V:
    for x in _index_items(iv):
        if is_unknown(x) or isinstance(x, UnboundShape):
            return interp.unk("tensor index unknown")
    r = index_shape(interp, t, iv, st, node)
    if r is None:
        return interp.unk("tensor index outside the modelled forms")
    val = None
    if t.val is not None:
        # full slices and new axes (``idx[:, None]``) keep every value where it was
        keep = True
        for x in _index_items(iv):
            if isinstance(x, NoneV) or (isinstance(x, BuiltinV) and x.name == "Ellipsis"):
                continue
            if isinstance(x, TupleV) and x.kind == "slice" and all(isinstance(y, NoneV) for y in x.items):
                continue
            keep = False
        if keep:
            val = t.val
    offs = _slice_offsets(interp, t, iv, st)
    if offs is not None and val is None and t.val is not None and len(t.shape) == 1 and ramp_offset(t, st) is not None and offs[0] is not None:
        val = ((RAMP, st.norm(ramp_offset(t, st) + offs[0])),)  # a slice of a ramp is a ramp that starts later
    res = mk(r[0], t.dtype, r[1], val)
    if offs is not None and len(offs) == len(res.shape) and any(o is not None and not (o.as_int() == 0) for o in offs):
        base = t.off if t.off is not None and len(t.off) == len(t.shape) else None
        res = TensorV(res.shape, res.dtype, res.lay, res.val, tuple(offs))
    return res


RAMP = "ramp@"
ZEROS = (("zeros@", Dim.const(0)),)  # value marker: the tensor is the constant 0 (zeros / zeros_like / new_zeros)


def ramp_offset(t: TensorV, st: State) -> Dim | None:
    """the first value of an integer ramp (``arange(a, b)`` -> a; ``arange(n)`` -> 0), if *t* is one"""
    if t.val is None or len(t.val) != 1:
        return None
    lab, d = t.val[0]
    if lab == RAMP:
        return st.norm(d)
    if lab.startswith("ι#"):
        return Dim.const(0)
    return None


def _slice_offsets(interp: Any, t: TensorV, iv: V, st: State) -> list[Dim | None] | None:
    """for an index made of slices / None / Ellipsis only: per *result* axis, where it starts in *t*"""
    items = _index_items(iv)
    n_consume = sum(1 for x in items if not isinstance(x, NoneV) and not (isinstance(x, BuiltinV) and x.name == "Ellipsis"))
    out: list[Dim | None] = []
    ax = 0
    base = list(t.off) if t.off is not None and len(t.off) == len(t.shape) else [Dim.const(0)] * len(t.shape)
    for x in items:
        if isinstance(x, NoneV):
            out.append(Dim.const(0))
        elif isinstance(x, BuiltinV) and x.name == "Ellipsis":
            k = len(t.shape) - n_consume
            out.extend(base[ax : ax + k])
            ax += k
        elif isinstance(x, TupleV) and x.kind == "slice" and len(x.items) == 3:
            start, _stop, step = x.items
            if not isinstance(step, NoneV):
                return None
            if isinstance(start, NoneV):
                o: Dim | None = Dim.const(0)
            else:
                d = getd(start, st)
                if d is None:
                    o = None
                else:
                    d = st.norm(d)
                    if st.decide(d, ">=") is True:
                        o = d
                    elif st.decide(d, "<") is True:
                        o = st.norm(t.shape[ax] + d)
                    else:
                        o = None
            b = base[ax]
            out.append(None if o is None or b is None else st.norm(b + o))
            ax += 1
        else:
            return None
    out.extend(base[ax:])
    return out


def note_ramp_product(interp: Any, l: V, r: V, st: State, node: ast.AST | None) -> None:
    """``coeff_slice * ramp`` : remember (where the slice starts on its last axis, the ramp's first value)"""
    sink = getattr(interp, "ramp_products", None)
    if sink is None or not (isinstance(l, TensorV) and isinstance(r, TensorV)):
        return
    for a, b in ((l, r), (r, l)):
        ro = ramp_offset(b, st)
        if ro is None or len(b.shape) != 1 or not a.shape:
            continue
        if ramp_offset(a, st) is not None:
            continue
        so = a.off[-1] if a.off is not None and len(a.off) == len(a.shape) else Dim.const(0)
        sink.append((so, ro, node, st.norm(a.shape[-1]), st.norm(b.shape[0])))
        return


def setitem(interp: Any, t: TensorV, iv: V, val: V, st: State, node: ast.AST | None) -> None:
    for x in _index_items(iv):
        if is_unknown(x):
            return
    r = index_shape(interp, t, iv, st, node)
    if r is None or not isinstance(val, TensorV):
        return
    shp = r[0]
    if not broadcastable_to(val.shape, shp, st):
        raise ShapeError(
            f"assignment of a value of shape {fmt_shape(st.norm_shape(val.shape))} into an indexed region of shape {fmt_shape(st.norm_shape(shp))}", node
        )


# ------------------------------------------------------------------------------- operators


def matmul(interp: Any, a: V, b: V, st: State, node: ast.AST | None) -> V:
    if not (isinstance(a, TensorV) and isinstance(b, TensorV)):
        return interp.unk("matmul of non-tensors")
    sa, sb = a.shape, b.shape
    if not sa or not sb:
        raise ShapeError("matmul of a 0-d tensor", node)
    va, vb = len(sa) == 1, len(sb) == 1
    if va:
        sa = (Dim.const(1),) + sa
    if vb:
        sb = sb + (Dim.const(1),)
    if not same(sa[-1], sb[-2], st):
        raise ShapeError(f"matmul: contracted sizes {st.norm(sa[-1])!r} and {st.norm(sb[-2])!r} of {fmt_shape(st.norm_shape(a.shape))} @ {fmt_shape(st.norm_shape(b.shape))} differ", node)
    batch = broadcast_shapes([sa[:-2], sb[:-2]], st, node, "matmul batch")
    out = batch + (() if va else (sa[-2],)) + (() if vb else (sb[-1],))
    la, lb = lays(a), lays(b)
    sink = getattr(interp, "pairings", None)
    if sink is not None:
        ca = la[-1]
        cb = lb[-2] if len(lb) >= 2 else lb[-1]
        m, conflict = L.merge([ca, cb])
        if conflict:
            raise ShapeError(f"matmul: the contracted axes hold {conflict}", node)
        sink.append(("@", [ca, cb]))
    nb = len(batch)
    bl_a = ([None] * nb + la[:-2])[-nb:] if nb else []
    bl_b = ([None] * nb + lb[:-2])[-nb:] if nb else []
    bl = [x if x is not None else y for x, y in zip(bl_a, bl_b)]
    lay = bl + ([] if va else [la[-2] if len(la) >= 2 else None]) + ([] if vb else [lb[-1]])
    return mk(out, "float", lay)


def einsum_shapes(subs_in: list[list[Any]], sub_out: list[Any] | None, shapes: list[Shape], st: State, node: ast.AST | None, lays_in: list[list] | None = None, sink: list | None = None) -> tuple[Shape, list]:
    if len(subs_in) != len(shapes):
        raise ShapeError(f"einsum: {len(subs_in)} subscript groups for {len(shapes)} operands", node)
    env: dict[Any, Dim] = {}
    for k, (sub, shp) in enumerate(zip(subs_in, shapes)):
        if len(sub) != len(shp):
            raise ShapeError(f"einsum: operand {k} has shape {fmt_shape(st.norm_shape(shp))} (rank {len(shp)}) but {len(sub)} subscripts {sub}", node)
        for letter, d in zip(sub, shp):
            d = st.norm(d)
            if letter in env:
                e = env[letter]
                if e == d or is_one(d, st):
                    continue
                if is_one(e, st):
                    env[letter] = d
                    continue
                raise ShapeError(f"einsum: subscript {letter!r} is bound to sizes {e!r} and {d!r} (operand {k} of shape {fmt_shape(st.norm_shape(shp))})", node)
            env[letter] = d
    if sub_out is None:
        counts: dict[Any, int] = {}
        for sub in subs_in:
            for l in sub:
                counts[l] = counts.get(l, 0) + 1
        sub_out = sorted(l for l, c in counts.items() if c == 1)
    for l in sub_out:
        if l not in env:
            raise ShapeError(f"einsum: output subscript {l!r} does not appear in any operand", node)
    # layouts: every axis bound to one subscript must list its elements in the same order
    lenv: dict[Any, Any] = {}
    if lays_in is not None:
        per: dict[Any, list] = {}
        for sub, shp, ll in zip(subs_in, shapes, lays_in):
            for letter, d, la in zip(sub, shp, ll):
                if not is_one(d, st):
                    per.setdefault(letter, []).append(la)
        for letter, cands in per.items():
            m, conflict = L.merge(cands)
            if conflict:
                raise ShapeError(f"einsum: subscript {letter!r} pairs axes that hold {conflict} -- the contraction multiplies entries that do not belong together", node)
            lenv[letter] = m
            if sink is not None and letter not in sub_out and len(cands) > 1:
                sink.append((letter, list(cands)))
    return tuple(env[l] for l in sub_out), [lenv.get(l, () if is_one(env[l], st) else None) for l in sub_out]


def do_einsum(interp: Any, eq: V, operands: list[V], st: State, node: ast.AST | None) -> V:
    if any(not isinstance(o, TensorV) for o in operands):
        return interp.unk("einsum operand unknown")
    shapes = [o.shape for o in operands]  # type: ignore[union-attr]
    lays_in = [lays(o) for o in operands]  # type: ignore[arg-type]
    sink = getattr(interp, "pairings", None)
    if isinstance(eq, StrV) and eq.s is not None:
        s = eq.s.replace(" ", "")
        if "." in s:
            return interp.unk("einsum with ellipsis")
        lhs, arrow, rhs = s.partition("->")
        subs = [list(x) for x in lhs.split(",")]
        shp, ll = einsum_shapes(subs, list(rhs) if arrow else None, shapes, st, node, lays_in, sink)
        return mk(shp, "float", ll)
    items = seq_items(eq)
    if items is not None:
        subs2: list[list[Any]] = []
        for it in items:
            sub = seq_items(it)
            if sub is None:
                return interp.unk("einsum sublist unknown")
            ints = [geti(x, st) for x in sub]
            if any(i is None for i in ints):
                return interp.unk("einsum sublist symbolic")
            subs2.append(ints)
        if len(subs2) != len(shapes) + 1:
            raise ShapeError(f"einsum: {len(subs2) - 1} input sublists for {len(shapes)} operands", node)
        shp, ll = einsum_shapes(subs2[:-1], subs2[-1], shapes, st, node, lays_in, sink)
        return mk(shp, "float", ll)
    return interp.unk("einsum equation unknown")


def reduce_shape(t: TensorV, dim: V | None, keepdim: V | None, st: State, node: ast.AST | None, what: str) -> Shape | None:
    keep = False
    if keepdim is not None:
        if not (isinstance(keepdim, BoolV) and keepdim.val is not None):
            return None
        keep = keepdim.val
    if dim is None or isinstance(dim, NoneV):
        return tuple(Dim.const(1) for _ in t.shape) if keep else ()
    dims_v = seq_items(dim) if not isinstance(dim, IntV) else [dim]
    if dims_v is None:
        return None
    dims: list[int] = []
    for d in dims_v:
        i = geti(d, st)
        if i is None:
            return None
        dims.append(axis(i, len(t.shape), node, what))
    if len(set(dims)) != len(dims):
        raise ShapeError(f"{what}: repeated dim in {dims}", node)
    if keep:
        return tuple(Dim.const(1) if i in dims else d for i, d in enumerate(t.shape))
    return tuple(d for i, d in enumerate(t.shape) if i not in dims)


def _consume(interp: Any, lay: Any) -> None:
    if lay is not None and hasattr(interp, "selected"):
        for l, _ in lay:
            interp.selected.add((L.base_label(l), "all"))


def reduce_lay(t: TensorV, dim: V | None, keepdim: V | None, st: State, interp: Any = None) -> list | None:
    keep = isinstance(keepdim, BoolV) and keepdim.val is True
    ll = lays(t)
    if interp is not None:
        if dim is None or isinstance(dim, NoneV):
            for la_ in ll:
                _consume(interp, la_)
        else:
            for d_ in (seq_items(dim) if not isinstance(dim, IntV) else [dim]) or []:
                i_ = geti(d_, st)
                if i_ is not None and ll:
                    _consume(interp, ll[i_ % len(ll)])
    if dim is None or isinstance(dim, NoneV):
        return [() for _ in ll] if keep else []
    dims_v = seq_items(dim) if not isinstance(dim, IntV) else [dim]
    if dims_v is None:
        return None
    ds = []
    for d in dims_v:
        i = geti(d, st)
        if i is None:
            return None
        ds.append(i % len(ll) if ll else 0)
    if keep:
        return [() if i in ds else l for i, l in enumerate(ll)]
    return [l for i, l in enumerate(ll) if i not in ds]


def view_shape(t: TensorV, sizes: list[V], st: State, node: ast.AST | None, what: str, interp: Any) -> Shape | None:
    ds: list[Dim | None] = []
    for s in sizes:
        d = getd(s, st)
        if d is None:
            return None
        ds.append(None if d.as_int() == -1 else d)
    numel = st.norm(prod(t.shape))
    holes = [i for i, d in enumerate(ds) if d is None]
    if len(holes) > 1:
        raise ShapeError(f"{what}: only one dimension can be inferred", node)
    known = st.norm(prod([d for d in ds if d is not None]))
    if not holes:
        if known != numel:
            raise ShapeError(f"{what}: shape {fmt_shape([d for d in ds if d is not None])} has {known!r} elements but the tensor {fmt_shape(st.norm_shape(t.shape))} has {numel!r}", node)
        return tuple(d for d in ds if d is not None)
    q = numel.divide(known)
    if q is None:
        if numel.is_const() and known.is_const():
            raise ShapeError(f"{what}: cannot infer -1: {numel!r} elements are not divisible by {known!r}", node)
        raise ShapeError(f"{what}: cannot infer -1: the {numel!r} elements of {fmt_shape(st.norm_shape(t.shape))} are not a multiple of {known!r} for every size", node)
    ds[holes[0]] = q
    return tuple(d for d in ds if d is not None)


def apply_vmap(interp: Any, vm: VmapV, args: list[V], kwargs: dict[str, V], st: State, fr: Any, node: ast.AST | None) -> V:
    if any(not isinstance(a, TensorV) for a in args) or kwargs:
        return interp.unk("vmap over non-tensors")
    mapped: Dim | None = None
    inner: list[V] = []
    for a in args:
        assert isinstance(a, TensorV)
        k = axis(vm.in_dims, len(a.shape), node, "vmap in_dims")
        d = st.norm(a.shape[k])
        if mapped is None:
            mapped = d
        elif mapped != d:
            raise ShapeError(f"vmap: mapped axes have sizes {mapped!r} and {d!r}", node)
        la = lays(a)
        mapped_l = la[k]
        inner.append(mk(a.shape[:k] + a.shape[k + 1 :], a.dtype, la[:k] + la[k + 1 :]))
    outs = list(interp.apply(vm.fn, inner, {}, st, fr, node))
    if len(outs) != 1:
        return interp.unk("vmap body forks")
    r = outs[0][0]
    if not isinstance(r, TensorV) or mapped is None:
        return interp.unk("vmap body unknown")
    return mk((mapped,) + r.shape, r.dtype, [mapped_l] + lays(r))


def parse_einops(pattern: str) -> tuple[list[Any], list[Any]] | None:
    """axes of both sides; a parenthesised group is a list of names"""
    if "..." in pattern or "->" not in pattern:
        return None

    def side(txt: str) -> list[Any] | None:
        out: list[Any] = []
        cur: list[str] | None = None
        for tok in txt.replace("(", " ( ").replace(")", " ) ").split():
            if tok == "(":
                if cur is not None:
                    return None
                cur = []
            elif tok == ")":
                if cur is None:
                    return None
                out.append(cur)
                cur = None
            elif cur is not None:
                cur.append(tok)
            else:
                out.append(tok)
        return None if cur is not None else out

    l, r = pattern.split("->")
    ls, rs = side(l), side(r)
    if ls is None or rs is None:
        return None
    return ls, rs


# ------------------------------------------------------------------------------- dispatch


def _tensor_first(name: str, args: list[V], kwargs: dict[str, V]) -> tuple[V | None, list[V]]:
    if args:
        return args[0], args[1:]
    for k in ("input", "x", "self"):
        if k in kwargs:
            return kwargs[k], []
    return None, []


def call_builtin(interp: Any, fv: BuiltinV, args: list[V], kwargs: dict[str, V], st: State, fr: Any, node: ast.AST) -> Iterator[tuple[V, State]]:
    name = fv.name
    if fv.bound is not None:
        if name.startswith("tensor."):
            yield tensor_op(interp, name[7:], [fv.bound] + args, kwargs, st, fr, node, method=True), st
            return
        if name.startswith("semiring."):
            yield from semiring_op(interp, name[9:], args, kwargs, st, fr, node)
            return
        if name.startswith("dist."):
            yield dist_op(interp, fv.bound, name[5:], args, kwargs, st, node), st  # type: ignore[arg-type]
            return
        if name.startswith("py."):
            yield py_method(interp, fv.bound, name[3:], args, kwargs, st, node), st
            return
        if name.startswith("nn.Module."):
            m = name[10:]
            if m == "register_buffer" and isinstance(fv.bound, ObjV) and args and isinstance(args[0], StrV) and args[0].s:
                st.heap.setdefault(fv.bound.oid, {})[args[0].s] = args[1] if len(args) > 1 else kwargs.get("tensor", NONE)
                yield NONE, st
                return
            yield interp.unk("nn.Module." + m), st
            return
    if name.startswith("torch.distributions.") or name.startswith("torch.distributions"):
        yield make_dist(interp, name.rsplit(".", 1)[-1], args, kwargs, st, node), st
        return
    if name.startswith("torch.nn.functional."):
        yield tensor_op(interp, name.rsplit(".", 1)[-1], args, kwargs, st, fr, node), st
        return
    if name.startswith("torch.fft."):
        yield fft_op(interp, name.rsplit(".", 1)[-1], args, kwargs, st, node), st
        return
    if name == "torch.Tensor" and len(args) == 1 and not isinstance(args[0], (IntV, TensorV)):
        # Tensor(<sequence of numbers>) builds a float tensor from the data, like torch.tensor
        yield tensor_op(interp, "tensor", args, kwargs, st, fr, node), st
        return
    if name.startswith("torch."):
        yield tensor_op(interp, name[6:], args, kwargs, st, fr, node), st
        return
    if name.startswith("einops."):
        yield einops_op(interp, name[7:], args, kwargs, st, node), st
        return
    if name in ("typing.cast", "typing_extensions.cast") and len(args) == 2:
        yield args[1], st
        return
    if name.startswith("functools.") or name.startswith("itertools.") or name.startswith("numpy.") or name.startswith("math."):
        yield from lib_op(interp, name, args, kwargs, st, fr, node)
        return
    if name == "noop":
        yield NONE, st
        return
    if name.startswith("const."):
        yield interp.consts.get(name[6:], interp.unk("stub " + name)), st
        return
    if name.startswith("model."):
        yield from model_op(interp, name[6:], fv.bound, args, kwargs, st, fr, node)
        return
    yield from py_builtin(interp, name, args, kwargs, st, fr, node)


def tensor_op(interp: Any, op: str, args: list[V], kwargs: dict[str, V], st: State, fr: Any, node: ast.AST, method: bool = False) -> V:
    unk = interp.unk
    if op in ALLOC:
        a = list(args)
        if op == "full":
            if "fill_value" not in kwargs and len(a) >= 2:
                a = a[:-1] if seq_items(a[0]) is None else a[:1]
        shp = size_arg(a, kwargs, st)
        if shp is not None and op in ("rand", "randn") and hasattr(interp, "random_sources"):
            interp.random_sources.append((op, st.norm_shape(shp), node))
        if shp is not None and op == "zeros":
            r0 = mkfresh(st.norm_shape(shp))
            return TensorV(r0.shape, r0.dtype, r0.lay, ZEROS)
        return mkfresh(st.norm_shape(shp)) if shp is not None else unk(f"torch.{op} size")
    if op == "arange":
        ds = [getd(a, st) for a in args[:2]]
        if any(d is None for d in ds) or len(args) > 2 or not ds:
            return unk("arange")
        n = ds[0] if len(ds) == 1 else ds[1] - ds[0]  # type: ignore[operator]
        if len(ds) == 1 and n is not None and not st.norm(n).is_const():
            at = L.fresh_atom("ι", st.norm(n))
            return TensorV((n,), "int", ((at,),), (at,))
        if len(ds) == 2 and n is not None:
            return TensorV((n,), "int", None, ((RAMP, st.norm(ds[0])),))  # values ds[0], ds[0]+1, ..
        return TensorV((n,), "int")  # type: ignore[arg-type]
    if op == "tensor" or op == "as_tensor":
        def shp_of(v: V) -> Shape | None:
            if isinstance(v, (IntV, FloatV, BoolV)):
                return ()
            if isinstance(v, TensorV):
                return v.shape
            if isinstance(v, SeqV):
                sub = shp_of(v.elem)
                return None if sub is None else (v.length,) + sub
            its = seq_items(v)
            if its is None:
                return None
            subs = [shp_of(x) for x in its]
            if any(s is None for s in subs) or len({s for s in subs}) > 1:
                return None
            return (Dim.const(len(its)),) + (subs[0] if subs else ())  # type: ignore[operator]
        s = shp_of(args[0]) if args else None
        return TensorV(s, "any") if s is not None else unk("torch.tensor of unknown data")
    if op == "eye":
        d = getd(args[0], st) if args else None
        if d is not None and not st.norm(d).is_const():
            at = L.fresh_atom("δ", st.norm(d))
            return TensorV((d, d), "float", ((at,), (at,)))
        return TensorV((d, d)) if d is not None else unk("eye")
    if op == "einsum":
        if args and isinstance(args[0], TensorV):
            # interleaved form: einsum(op1, sublist1, op2, sublist2, ..., [sublist_out])
            opnds = list(args[0::2])
            subs = list(args[1::2])
            if len(args) % 2 == 1:
                out_sub, opnds = opnds[-1], opnds[:-1]
                return do_einsum(interp, TupleV(tuple(subs) + (out_sub,)), opnds, st, node)
            return unk("einsum without output sublist")
        return do_einsum(interp, args[0], args[1:], st, node) if args else unk("einsum")
    if op == "vmap":
        ind = kwargs.get("in_dims", args[1] if len(args) > 1 else mkint(0))
        i = geti(ind, st)
        if i is None or not args:
            return unk("vmap in_dims")
        return VmapV(args[0], i)
    if op == "Size" and not method and args and seq_items(args[0]) is not None:
        return TupleV(tuple(seq_items(args[0])))  # type: ignore[arg-type]
    if op in ("get_default_dtype", "device", "finfo", "iinfo", "Size", "Generator", "manual_seed", "no_grad", "is_complex", "is_floating_point") and not method:
        if op in ("is_complex", "is_floating_point"):
            return BoolV(None)
        return OpaqueV(op)
    if op in ("stack", "cat", "concat", "concatenate", "hstack", "vstack"):
        return stack_cat(interp, op, args, kwargs, st, node)
    if op == "where" and len(args) == 3:
        return broadcast_values(interp, args, st, None, node)
    if op in ("addcmul", "addcdiv", "lerp") and len(args) >= 3:
        return broadcast_values(interp, args[:3], st, None, node)
    if op == "broadcast_shapes":
        return unk("broadcast_shapes")
    if op == "is_tensor":
        return BoolV(isinstance(args[0], TensorV)) if args and not is_unknown(args[0]) else BoolV(None)

    t, rest = _tensor_first(op, args, kwargs)
    if is_unknown(t) or t is None:
        return unk(f"torch.{op} on unknown")
    if isinstance(t, (IntV, FloatV)) and op in ELEMENTWISE | {"log", "exp", "sqrt"}:
        return FloatV(None)
    if not isinstance(t, TensorV):
        return unk(f"torch.{op} on {type(t).__name__}")
    rank = len(t.shape)

    def kw(name: str, pos: int) -> V | None:
        if name in kwargs:
            return kwargs[name]
        if pos < len(rest):
            return rest[pos]
        return None

    if op == "copy_" and rest and isinstance(rest[0], TensorV):
        if not broadcastable_to(rest[0].shape, t.shape, st):
            raise ShapeError(f"copy_: a tensor of shape {fmt_shape(st.norm_shape(rest[0].shape))} is copied into one of shape {fmt_shape(st.norm_shape(t.shape))} (not broadcastable for every size)", node)
        if hasattr(interp, "copies"):
            interp.copies.append((t, rest[0]))
        return TensorV(t.shape, t.dtype, rest[0].lay if rest[0].lay is not None and len(rest[0].shape) == len(t.shape) else t.lay)
    if op in ELEMENTWISE:
        keeps = op in ("clone", "contiguous", "detach", "cpu", "cuda", "to", "type", "float", "double", "half")
        return TensorV(t.shape, t.dtype if op in ("clone", "contiguous", "detach", "cpu", "cuda", "to", "type") else "float", t.lay, t.val if keeps else None, t.off if keeps else None)
    if op in TO_INT:
        return TensorV(t.shape, "int", t.lay)
    if op in TO_BOOL:
        return TensorV(t.shape, "bool", t.lay)
    if op == "clamp" or op == "clip":
        others = [v for v in (kw("min", 0), kw("max", 1)) if isinstance(v, TensorV)]
        return broadcast_values(interp, [t] + others, st, None, node)
    if op in BINARY:
        if not rest and not kwargs:
            return unk(f"{op} arity")
        o = rest[0] if rest else kwargs.get("other", kwargs.get("exponent"))
        if is_unknown(o) or o is None:
            return unk(f"{op} with unknown")
        return broadcast_values(interp, [t, o], st, None, node)
    if op in REDUCE:
        dim = kw("dim", 0)
        if op in ("max", "min") and isinstance(dim, TensorV):
            return broadcast_values(interp, [t, dim], st, None, node)
        if op == "norm":
            dim = kwargs.get("dim")
        keep = kw("keepdim", 1)
        if op == "logsumexp" and dim is None:
            return unk("logsumexp without dim")
        shp = reduce_shape(t, dim, keep, st, node, op)
        if shp is None:
            return unk(f"{op} with symbolic dim")
        dt = "bool" if op in ("any", "all") else ("int" if op in ("argmax", "argmin") else "float")
        rl = reduce_lay(t, dim, keep, st, interp)
        if op in ("max", "min", "median") and dim is not None and not isinstance(dim, NoneV):
            return TupleV((mk(shp, "float", rl), mk(shp, "int", rl)))
        return mk(shp, dt, rl)
    if op in ALONG_DIM:
        dim = kw("dim", 0) if op != "flip" else kw("dims", 0)
        ds = [dim] if isinstance(dim, IntV) else (seq_items(dim) or [])
        for d in ds:
            i = geti(d, st)
            if i is None:
                return unk(f"{op} symbolic dim")
            axis(i, rank, node, op)
        if op == "sort":
            return TupleV((TensorV(t.shape, t.dtype), TensorV(t.shape, "int")))
        if op in ("flip", "roll"):
            return TensorV(t.shape, t.dtype)
        return TensorV(t.shape, t.dtype, t.lay)
    if op == "unsqueeze":
        i = geti(kw("dim", 0), st)
        if i is None:
            return unk("unsqueeze symbolic dim")
        k = axis(i, rank, node, "unsqueeze", extra=1)
        ll = lays(t)
        return mk(t.shape[:k] + (Dim.const(1),) + t.shape[k:], t.dtype, ll[:k] + [()] + ll[k:])
    if op == "squeeze":
        d = kw("dim", 0)
        if d is None:
            if all(st.norm(x).is_const() for x in t.shape):
                return TensorV(tuple(x for x in t.shape if not is_one(x, st)), t.dtype)
            return unk("squeeze() without dim on symbolic sizes")
        ds = [d] if isinstance(d, IntV) else (seq_items(d) or [])
        ks = []
        for dd in ds:
            i = geti(dd, st)
            if i is None:
                return unk("squeeze symbolic dim")
            ks.append(axis(i, rank, node, "squeeze"))
        out = []
        outl = []
        tl = lays(t)
        for i, x in enumerate(t.shape):
            if i in ks:
                xn = st.norm(x)
                if is_one(xn, st):
                    continue
                if not xn.is_const():
                    raise ShapeError(
                        f"squeeze(dim={i}) of an axis of symbolic size {xn!r} of {fmt_shape(st.norm_shape(t.shape))}: the rank of the result depends on the run-time size (the axis vanishes exactly when the size is 1)",
                        node,
                    )
            out.append(x)
            outl.append(tl[i])
        return mk(tuple(out), t.dtype, outl)
    if op == "permute":
        items = rest if not (len(rest) == 1 and seq_items(rest[0]) is not None) else seq_items(rest[0])
        if "dims" in kwargs:
            items = seq_items(kwargs["dims"])
        if items is None:
            return unk("permute dims")
        idx = [geti(x, st) for x in items]
        if any(i is None for i in idx):
            return unk("permute symbolic")
        if len(idx) != rank:
            raise ShapeError(f"permute: {len(idx)} dims {idx} for a tensor of rank {rank} {fmt_shape(st.norm_shape(t.shape))}", node)
        nidx = [axis(i, rank, node, "permute") for i in idx]  # type: ignore[arg-type]
        if sorted(nidx) != list(range(rank)):
            raise ShapeError(f"permute: {idx} is not a permutation", node)
        ll = lays(t)
        return mk(tuple(t.shape[i] for i in nidx), t.dtype, [ll[i] for i in nidx], t.val)
    if op in ("transpose", "swapaxes", "swapdims"):
        a, b = geti(kw("dim0", 0), st), geti(kw("dim1", 1), st)
        if a is None or b is None:
            return unk("transpose dims")
        a, b = axis(a, rank, node, "transpose"), axis(b, rank, node, "transpose")
        s = list(t.shape)
        s[a], s[b] = s[b], s[a]
        ll = lays(t)
        ll[a], ll[b] = ll[b], ll[a]
        return mk(tuple(s), t.dtype, ll)
    if op == "t":
        return mk(tuple(reversed(t.shape)), t.dtype, list(reversed(lays(t)))) if rank <= 2 else unk("t")
    if op == "movedim":
        a, b = geti(kw("source", 0), st), geti(kw("destination", 1), st)
        if a is None or b is None:
            return unk("movedim")
        a, b = axis(a, rank, node, "movedim"), axis(b, rank, node, "movedim")
        s = list(t.shape)
        x = s.pop(a)
        s.insert(b, x)
        ll = lays(t)
        xl = ll.pop(a)
        ll.insert(b, xl)
        return mk(tuple(s), t.dtype, ll)
    if op == "flatten":
        a = geti(kw("start_dim", 0) or mkint(0), st)
        b = geti(kw("end_dim", 1) or mkint(-1), st)
        if a is None or b is None:
            return unk("flatten symbolic dims")
        if rank == 0:
            return TensorV((Dim.const(1),), t.dtype)
        a, b = axis(a, rank, node, "flatten"), axis(b, rank, node, "flatten")
        if a > b:
            raise ShapeError(f"flatten: start_dim {a} > end_dim {b}", node)
        ll = lays(t)
        for la_ in ll[a : b + 1]:
            _consume(interp, la_)
        seg = ll[a : b + 1]
        merged = None if any(x is None for x in seg) else tuple(at for x in seg for at in x)
        return mk(t.shape[:a] + (prod(t.shape[a : b + 1]),) + t.shape[b + 1 :], t.dtype, ll[:a] + [merged] + ll[b + 1 :], t.val)
    if op == "unflatten":
        i = geti(kw("dim", 0), st)
        sizes = seq_items(kw("sizes", 1))
        if i is None or sizes is None:
            return unk("unflatten")
        k = axis(i, rank, node, "unflatten")
        sub = view_shape(TensorV((t.shape[k],)), sizes, st, node, "unflatten", interp)
        return TensorV(t.shape[:k] + sub + t.shape[k + 1 :], t.dtype) if sub is not None else unk("unflatten sizes")
    if op in ("view", "reshape"):
        sizes = rest if not (len(rest) == 1 and seq_items(rest[0]) is not None) else seq_items(rest[0])
        if "shape" in kwargs:
            sizes = seq_items(kwargs["shape"])
        if "size" in kwargs:
            sizes = seq_items(kwargs["size"])
        if sizes is None or not sizes:
            return unk(f"{op} sizes")
        if any(isinstance(x, OpaqueV) for x in sizes):
            return TensorV(t.shape, t.dtype)  # view(dtype)
        shp = view_shape(t, sizes, st, node, op, interp)
        if shp is None:
            return unk(f"{op} with unknown sizes")
        return mk(shp, t.dtype, L.regroup(lays(t), list(shp), st.norm), t.val)
    if op in ("expand", "broadcast_to"):
        sizes = rest if not (len(rest) == 1 and seq_items(rest[0]) is not None) else seq_items(rest[0])
        if "size" in kwargs:
            sizes = seq_items(kwargs["size"])
        if sizes is None:
            return unk("expand sizes")
        ds = [getd(x, st) for x in sizes]
        if any(d is None for d in ds):
            return unk("expand symbolic")
        if len(ds) < rank:
            raise ShapeError(f"expand: {len(ds)} sizes {fmt_shape(ds)} for a tensor of rank {rank} {fmt_shape(st.norm_shape(t.shape))}", node)  # type: ignore[arg-type]
        out2: list[Dim] = []
        outl2: list = []
        tl2 = lays(t)
        off = len(ds) - rank
        for i, d in enumerate(ds):
            assert d is not None
            if i < off:
                if d.as_int() == -1:
                    raise ShapeError("expand: -1 is not allowed in a leading, non-existing dimension", node)
                out2.append(d)
                outl2.append(L.fresh_axis(d))
                continue
            cur = st.norm(t.shape[i - off])
            if d.as_int() == -1 or d == cur:
                out2.append(cur)
                outl2.append(tl2[i - off])
            elif is_one(cur, st):
                out2.append(d)
                outl2.append(L.fresh_axis(d))
            else:
                raise ShapeError(f"expand: size {d!r} at axis {i} does not match the existing non-singleton size {cur!r} of {fmt_shape(st.norm_shape(t.shape))}", node)
        return mk(tuple(out2), t.dtype, outl2)
    if op == "expand_as" and rest and isinstance(rest[0], TensorV):
        if not broadcastable_to(t.shape, rest[0].shape, st):
            raise ShapeError(f"expand_as: {fmt_shape(st.norm_shape(t.shape))} is not expandable to {fmt_shape(st.norm_shape(rest[0].shape))}", node)
        return TensorV(rest[0].shape, t.dtype)
    if op in ("repeat", "tile"):
        sizes = rest if not (len(rest) == 1 and seq_items(rest[0]) is not None) else seq_items(rest[0])
        if sizes is None:
            return unk("repeat")
        ds = [getd(x, st) for x in sizes]
        if any(d is None for d in ds):
            return unk("repeat symbolic")
        if len(ds) < rank:
            if op == "repeat":
                raise ShapeError(f"repeat: {len(ds)} repeats for a tensor of rank {rank}", node)
            ds = [Dim.const(1)] * (rank - len(ds)) + ds
        sh = (Dim.const(1),) * (len(ds) - rank) + t.shape
        # element order: the copies are the *major* part of a repeated axis (torch.Tensor.repeat tiles)
        src_l = [()] * (len(ds) - rank) + list(lays(t))
        out_l: list[Any] = []
        for a, r, la in zip(sh, ds, src_l):
            rn = st.norm(r)  # type: ignore[arg-type]
            if rn.as_int() == 1:
                out_l.append(la)
            elif la is None:
                out_l.append(None)
            else:
                rep = L.fresh_axis(rn)
                out_l.append(None if rep is None else tuple((f"rep:{l}", d) for l, d in rep) + tuple(la))
        return mk(tuple(a * b for a, b in zip(sh, ds)), t.dtype, out_l)  # type: ignore[operator]
    if op == "repeat_interleave":
        r, d = getd(kw("repeats", 0), st), geti(kw("dim", 1), st)
        if r is None or d is None:
            return unk("repeat_interleave")
        k = axis(d, rank, node, op)
        return TensorV(t.shape[:k] + (t.shape[k] * r,) + t.shape[k + 1 :], t.dtype)
    if op == "unbind":
        i = geti(kw("dim", 0) or mkint(0), st)
        if i is None:
            return unk("unbind symbolic dim")
        k = axis(i, rank, node, "unbind")
        ll = lays(t)
        _consume(interp, ll[k])
        rest_l = ll[:k] + ll[k + 1 :]
        elem = mk(t.shape[:k] + t.shape[k + 1 :], t.dtype, rest_l)
        n = st.norm(t.shape[k]).as_int()
        if n is not None and n <= MAX_UNROLL:
            lk = ll[k]
            if lk is not None and len(lk) == 1:
                lab = L.base_label(lk[0][0])
                return TupleV(tuple(mk(elem.shape, t.dtype, [L.tag(x, lab, i) for x in rest_l]) for i in range(n)))
            return TupleV(tuple(elem for _ in range(n)))
        return SeqV(elem, st.norm(t.shape[k]))
    if op in ("chunk", "split", "tensor_split"):
        return unk(op)
    if op == "index_select":
        i, idx = geti(kw("dim", 0), st), kw("index", 1)
        if i is None or not isinstance(idx, TensorV):
            return unk("index_select")
        k = axis(i, rank, node, "index_select")
        if len(idx.shape) > 1:
            raise ShapeError(f"index_select: the index must be 1-D, got {fmt_shape(idx.shape)}", node)
        n = idx.shape[0] if idx.shape else Dim.const(1)
        ll = lays(t)
        return mk(t.shape[:k] + (n,) + t.shape[k + 1 :], t.dtype, ll[:k] + [() if is_one(n, st) else (("<selected>", n),)] + ll[k + 1 :])
    if op in ("gather", "take_along_dim"):
        if op == "gather":
            i, idx = geti(kw("dim", 0), st), kw("index", 1)
        else:
            idx, i = kw("indices", 0), geti(kw("dim", 1), st)
        if i is None or not isinstance(idx, TensorV):
            return unk(op)
        axis(i, rank, node, op)
        if len(idx.shape) != rank:
            raise ShapeError(f"{op}: index {fmt_shape(st.norm_shape(idx.shape))} must have the rank of the input {fmt_shape(st.norm_shape(t.shape))}", node)
        k_ = axis(i, rank, node, op)
        sink = getattr(interp, "pairings", None)
        if sink is not None and idx.val is not None:
            sink.append(("gather", [lays(t)[k_], tuple(idx.val)]))
        return mk(idx.shape, t.dtype, idx.lay)
    if op in NEW:
        if op == "new_tensor":
            return unk("new_tensor")
        a = list(rest)
        if op == "new_full" and len(a) >= 2:
            a = a[:1]
        shp = size_arg(a, kwargs, st)
        if shp is None:
            return unk(op)
        r0 = mkfresh(st.norm_shape(shp), "any" if op == "new_empty" else t.dtype)
        return TensorV(r0.shape, r0.dtype, r0.lay, ZEROS) if op == "new_zeros" else r0
    if op in LIKE:
        return TensorV(t.shape, "float", t.lay, ZEROS if op == "zeros_like" else None)
    if op == "diag":
        if rank == 1:
            return mk((t.shape[0], t.shape[0]), t.dtype, [lays(t)[0], lays(t)[0]])
        if rank == 2:
            if same(t.shape[0], t.shape[1], st):
                return TensorV((t.shape[0],), t.dtype)
            return unk("diag of a non-square matrix")
        raise ShapeError(f"diag: expected a 1-D or 2-D tensor, got rank {rank}", node)
    if op in ("diag_embed",):
        return TensorV(t.shape + (t.shape[-1],), t.dtype)
    if op in ("diagonal",):
        return unk("diagonal")
    if op == "kron":
        o = rest[0] if rest else None
        if not isinstance(o, TensorV):
            return unk("kron")
        ra, rb = t.shape, o.shape
        r = max(len(ra), len(rb))
        ra = (Dim.const(1),) * (r - len(ra)) + ra
        rb = (Dim.const(1),) * (r - len(rb)) + rb
        la_ = [()] * (r - len(t.shape)) + lays(t)
        lb_ = [()] * (r - len(o.shape)) + lays(o)
        kl = [None if (x is None or y is None) else tuple(x) + tuple(y) for x, y in zip(la_, lb_)]
        return mk(tuple(a * b for a, b in zip(ra, rb)), "float", kl)
    if op in ("matmul", "mm", "bmm"):
        return matmul(interp, t, rest[0] if rest else kwargs.get("other", interp.unk("mm")), st, node)
    if op in ("outer",):
        o = rest[0] if rest else None
        if isinstance(o, TensorV) and rank == 1 and len(o.shape) == 1:
            return TensorV((t.shape[0], o.shape[0]))
        return unk("outer")
    if op == "allclose" or op == "equal":
        o = rest[0] if rest else None
        if isinstance(o, TensorV) and op == "allclose":
            broadcast_shapes([t.shape, o.shape], st, node, "allclose")
        return BoolV(None)
    if op in ("is_floating_point", "is_complex", "is_contiguous", "is_cuda"):
        return BoolV(None)
    if op in ("numel", "nelement"):
        return IntV(st.norm(prod(t.shape)))
    if op == "size":
        d = kw("dim", 0)
        if d is None:
            return TupleV(tuple(IntV(st.norm(x)) for x in t.shape))
        i = geti(d, st)
        if i is None:
            return unk("size(dim) symbolic")
        return IntV(st.norm(t.shape[axis(i, rank, node, "size")]))
    if op in ("dim", "ndimension"):
        return mkint(rank)
    if op == "item":
        return FloatV(None)
    if op in ("tolist", "numpy"):
        return unk(op)
    if op == "backward":
        return NONE
    if op == "topk":
        return unk("topk")
    if op == "multinomial":
        n = getd(kw("num_samples", 0), st)
        if n is not None and hasattr(interp, "random_sources"):
            interp.random_sources.append((op, st.norm_shape(t.shape[:-1] + (n,)), node))
        return TensorV(t.shape[:-1] + (n,), "int") if n is not None else unk("multinomial")
    if op in ("rand_like", "randn_like", "bernoulli", "normal_", "uniform_", "random_", "exponential_") and hasattr(interp, "random_sources"):
        interp.random_sources.append((op, st.norm_shape(t.shape), node))
    if op == "one_hot":
        n = getd(kw("num_classes", 0), st)
        return TensorV(t.shape + (n,), "int") if n is not None else unk("one_hot")
    if op == "masked_select":
        return unk("masked_select")
    if op == "triu" or op == "tril":
        return t
    if op in ("scatter", "scatter_", "scatter_add", "scatter_add_", "scatter_reduce"):
        # scatter does not broadcast: only the entries of `src` covered by `index` are written.  A
        # source that is larger than the index along an axis (an index built without the fold axis,
        # shape (1, ..) against (F, ..)) silently drops the rest -- every fold but the first stays 0
        idx, src = kw("index", 1), kw("src", 2)
        if isinstance(idx, TensorV) and isinstance(src, TensorV) and len(idx.shape) == len(src.shape):
            for k_, (di, ds) in enumerate(zip(st.norm_shape(idx.shape), st.norm_shape(src.shape))):
                if di != ds and st.decide(ds - di, "==") is not True:
                    raise ShapeError(f"{op}: the index has extent {di!r} and the source {ds!r} along axis {k_}; scatter writes only the entries the index covers (no broadcasting), so the rest of the source is dropped", node)
        return t
    if op == "index_add":
        return t
    return unk(f"torch op {op}")


def stack_cat(interp: Any, op: str, args: list[V], kwargs: dict[str, V], st: State, node: ast.AST) -> V:
    seq = args[0] if args else kwargs.get("tensors")
    dim_v = kwargs.get("dim", args[1] if len(args) > 1 else mkint(0))
    i = geti(dim_v, st)
    if i is None:
        return interp.unk(f"{op} symbolic dim")
    if isinstance(seq, SeqV) and isinstance(seq.elem, TensorV):
        e = seq.elem
        if op == "stack":
            k = axis(i, len(e.shape), node, "stack", extra=1)
            return TensorV(e.shape[:k] + (seq.length,) + e.shape[k:], e.dtype)
        k = axis(i, len(e.shape), node, "cat")
        return TensorV(e.shape[:k] + (e.shape[k] * seq.length,) + e.shape[k + 1 :], e.dtype)
    items = seq_items(seq)
    if items is None or not items or any(not isinstance(x, TensorV) for x in items):
        return interp.unk(f"{op} of unknown sequence")
    ts: list[TensorV] = items  # type: ignore[assignment]
    r = len(ts[0].shape)
    if op == "stack":
        for x in ts[1:]:
            if st.norm_shape(x.shape) != st.norm_shape(ts[0].shape):
                raise ShapeError(f"stack: tensors of different shapes {fmt_shape(st.norm_shape(ts[0].shape))} and {fmt_shape(st.norm_shape(x.shape))}", node)
        k = axis(i, r, node, "stack", extra=1)
        l0 = lays(ts[0])
        all_same = all(lays(x) == l0 for x in ts[1:])
        return mk(ts[0].shape[:k] + (Dim.const(len(ts)),) + ts[0].shape[k:], ts[0].dtype, (l0[:k] + [None] + l0[k:]) if all_same else None)
    k = axis(i, r, node, "cat")
    total = Dim.const(0)
    for x in ts:
        if len(x.shape) != r:
            raise ShapeError(f"cat: tensors of different ranks {fmt_shape(st.norm_shape(ts[0].shape))} and {fmt_shape(st.norm_shape(x.shape))}", node)
        for j in range(r):
            if j != k and not same(x.shape[j], ts[0].shape[j], st):
                raise ShapeError(f"cat(dim={k}): sizes {st.norm(ts[0].shape[j])!r} and {st.norm(x.shape[j])!r} differ at axis {j}", node)
        total = total + x.shape[k]
    return TensorV(ts[0].shape[:k] + (st.norm(total),) + ts[0].shape[k + 1 :], ts[0].dtype)


def fft_op(interp: Any, op: str, args: list[V], kwargs: dict[str, V], st: State, node: ast.AST) -> V:
    t = args[0] if args else kwargs.get("input")
    if not isinstance(t, TensorV):
        return interp.unk("fft on unknown")
    n = kwargs.get("n", args[1] if len(args) > 1 else NONE)
    d = geti(kwargs.get("dim", args[2] if len(args) > 2 else mkint(-1)), st)
    if d is None:
        return interp.unk("fft dim")
    k = axis(d, len(t.shape), node, "fft")
    size = st.norm(t.shape[k])
    nd = getd(n, st) if not isinstance(n, NoneV) else None
    if not isinstance(n, NoneV) and nd is None:
        return interp.unk("fft n")
    if op in ("fft", "ifft"):
        out = nd if nd is not None else size
    elif op == "rfft":
        m = nd if nd is not None else size
        out = Dim.sym(f"rfftlen({m!r})")
    elif op == "irfft":
        if nd is not None:
            out = nd
        else:
            return interp.unk("irfft without n")
    else:
        return interp.unk("fft." + op)
    ll = lays(t)
    return mk(t.shape[:k] + (out,) + t.shape[k + 1 :], "float", ll[:k] + [None] + ll[k + 1 :])


# ------------------------------------------------------------------------------- semiring, distributions, einops


def semiring_op(interp: Any, op: str, args: list[V], kwargs: dict[str, V], st: State, fr: Any, node: ast.AST) -> Iterator[tuple[V, State]]:
    if op == "einsum":
        eq = args[0] if args else kwargs.get("equation")
        ins = seq_items(kwargs.get("inputs", TupleV(()))) if not isinstance(kwargs.get("inputs"), NoneV) else []
        opds = seq_items(kwargs.get("operands", TupleV(()))) if not isinstance(kwargs.get("operands"), NoneV) else []
        if ins is None or opds is None or eq is None:
            yield interp.unk("semiring.einsum operands"), st
            return
        res = do_einsum(interp, eq, ins + opds, st, node)
        # the stable-reduce contract: `dim` names the contracted axis of every *input*
        d = geti(kwargs.get("dim"), st)
        if d is not None:
            for x in ins:
                if isinstance(x, TensorV):
                    axis(d, len(x.shape), node, "semiring.einsum dim")
        yield res, st
    elif op in ("sum", "prod"):
        t = args[0] if args else kwargs.get("x")
        if not isinstance(t, TensorV):
            yield interp.unk("semiring reduce on unknown"), st
            return
        dim = kwargs.get("dim", args[1] if len(args) > 1 else None)
        shp = reduce_shape(t, dim, kwargs.get("keepdim", args[2] if len(args) > 2 else None), st, node, "semiring." + op)
        yield (mk(shp, "float", reduce_lay(t, dim, kwargs.get("keepdim", args[2] if len(args) > 2 else None), st, interp)) if shp is not None else interp.unk("semiring reduce dim")), st
    elif op in ("mul", "add"):
        yield broadcast_values(interp, list(args), st, None, node), st
    elif op in ("map_from", "cast"):
        yield (args[0] if args else interp.unk("map_from")), st
    elif op == "apply_reduce":
        func = args[0] if args else None
        if func is None:
            yield interp.unk("apply_reduce"), st
            return
        yield from interp.apply(func, list(args[1:]), {}, st, fr, node)
    elif op == "__name__":
        yield StrV(None), st
    else:
        yield interp.unk("semiring." + op), st


CATEGORY_LAYOUT: dict[Any, Any] = {}
EVENT_SHAPE: dict[str, tuple] = {}  # distributions with an event axis (Dirichlet): kind -> event shape


BATCH_LAYOUT: dict[str, list] = {}  # distribution kind key -> per-axis layouts of its batch shape


def _elementwise_dist(interp: Any, vals: list[V], st: State, node: ast.AST, kind: str) -> DistV:
    shapes = [v.shape if isinstance(v, TensorV) else () for v in vals]
    batch = broadcast_shapes(shapes, st, node, kind)
    ts = [v for v in vals if isinstance(v, TensorV)]
    key = f"elementwise@{len(BATCH_LAYOUT)}"
    try:
        BATCH_LAYOUT[key] = broadcast_lays(ts, batch, st, node, kind) if ts else [None] * len(batch)
    except ShapeError:
        raise
    return DistV(key, batch)


def _remember_cat(dv: DistV, lay: Any) -> DistV:
    """a categorical distribution whose samples index an axis of known layout"""
    key = f"categorical@{len(CATEGORY_LAYOUT)}"
    CATEGORY_LAYOUT[key] = lay
    return DistV(key, dv.batch)


def make_dist(interp: Any, kind: str, args: list[V], kwargs: dict[str, V], st: State, node: ast.AST) -> V:
    def shp(v: V | None) -> tuple[Dim, ...] | None:
        if isinstance(v, TensorV):
            return v.shape
        if isinstance(v, (IntV, FloatV)):
            return ()
        return None

    if kind in ("Categorical", "OneHotCategorical"):
        p = kwargs.get("probs", kwargs.get("logits", args[0] if args else None))
        if isinstance(p, NoneV):
            p = kwargs.get("logits")
        s = shp(p)
        if s is None or not s:
            return interp.unk("Categorical parameter")
        dv = DistV("categorical", s[:-1])
        if isinstance(p, TensorV) and p.lay is not None and p.lay[-1] is not None:
            return _remember_cat(dv, p.lay[-1])
        return dv
    if kind in ("Normal", "Uniform", "Beta", "Gamma", "Laplace", "Cauchy", "LogNormal"):
        names = {"Normal": ("loc", "scale"), "Uniform": ("low", "high")}.get(kind, ("a", "b"))
        a = kwargs.get(names[0], args[0] if args else None)
        b = kwargs.get(names[1], args[1] if len(args) > 1 else None)
        sa, sb = shp(a), shp(b)
        if sa is None or sb is None:
            return interp.unk(kind + " parameters")
        return _elementwise_dist(interp, [a, b], st, node, kind)  # type: ignore[list-item]
    if kind in ("Binomial", "Bernoulli", "Poisson", "Geometric", "Exponential"):
        vals = [v for v in list(args) + [kwargs.get(k) for k in ("total_count", "probs", "logits", "rate")] if v is not None and not isinstance(v, NoneV)]
        ss = [shp(v) for v in vals]
        if any(s is None for s in ss):
            return interp.unk(kind + " parameters")
        return _elementwise_dist(interp, vals, st, node, kind)
    if kind == "Dirichlet":
        s = shp(args[0] if args else kwargs.get("concentration"))
        if s is None or not s:
            return interp.unk("Dirichlet")
        key = f"dirichlet@{len(EVENT_SHAPE)}"
        EVENT_SHAPE[key] = (st.norm(s[-1]),)
        return DistV(key, s[:-1])
    return interp.unk("distribution " + kind)


def dist_op(interp: Any, d: DistV, op: str, args: list[V], kwargs: dict[str, V], st: State, node: ast.AST) -> V:
    if op == "log_prob":
        x = args[0] if args else kwargs.get("value")
        if not isinstance(x, TensorV):
            return interp.unk("log_prob of unknown")
        out_shape = broadcast_shapes([d.batch, x.shape], st, node, "log_prob")
        bl = BATCH_LAYOUT.get(d.kind)
        if bl is not None:
            return mk(out_shape, "float", broadcast_lays([TensorV(d.batch, "float", tuple(bl)), x], out_shape, st, node, "log_prob"))
        return TensorV(out_shape)
    if op in ("sample", "rsample"):
        ss = args[0] if args else kwargs.get("sample_shape", TupleV(()))
        items = seq_items(ss)
        if items is None:
            return interp.unk("sample_shape")
        ds = [getd(x, st) for x in items]
        if any(x is None for x in ds):
            return interp.unk("sample_shape symbolic")
        ev: tuple[Dim, ...] = EVENT_SHAPE.get(d.kind, ())
        shape_ = tuple(ds) + d.batch + ev  # type: ignore[operator]
        if hasattr(interp, "random_sources"):
            interp.random_sources.append(("dist." + op, st.norm_shape(tuple(ds) + d.batch), node))
        if ev:
            lay_ = L.fresh(st.norm_shape(tuple(ds) + d.batch)) + ((("simplex", ev[0]),),)  # type: ignore[arg-type]
            return TensorV(shape_, "float", lay_)
        if d.kind.startswith("categorical"):
            return TensorV(shape_, "int", L.fresh(st.norm_shape(shape_)), CATEGORY_LAYOUT.get(d.kind))
        return TensorV(shape_, "float")
    if op in ("entropy",):
        return TensorV(d.batch)
    return interp.unk("dist." + op)


def einops_op(interp: Any, op: str, args: list[V], kwargs: dict[str, V], st: State, node: ast.AST) -> V:
    if op not in ("rearrange", "repeat") or len(args) < 2:
        return interp.unk("einops." + op)
    t, pat = args[0], args[1]
    if not isinstance(t, TensorV) or not isinstance(pat, StrV) or pat.s is None:
        return interp.unk("einops operand")
    p = parse_einops(pat.s)
    if p is None:
        return interp.unk("einops pattern outside the modelled forms")
    l, r = p
    if any(isinstance(a, list) for a in l):
        return interp.unk("einops pattern that splits an input axis")
    if len(l) != len(t.shape):
        raise ShapeError(f"einops.{op}: pattern '{pat.s}' names {len(l)} axes but the tensor is {fmt_shape(st.norm_shape(t.shape))}", node)
    env = dict(zip(l, t.shape))
    lenv = dict(zip(l, lays(t)))
    out: list[Dim] = []
    outl: list[Any] = []

    def one(a: str) -> tuple[Dim, Any]:
        if a in env:
            return env[a], lenv.get(a)
        if a in kwargs and getd(kwargs[a], st) is not None and op == "repeat":
            d = getd(kwargs[a], st)
            return d, L.fresh_axis(d)  # type: ignore[arg-type,return-value]
        if a.isdigit():
            return Dim.const(int(a)), (() if a == "1" else None)
        raise ShapeError(f"einops.{op}: axis '{a}' of '{pat.s}' is neither an input axis nor given a length", node)

    used: list[str] = []
    for a in r:
        if isinstance(a, list):
            ds, ls_ = zip(*(one(x) for x in a)) if a else ((), ())
            used += a
            out.append(prod(list(ds)))
            outl.append(None if any(x is None for x in ls_) else tuple(at for x in ls_ for at in x))
        else:
            d, la = one(a)
            used.append(a)
            out.append(d)
            outl.append(la)
    if op == "rearrange" and sorted(x for x in used if x in env) != sorted(l):
        raise ShapeError(f"einops.rearrange: '{pat.s}' does not keep the set of axes", node)
    return mk(tuple(out), t.dtype, outl, t.val)


# ------------------------------------------------------------------------------- python level


def _shape_of_node(interp: Any, v: V, st: State, fr: Any) -> V | None:
    """shape of a symbolic parameter node / Parameter placeholder"""
    from .shapes import new_param
    if isinstance(v, ParamV):
        return interp.param_shape(v.pid, st)
    if isinstance(v, ObjV):
        outs = list(interp.getattr(v, "shape", st, fr))
        if len(outs) == 1:
            return outs[0][0]
    return None


def model_op(interp: Any, name: str, bound: V | None, args: list[V], kwargs: dict[str, V], st: State, fr: Any, node: ast.AST) -> Iterator[tuple[V, State]]:
    """cirkit.symbolic.parameters.Parameter / circuit.CircuitBlock, modelled: a Parameter is its
    output shape; composing checks what Parameter.__init__ checks (node.in_shapes == operand shapes)."""
    from .shapes import new_param
    cls, _, meth = name.partition(".")
    if cls == "Parameter":
        if meth == "ref":
            yield bound if bound is not None else interp.unk("ref"), st
            return
        if meth == "from_input" and len(args) == 1:
            shp = _shape_of_node(interp, args[0], st, fr)
            if isinstance(shp, TupleV):
                pv = new_param(st, "from_input", TupleV(shp.items), Dim.const(1))
                st.heap[pv.pid]["node"] = args[0]
                yield pv, st
            else:
                yield interp.unk("Parameter.from_input of unknown shape"), st
            return
        if meth in ("from_unary", "from_binary", "from_nary", "from_sequence") and args:
            if meth == "from_sequence":
                ops, operands = list(args[1:]), [args[0]]
            else:
                ops, operands = [args[0]], list(args[1:])
            cur = [_shape_of_node(interp, o, st, fr) for o in operands]
            for op in ops:
                if not isinstance(op, ObjV):
                    yield interp.unk("Parameter composition with an unknown node"), st
                    return
                ins = st.heap.get(op.oid, {}).get("_in_shapes")
                if not isinstance(ins, TupleV) or any(not isinstance(c, TupleV) for c in cur):
                    yield interp.unk("Parameter composition: shapes unknown"), st
                    return
                want = TupleV(tuple(TupleV(c.items) for c in cur))  # type: ignore[union-attr]
                eq = interp.equal(TupleV(tuple(TupleV(x.items) if isinstance(x, TupleV) else x for x in ins.items)), want, st)
                ok_ = eq.val is True or (eq.val is None and all(st.decide(l[1], "==") is True for l in eq.tlits if l[0] == "cmp"))
                if not ok_:
                    msg = f"{fr.fi.module.relpath}:{getattr(node, 'lineno', 0)} {fr.fi.qualname}: {op.cls.name} is built for input shapes {ins!r} but composed with parameters of shapes {want!r} (Parameter.__init__ raises, or -- when sizes coincide -- the wrong axes are combined)"
                    if interp.strict:
                        interp.strict_failures.append(msg)
                        return
                out = _shape_of_node(interp, op, st, fr)
                cur = [out]
            if isinstance(cur[0], TupleV):
                yield new_param(st, meth, TupleV(cur[0].items), Dim.const(1)), st
            else:
                yield interp.unk("Parameter composition: result shape unknown"), st
            return
        yield interp.unk("Parameter." + meth), st
        return
    if cls == "TorchParameter":
        # torch-side parameter graphs: the composed parameter is the tensor its last node returns
        if meth == "from_input" and len(args) == 1 and isinstance(args[0], ParamV):
            yield args[0], st
            return
        if meth in ("from_unary", "from_binary", "from_nary", "from_sequence") and args:
            if meth == "from_sequence":
                ops, operands = list(args[1:]), [args[0]]
            else:
                ops, operands = [args[0]], list(args[1:])
            cur: list[V] = []
            s_ = st
            for o in operands:
                outs = list(interp.apply(o, [], {}, s_, fr, node)) if isinstance(o, ParamV) else []
                if len(outs) != 1 or not isinstance(outs[0][0], TensorV):
                    yield interp.unk("TorchParameter composition with an unresolved operand"), st
                    return
                cur.append(outs[0][0])
                s_ = outs[0][1]
            for op in ops:
                if not isinstance(op, ObjV):
                    yield interp.unk("TorchParameter composition with an unknown node"), st
                    return
                f = interp.repo.lookup(op.cls, "forward")
                outs = list(interp.call(f, cur, {}, s_, selfv=op, depth=fr.depth + 1)) if f is not None else []
                outs = [(v, s2) for v, s2 in outs if isinstance(v, TensorV)]
                if len(outs) != 1:
                    yield interp.unk("TorchParameter composition: node forward unresolved"), st
                    return
                cur, s_ = [outs[0][0]], outs[0][1]
            t = cur[0]
            assert isinstance(t, TensorV)
            pv = new_param(s_, meth, TupleV(tuple(IntV(d) for d in t.shape[1:])), t.shape[0] if t.shape else Dim.const(1))
            s_.heap[pv.pid]["tensor"] = t
            s_.heap[pv.pid]["op"] = ops[-1]
            s_.heap[pv.pid]["operands"] = TupleV(tuple(operands), "list")
            yield pv, s_
            return
        if meth in ("node_inputs", "subgraph") and isinstance(bound, ParamV) and args:
            h = st.heap.get(bound.pid, {})
            if meth == "node_inputs":
                if args[0] == h.get("op") and isinstance(h.get("operands"), TupleV):
                    yield h["operands"], st
                else:
                    yield interp.unk("node_inputs of an unknown node"), st
            else:
                yield (args[0] if isinstance(args[0], ParamV) else interp.unk("subgraph of an unknown root")), st
            return
        yield interp.unk("TorchParameter." + meth), st
        return
    if cls == "CircuitBlock":
        if meth == "from_layer" and args:
            yield args[0], st
            return
        if meth == "from_layer_composition":
            yield TupleV(tuple(args)), st
            return
    yield interp.unk("model." + name), st


def py_method(interp: Any, recv: V, m: str, args: list[V], kwargs: dict[str, V], st: State, node: ast.AST) -> V:
    if isinstance(recv, IntV) and m == "item":
        return recv
    if isinstance(recv, DictV):
        if m == "items":
            return TupleV(tuple(TupleV((k, v)) for k, v in recv.items), "list")
        if m == "values":
            return TupleV(tuple(v for _, v in recv.items), "list")
        if m == "keys":
            return TupleV(tuple(k for k, _ in recv.items), "list")
        if m == "get" and args:
            for k, v in recv.items:
                if k == args[0]:
                    return v
            return args[1] if len(args) > 1 else NONE
    if isinstance(recv, TupleV) and m == "index" and args:
        for i, x in enumerate(recv.items):
            if x == args[0]:
                return mkint(i)
    if isinstance(recv, TupleV) and m in ("append", "extend", "insert", "pop"):
        return NONE  # mutation of local lists is not tracked (the list value stays as it was)
    return interp.unk(f"method {m} of {type(recv).__name__}")


def lib_op(interp: Any, name: str, args: list[V], kwargs: dict[str, V], st: State, fr: Any, node: ast.AST) -> Iterator[tuple[V, State]]:
    if name == "functools.reduce" and len(args) >= 2:
        fn, seq = args[0], args[1]
        items = seq_items(seq)
        if items is None and isinstance(seq, SeqV):
            items = [seq.elem, seq.elem]
            if len(args) > 2:
                items = [args[2]] + items
        elif items is not None and len(args) > 2:
            items = [args[2]] + items
        if not items:
            yield interp.unk("reduce of unknown"), st
            return

        def go(acc: V, i: int, s_: State) -> Iterator[tuple[V, State]]:
            if i == len(items):  # type: ignore[arg-type]
                yield acc, s_
                return
            for v, s2 in interp.apply(fn, [acc, items[i]], {}, s_, fr, node):  # type: ignore[index]
                yield from go(v, i + 1, s2)

        yield from go(items[0], 1, st)
        return
    if name in ("numpy.prod", "math.prod") and args:
        items = seq_items(args[0])
        if items is not None and all(isinstance(x, IntV) for x in items):
            r = Dim.const(1)
            for x in items:
                r = r * x.d  # type: ignore[union-attr]
            yield IntV(st.norm(r)), st
            return
    if name == "numpy.eye" and args:
        d = getd(args[0], st)
        if d is not None and not st.norm(d).is_const():
            at = L.fresh_atom("δ", st.norm(d))
            yield TensorV((d, d), "float", ((at,), (at,))), st
        else:
            yield (TensorV((d, d)) if d is not None else interp.unk("np.eye")), st
        return
    if name == "numpy.arange" and len(args) == 1:
        yield tensor_op(interp, "arange", list(args), {}, st, fr, node), st
        return
    if name == "numpy.transpose" and args and isinstance(args[0], TensorV):
        ax = kwargs.get("axes", args[1] if len(args) > 1 else None)
        if ax is None:
            yield TensorV(tuple(reversed(args[0].shape))), st
        else:
            yield tensor_op(interp, "permute", [args[0], ax], {}, st, fr, node), st
        return
    if name in ("numpy.reshape",) and len(args) >= 2 and isinstance(args[0], TensorV):
        yield tensor_op(interp, "reshape", list(args), {}, st, fr, node), st
        return
    if name in ("numpy.log", "numpy.exp", "numpy.sqrt", "math.log", "math.exp", "math.sqrt", "math.lgamma", "numpy.pi", "math.pi"):
        yield FloatV(None), st
        return
    if name == "itertools.chain.from_iterable" and len(args) == 1:
        outer = seq_items(args[0])
        if outer is not None and all(seq_items(x) is not None for x in outer):
            yield TupleV(tuple(y for x in outer for y in seq_items(x)), "gen"), st  # type: ignore[union-attr]
        else:
            yield interp.unk(name), st
        return
    if name == "itertools.chain":
        if all(seq_items(x) is not None for x in args):
            yield TupleV(tuple(y for x in args for y in seq_items(x)), "gen"), st  # type: ignore[union-attr]
        else:
            yield interp.unk(name), st
        return
    if name == "itertools.product" and len(args) == 2 and not kwargs:
        a, b = seq_items(args[0]), seq_items(args[1])
        if a is not None and b is not None and len(a) * len(b) <= 64:
            yield TupleV(tuple(TupleV((x, y)) for x in a for y in b), "list"), st
        else:
            yield interp.unk(name), st
        return
    yield interp.unk(name), st


def py_builtin(interp: Any, name: str, args: list[V], kwargs: dict[str, V], st: State, fr: Any, node: ast.AST) -> Iterator[tuple[V, State]]:
    unk = interp.unk
    a0 = args[0] if args else None
    if name == "len":
        if isinstance(a0, TupleV):
            yield mkint(len(a0.items)), st
        elif isinstance(a0, DictV):
            yield mkint(len(a0.items)), st
        elif isinstance(a0, TensorV) and a0.shape:
            yield IntV(st.norm(a0.shape[0])), st
        elif isinstance(a0, (SeqV, ScopeV)):
            yield IntV(st.norm(a0.length)), st
        elif isinstance(a0, UnboundShape):
            shp = interp.param_shape(a0.pid, st)
            if isinstance(shp, TupleV):
                yield mkint(len(shp.items)), st
            else:
                yield IntV(Dim.sym(f"rank#{a0.pid}")), st
        else:
            yield unk("len of " + type(a0).__name__), st
    elif name == "range":
        ds = [getd(x, st) for x in args]
        if any(d is None for d in ds) or not ds or len(ds) > 3:
            yield unk("range"), st
            return
        ints = [d.as_int() for d in ds]  # type: ignore[union-attr]
        if all(i is not None for i in ints):
            r = range(*ints)  # type: ignore[arg-type]
            if len(r) <= 4 * MAX_UNROLL:
                yield TupleV(tuple(mkint(i) for i in r), "list"), st
                return
        if len(ds) <= 2:
            n = ds[0] if len(ds) == 1 else ds[1] - ds[0]  # type: ignore[operator]
            yield SeqV(IntV(Dim.sym("loop_index")), st.norm(n)), st  # type: ignore[arg-type]
        else:
            yield unk("range with step"), st
    elif name in ("tuple", "list"):
        if a0 is None:
            yield TupleV((), name), st
        elif isinstance(a0, TupleV):
            yield TupleV(a0.items, name), st
        elif isinstance(a0, (SeqV, UnboundShape)):
            yield a0, st
        elif isinstance(a0, ScopeV):
            n = st.norm(a0.length).as_int()
            if n is not None and n <= MAX_UNROLL:
                yield TupleV(tuple(IntV(Dim.sym(f"var{i}")) for i in range(n)), name), st
            else:
                yield SeqV(IntV(Dim.sym("var")), st.norm(a0.length)), st
        elif isinstance(a0, DictV):
            yield TupleV(tuple(k for k, _ in a0.items), name), st
        else:
            yield unk(name + " of unknown"), st
    elif name == "zip":
        seqs = [seq_items(x) for x in args]
        if any(s is None for s in seqs):
            yield unk("zip of unknown"), st
        else:
            n = min((len(s) for s in seqs), default=0)  # type: ignore[arg-type]
            yield TupleV(tuple(TupleV(tuple(s[i] for s in seqs)) for i in range(n)), "list"), st  # type: ignore[index]
    elif name == "enumerate":
        items = seq_items(a0)
        if items is None:
            yield unk("enumerate of unknown"), st
        else:
            start = geti(kwargs.get("start", args[1] if len(args) > 1 else mkint(0)), st) or 0
            yield TupleV(tuple(TupleV((mkint(i + start), x)) for i, x in enumerate(items)), "list"), st
    elif name == "reversed":
        items = seq_items(a0)
        if items is not None:
            yield TupleV(tuple(reversed(items)), "list"), st
        elif isinstance(a0, SeqV):
            yield a0, st
        else:
            yield unk("reversed of unknown"), st
    elif name == "sorted":
        items = seq_items(a0)
        if items is not None and all(isinstance(x, IntV) and x.d.is_const() for x in items) and not kwargs:
            yield TupleV(tuple(sorted(items, key=lambda x: x.d.as_int())), "list"), st  # type: ignore[union-attr]
        else:
            yield unk("sorted"), st
    elif name == "sum" and seq_items(a0) is not None and isinstance(kwargs.get("start", args[1] if len(args) > 1 else None), TupleV):
        acc = kwargs.get("start", args[1] if len(args) > 1 else None)
        okk = True
        for x in seq_items(a0):  # type: ignore[union-attr]
            if isinstance(x, TupleV):
                acc = TupleV(acc.items + x.items, acc.kind)  # type: ignore[union-attr]
            else:
                okk = False
        yield (acc if okk else unk("sum of tuples")), st
    elif name == "sum":
        items = seq_items(a0)
        if items is not None and all(isinstance(x, IntV) for x in items):
            r = getd(args[1], st) if len(args) > 1 else Dim.const(0)
            if r is None:
                yield unk("sum start"), st
                return
            for x in items:
                r = r + x.d  # type: ignore[union-attr]
            yield IntV(st.norm(r)), st
        else:
            yield unk("sum of unknown"), st
    elif name in ("max", "min") and len(args) == 1 and type(a0).__name__ == "ScopeV":
        # the largest / smallest variable id of a scope: unrelated to its size (a scope need not be
        # 0..n-1), so it is its own symbol; ids start at 0
        yield IntV(Dim.sym(f"nn:{name}var[{a0.length!r}]")), st  # type: ignore[attr-defined]
    elif name in ("max", "min"):
        items = seq_items(a0) if len(args) == 1 else list(args)
        if items is not None and items and all(isinstance(x, IntV) for x in items):
            best = items[0]
            okk = True
            for x in items[1:]:
                d = st.decide(x.d - best.d, ">=" if name == "max" else "<=")  # type: ignore[union-attr]
                if d is None:
                    okk = False
                    break
                if d:
                    best = x
            if not okk and len(items) == 2:
                # two symbolic integers: fork on their order (each path records its assumption)
                a, b = items
                for first, op_ in ((a, "<="), (b, ">")):
                    s2 = st.copy()
                    if s2.assume(("cmp", a.d - b.d, op_)):  # type: ignore[union-attr]
                        s2.assumed.append(f"{name}: {a.d!r} {op_} {b.d!r}")  # type: ignore[union-attr]
                        pick = first if name == "min" else (b if first is a else a)
                        yield pick, s2
                return
            yield (best if okk else unk(name + " undecidable")), st
        else:
            yield unk(name), st
    elif name in ("all", "any"):
        items = seq_items(a0)
        if items is None:
            yield BoolV(None), st
            return
        ts = [interp.truth(x, st) for x in items]
        if name == "all":
            if any(t.val is False for t in ts):
                yield FALSE, st
            elif all(t.val is True for t in ts):
                yield TRUE, st
            else:
                lits = tuple(l for t in ts if t.val is None for l in t.tlits)
                yield BoolV(None, lits, ()), st
        else:
            if any(t.val is True for t in ts):
                yield TRUE, st
            elif all(t.val is False for t in ts):
                yield FALSE, st
            else:
                yield BoolV(None), st
    elif name == "isinstance" and len(args) == 2:
        yield isinstance_model(interp, args[0], args[1], st), st
    elif name in ("int", "abs"):
        if isinstance(a0, IntV):
            yield a0, st
        elif isinstance(a0, BoolV) and a0.val is not None:
            yield mkint(int(a0.val)), st
        else:
            yield unk(name), st
    elif name == "float":
        yield FloatV(None), st
    elif name == "bool":
        yield interp.truth(a0, st) if a0 is not None else FALSE, st
    elif name == "type":
        if isinstance(a0, ObjV):
            yield ClassV(a0.cls), st
        else:
            yield OpaqueV("type"), st
    elif name in ("print", "setattr"):
        if name == "setattr" and len(args) == 3 and isinstance(args[0], ObjV) and isinstance(args[1], StrV) and args[1].s:
            st.heap.setdefault(args[0].oid, {})[args[1].s] = args[2]
        yield NONE, st
    elif name == "getattr" and len(args) >= 2 and isinstance(args[1], StrV) and args[1].s:
        yield from interp.getattr(args[0], args[1].s, st, fr, node)
    elif name == "slice":
        vals = list(args) + [NONE] * (3 - len(args))
        if len(args) == 1:
            vals = [NONE, args[0], NONE]
        yield TupleV(tuple(vals[:3]), "slice"), st
    elif name in ("ValueError", "TypeError", "NotImplementedError", "AssertionError", "IndexError", "KeyError"):
        yield OpaqueV("exception"), st
    elif name == "dict":
        if not args and all(True for _ in kwargs):
            yield DictV(tuple((StrV(k), v) for k, v in kwargs.items())), st
        elif isinstance(a0, DictV):
            yield a0, st
        else:
            yield unk("dict()"), st
    elif name == "str" or name == "repr":
        yield StrV(None), st
    elif name == "map":
        items = seq_items(args[1]) if len(args) == 2 else None
        if items is None:
            yield unk("map"), st
            return

        def go(i: int, acc: list[V], s_: State) -> Iterator[tuple[V, State]]:
            if i == len(items):  # type: ignore[arg-type]
                yield TupleV(tuple(acc), "list"), s_
                return
            for v, s2 in interp.apply(args[0], [items[i]], {}, s_, fr, node):  # type: ignore[index]
                yield from go(i + 1, acc + [v], s2)

        yield from go(0, [], st)
    else:
        yield unk("builtin " + name), st


def isinstance_model(interp: Any, v: V, cls: V, st: State) -> BoolV:
    if is_unknown(v):
        return BoolV(None)
    alts = seq_items(cls) or [cls]
    res: list[bool | None] = []
    for c in alts:
        if isinstance(c, ClassV) and c.cls is not None:
            if isinstance(v, ObjV):
                res.append(interp.repo.is_subclass(v.cls, c.cls))
            elif isinstance(v, ParamV):
                res.append(c.cls.name in ("TorchParameter", "TorchParameterNode", "AbstractTorchModule", "TorchTensorParameter") or None)
            elif isinstance(v, (TensorV, IntV, FloatV, BoolV, NoneV, TupleV, StrV)):
                res.append(False)
            else:
                res.append(None)
        elif isinstance(c, BuiltinV):
            n = c.name.rsplit(".", 1)[-1]
            table = {"Tensor": TensorV, "ndarray": TensorV, "int": IntV, "float": FloatV, "str": StrV, "bool": BoolV}
            if n in ("complex", "number") and isinstance(v, (IntV, FloatV, TensorV, BoolV, NoneV, TupleV, StrV, ObjV)):
                res.append(False)
                continue
            if n in table:
                if n == "int" and isinstance(v, BoolV):
                    res.append(True)
                else:
                    res.append(isinstance(v, table[n]))
            elif n in ("tuple", "list"):
                res.append(isinstance(v, TupleV) and v.kind == n)
            elif n in ("Sequence", "Iterable"):
                res.append(True if isinstance(v, (TupleV, SeqV)) else (False if isinstance(v, (IntV, FloatV, NoneV, TensorV, ObjV)) else None))
            else:
                res.append(None)
        else:
            res.append(None)
    if any(r is True for r in res):
        return TRUE
    if all(r is False for r in res):
        return FALSE
    return BoolV(None)
