"""Rename- and hoist-invariant naming of local values.

Rules that recognise a condition by its text (``len(sl_ins) != sl.arity``) must not depend on what a
maintainer calls a local variable, nor on whether a sub-expression was hoisted into one.  ``Canon``
rewrites an expression of a function so that every *local* name is replaced by where its value comes
from:

    x = f(a)            x        ->  f(a)                       (single plain assignment: inlined)
    for v in it         v        ->  ELEM(it)                   (loop / comprehension variable)
    a, b = e            b        ->  e[1]                       (unpacking)
    x = e1 .. x = e2    x        ->  PHI(e1' | e2')             (several definitions, sorted)
    x = g(x)            x        ->  .. SELF ..                 (cyclic definition)

Parameters, globals, attributes and call names are kept.  Comprehension targets are renamed to ``_``.
The result is a *name* for the value (nothing is evaluated): two functions that differ only in the
names of their locals, or in which sub-expressions they bind to locals first, give the same text.
"""

from __future__ import annotations

import ast
import copy

from .flow import LocalDefs

MAX_DEPTH = 6
MAX_LEN = 700


class Canon:
    def __init__(self, fn: ast.FunctionDef | ast.Lambda):
        self.fn = fn
        self.ld = LocalDefs(fn)
        self.params = set(self.ld.params)
        self._memo: dict[str, ast.AST | None] = {}
        self._busy: set[str] = set()

    # ------------------------------------------------------------------ public
    def expr(self, e: ast.AST) -> ast.AST:
        """a copy of *e* with local names replaced by their canonical definitions"""
        return self._subst(copy.deepcopy(e), 0)

    def text(self, e: ast.AST) -> str:
        return ast.unparse(self.expr(e))

    def text_of(self, src: str) -> str:
        """canonical text of an expression given as source (spec keys); unparsable text is kept"""
        try:
            e = ast.parse(src, mode="eval").body
        except SyntaxError:
            return src
        return self.text(e)

    def identifiers(self, e: ast.AST) -> set[str]:
        c = self.expr(e)
        return {x.id for x in ast.walk(c) if isinstance(x, ast.Name)} | {x.attr for x in ast.walk(c) if isinstance(x, ast.Attribute)}

    # ------------------------------------------------------------------ internals
    def _is_local(self, name: str) -> bool:
        return name in self.ld.defs and name not in self.params

    def _def_of(self, name: str, depth: int) -> ast.AST | None:
        if name in self._memo:
            return self._memo[name]
        if name in self._busy or depth > MAX_DEPTH:
            return None
        self._busy.add(name)
        try:
            defs = self.ld.defs.get(name, [])
            outs: list[ast.AST] = []
            for d in defs:
                outs.append(self._subst(self._elem_form(copy.deepcopy(d)), depth + 1))
            if not outs:
                res: ast.AST | None = None
            elif len(outs) == 1:
                res = outs[0]
            else:
                texts = sorted({ast.unparse(o) for o in outs})
                if len(texts) == 1:
                    res = outs[0]
                else:
                    res = ast.Call(func=ast.Name(id="PHI", ctx=ast.Load()), args=[ast.parse(t, mode="eval").body for t in texts], keywords=[])
            if res is not None and len(ast.unparse(res)) > MAX_LEN:
                res = None
            if self._busy == {name}:  # results that embed SELF of an enclosing request are context-dependent
                self._memo[name] = res
            return res
        finally:
            self._busy.discard(name)

    @staticmethod
    def _elem_form(d: ast.AST) -> ast.AST:
        """LocalDefs marks 'element of it' as Subscript(it, Name('*')): turn it into ELEM(it)"""

        class T(ast.NodeTransformer):
            def visit_Subscript(self, n: ast.Subscript) -> ast.AST:
                self.generic_visit(n)
                if isinstance(n.slice, ast.Name) and n.slice.id == "*":
                    return ast.Call(func=ast.Name(id="ELEM", ctx=ast.Load()), args=[n.value], keywords=[])
                return n

        return T().visit(d)

    def _subst(self, e: ast.AST, depth: int) -> ast.AST:
        outer = self

        class T(ast.NodeTransformer):
            def visit_Name(self, n: ast.Name) -> ast.AST:
                if isinstance(n.ctx, ast.Load) and outer._is_local(n.id):
                    if n.id in outer._busy:
                        return ast.Name(id="SELF", ctx=ast.Load())
                    d = outer._def_of(n.id, depth)
                    if d is not None:
                        return copy.deepcopy(d)
                    return n
                if isinstance(n.ctx, (ast.Store, ast.Del)):
                    return ast.Name(id="_", ctx=n.ctx)
                return n

            def visit_NamedExpr(self, n: ast.NamedExpr) -> ast.AST:
                return self.visit(n.value)

        r = T().visit(e)
        ast.fix_missing_locations(r)
        return r


# ======================================================================================
# flow-sensitive variant: the definitions that *reach* a statement of the CFG
# ======================================================================================
from .cfg import CFG, ENTRY  # noqa: E402


class _Def:
    __slots__ = ("name", "expr", "node", "uid")

    def __init__(self, name: str, expr: ast.AST | None, node: int, uid: int):
        self.name, self.expr, self.node, self.uid = name, expr, node, uid


def _bind(target: ast.AST, value: ast.AST, out: list[tuple[str, ast.AST]]) -> None:
    if isinstance(target, ast.Name):
        out.append((target.id, value))
    elif isinstance(target, (ast.Tuple, ast.List)):
        if isinstance(value, (ast.Tuple, ast.List)) and len(value.elts) == len(target.elts) and not any(isinstance(x, ast.Starred) for x in list(value.elts) + list(target.elts)):
            for t, v in zip(target.elts, value.elts):
                _bind(t, v, out)
            return
        for i, t in enumerate(target.elts):
            if isinstance(t, ast.Starred):
                _bind(t.value, ast.Call(func=ast.Name(id="REST", ctx=ast.Load()), args=[value], keywords=[]), out)
            else:
                _bind(t, ast.Subscript(value=value, slice=ast.Constant(i), ctx=ast.Load()), out)
    elif isinstance(target, ast.Starred):
        _bind(target.value, value, out)


def _elem(it: ast.AST) -> ast.AST:
    return ast.Call(func=ast.Name(id="ELEM", ctx=ast.Load()), args=[it], keywords=[])


def _stmt_bindings(s: ast.AST) -> list[tuple[str, ast.AST]]:
    """(name, defining expression) pairs of the *header* of a CFG node"""
    out: list[tuple[str, ast.AST]] = []
    if isinstance(s, ast.Assign):
        for t in s.targets:
            _bind(t, s.value, out)
    elif isinstance(s, ast.AnnAssign) and s.value is not None:
        _bind(s.target, s.value, out)
    elif isinstance(s, ast.AugAssign) and isinstance(s.target, ast.Name):
        out.append((s.target.id, ast.BinOp(left=ast.Name(id=s.target.id, ctx=ast.Load()), op=s.op, right=s.value)))
    elif isinstance(s, (ast.For, ast.AsyncFor)):
        _bind(s.target, _elem(s.iter), out)
    elif isinstance(s, (ast.With, ast.AsyncWith)):
        for it in s.items:
            if it.optional_vars is not None:
                _bind(it.optional_vars, it.context_expr, out)
    # walrus anywhere in the header expressions
    roots: list[ast.AST]
    if isinstance(s, ast.If) or isinstance(s, ast.While):
        roots = [s.test]
    elif isinstance(s, (ast.For, ast.AsyncFor)):
        roots = [s.iter]
    elif isinstance(s, (ast.FunctionDef, ast.AsyncFunctionDef, ast.ClassDef, ast.Try, ast.ExceptHandler, ast.With, ast.AsyncWith, ast.Match)):
        roots = []
    else:
        roots = [s]
    for r in roots:
        for n in ast.walk(r):
            if isinstance(n, ast.NamedExpr) and isinstance(n.target, ast.Name):
                out.append((n.target.id, n.value))
    return out


class FlowCanon:
    """canonical names with reaching definitions: ``text(e, node)`` names the locals of *e* by the
    definitions that reach CFG node *node* (so the loop variable ``sl`` of one loop is not confused
    with the ``sl`` of another, and a partial rename changes nothing)"""

    def __init__(self, g: CFG):
        self.g = g
        fn = g.fn
        a = fn.args
        self.params = {x.arg for x in list(a.posonlyargs) + list(a.args) + list(a.kwonlyargs)}
        if a.vararg:
            self.params.add(a.vararg.arg)
        if a.kwarg:
            self.params.add(a.kwarg.arg)
        self.defs: list[_Def] = []
        self.gen: dict[int, list[_Def]] = {}
        for n, s in g.stmts.items():
            ds = []
            for name, expr in _stmt_bindings(s):
                d = _Def(name, expr, n, len(self.defs))
                self.defs.append(d)
                ds.append(d)
            if isinstance(s, ast.Delete):
                for t in s.targets:
                    if isinstance(t, ast.Name):
                        d = _Def(t.id, None, n, len(self.defs))
                        self.defs.append(d)
                        ds.append(d)
            self.gen[n] = ds
        self.locals = {d.name for d in self.defs}
        # forward may-analysis
        self.IN: dict[int, dict[str, frozenset[int]]] = {n: {} for n in g.nodes()}
        self.OUT: dict[int, dict[str, frozenset[int]]] = {n: {} for n in g.nodes()}
        work = list(g.nodes())
        while work:
            n = work.pop(0)
            inn: dict[str, set[int]] = {}
            for p in g.pred.get(n, []):
                for k, v in self.OUT[p].items():
                    inn.setdefault(k, set()).update(v)
            if n == ENTRY:
                inn = {p: {-1} for p in self.params}
            new_in = {k: frozenset(v) for k, v in inn.items()}
            out = dict(new_in)
            for d in self.gen.get(n, []):
                out[d.name] = frozenset({d.uid})
            if new_in != self.IN[n] or out != self.OUT[n]:
                self.IN[n] = new_in
                self.OUT[n] = out
                for b, _ in g.succ.get(n, []):
                    if b not in work:
                        work.append(b)
        self._busy: set[int] = set()

    # ------------------------------------------------------------------ public
    def text(self, e: ast.AST, node: int, after: bool = False) -> str:
        return ast.unparse(self.expr(e, node, after))

    def expr(self, e: ast.AST, node: int, after: bool = False) -> ast.AST:
        env = self.OUT[node] if after else self.IN[node]
        r = self._subst(copy.deepcopy(e), env, {}, 0)
        ast.fix_missing_locations(r)
        return r

    def identifiers(self, e: ast.AST, node: int) -> set[str]:
        c = self.expr(e, node)
        return {x.id for x in ast.walk(c) if isinstance(x, ast.Name)} | {x.attr for x in ast.walk(c) if isinstance(x, ast.Attribute)}

    # ------------------------------------------------------------------ internals
    def _name(self, name: str, env: dict[str, frozenset[int]], depth: int) -> ast.AST | None:
        ids = env.get(name)
        if not ids or -1 in ids and len(ids) == 1:
            return None  # a parameter / global / builtin: kept
        outs: list[str] = []
        for uid in sorted(ids):
            if uid == -1:
                outs.append(name)  # the parameter's own value is one of the reaching definitions
                continue
            d = self.defs[uid]
            if d.expr is None:
                continue
            if uid in self._busy or depth > MAX_DEPTH:
                outs.append("SELF" if uid in self._busy else name)
                continue
            self._busy.add(uid)
            try:
                sub = self._subst(copy.deepcopy(d.expr), self.IN[d.node], {}, depth + 1)
            finally:
                self._busy.discard(uid)
            t = ast.unparse(sub)
            outs.append(t if len(t) <= MAX_LEN else name)
        outs = sorted(set(outs))
        if not outs:
            return None
        if len(outs) == 1:
            return ast.parse(outs[0], mode="eval").body
        return ast.Call(func=ast.Name(id="PHI", ctx=ast.Load()), args=[ast.parse(t, mode="eval").body for t in outs], keywords=[])

    def _subst(self, e: ast.AST, env: dict[str, frozenset[int]], scope: dict[str, ast.AST], depth: int) -> ast.AST:
        outer = self

        class T(ast.NodeTransformer):
            def __init__(self, scope: dict[str, ast.AST]):
                self.scope = scope

            def visit_Name(self, n: ast.Name) -> ast.AST:
                if isinstance(n.ctx, ast.Load):
                    if n.id in self.scope:
                        return copy.deepcopy(self.scope[n.id])
                    if n.id in outer.locals or n.id in outer.params:
                        d = outer._name(n.id, env, depth)
                        if d is not None:
                            return d
                    return n
                return ast.Name(id="_", ctx=n.ctx)

            def visit_NamedExpr(self, n: ast.NamedExpr) -> ast.AST:
                return self.visit(n.value)

            def _comp(self, n: ast.AST, elts: list[str]) -> ast.AST:
                sc = dict(self.scope)
                inner = T(sc)
                gens = []
                for g in n.generators:  # type: ignore[attr-defined]
                    it = inner.visit(g.iter)
                    b: list[tuple[str, ast.AST]] = []
                    _bind(g.target, _elem(it), b)
                    for k, v in b:
                        sc[k] = v
                    tgt = T({}).visit(copy.deepcopy(g.target))  # all Store names -> _
                    gens.append(ast.comprehension(target=tgt, iter=it, ifs=[inner.visit(i) for i in g.ifs], is_async=g.is_async))
                for f in elts:
                    setattr(n, f, inner.visit(getattr(n, f)))
                n.generators = gens  # type: ignore[attr-defined]
                return n

            def visit_ListComp(self, n: ast.ListComp) -> ast.AST:
                return self._comp(n, ["elt"])

            def visit_SetComp(self, n: ast.SetComp) -> ast.AST:
                return self._comp(n, ["elt"])

            def visit_GeneratorExp(self, n: ast.GeneratorExp) -> ast.AST:
                return self._comp(n, ["elt"])

            def visit_DictComp(self, n: ast.DictComp) -> ast.AST:
                return self._comp(n, ["key", "value"])

            def visit_Lambda(self, n: ast.Lambda) -> ast.AST:
                return n

        return T(dict(scope)).visit(e)
