"""Repository model: modules, imports, classes (C3 MRO), functions, registries.

Everything here is derived from the *current* working tree of the repository (``SA_REPO``,
default ``/repo``) by parsing it with :mod:`ast`.  Nothing is imported or executed.
"""

from __future__ import annotations

import ast
import os
from dataclasses import dataclass, field
from functools import cached_property
from typing import Iterator

REPO_ROOT = os.environ.get("SA_REPO", "/repo")
PACKAGE = "cirkit"

# number of python files of the package seen at design time (67); a parse that sees far fewer is a
# broken analysis, not a pass ("cover what the build covers").
MIN_FILES = 60


class AnalysisError(Exception):
    """The analysis itself cannot be carried out (vanished anchor, parse failure, floor missed)."""


def unparse(node: ast.AST | None) -> str:
    if node is None:
        return "<none>"
    try:
        return ast.unparse(node)
    except Exception:  # pragma: no cover
        return f"<{type(node).__name__}>"


def dotted(node: ast.AST) -> str | None:
    """``a.b.c`` for Name/Attribute chains, else None."""
    parts: list[str] = []
    while isinstance(node, ast.Attribute):
        parts.append(node.attr)
        node = node.value
    if isinstance(node, ast.Name):
        parts.append(node.id)
        return ".".join(reversed(parts))
    return None


@dataclass
class Param:
    name: str
    kind: str  # 'pos', 'kwonly', 'vararg', 'kwarg'
    default: ast.AST | None
    annotation: ast.AST | None

    @property
    def required(self) -> bool:
        return self.default is None and self.kind in ("pos", "kwonly")


@dataclass
class FuncInfo:
    qualname: str
    name: str
    module: "ModuleInfo"
    node: ast.FunctionDef
    cls: "ClassInfo | None" = None

    @cached_property
    def decorators(self) -> list[str]:
        out = []
        for d in self.node.decorator_list:
            if isinstance(d, ast.Call):
                d = d.func
            out.append(dotted(d) or unparse(d))
        return out

    @property
    def is_property(self) -> bool:
        return any(d.split(".")[-1] in ("property", "cached_property") for d in self.decorators)

    @property
    def is_abstract(self) -> bool:
        return any(d.split(".")[-1] == "abstractmethod" for d in self.decorators)

    @property
    def is_static(self) -> bool:
        return any(d.split(".")[-1] == "staticmethod" for d in self.decorators)

    @property
    def is_classmethod(self) -> bool:
        return any(d.split(".")[-1] == "classmethod" for d in self.decorators)

    @cached_property
    def params(self) -> list[Param]:
        a = self.node.args
        out: list[Param] = []
        pos = list(a.posonlyargs) + list(a.args)
        defaults: list[ast.AST | None] = [None] * (len(pos) - len(a.defaults)) + list(a.defaults)
        for arg, d in zip(pos, defaults):
            out.append(Param(arg.arg, "pos", d, arg.annotation))
        if a.vararg is not None:
            out.append(Param(a.vararg.arg, "vararg", None, a.vararg.annotation))
        for arg, d in zip(a.kwonlyargs, a.kw_defaults):
            out.append(Param(arg.arg, "kwonly", d, arg.annotation))
        if a.kwarg is not None:
            out.append(Param(a.kwarg.arg, "kwarg", None, a.kwarg.annotation))
        return out

    @property
    def call_params(self) -> list[Param]:
        """Parameters as seen by a caller (self/cls stripped for methods)."""
        ps = self.params
        if self.cls is not None and not self.is_static and ps and ps[0].kind == "pos":
            return ps[1:]
        return ps

    @property
    def loc(self) -> str:
        return f"{self.module.relpath}:{self.node.lineno}"

    def __repr__(self) -> str:
        return f"<func {self.qualname}>"


@dataclass
class ClassInfo:
    qualname: str
    name: str
    module: "ModuleInfo"
    node: ast.ClassDef
    bases: list[str] = field(default_factory=list)  # resolved qualified names (or raw dotted)
    methods: dict[str, FuncInfo] = field(default_factory=dict)
    attrs: dict[str, ast.AST] = field(default_factory=dict)  # class-level assignments

    @property
    def loc(self) -> str:
        return f"{self.module.relpath}:{self.node.lineno}"

    def __repr__(self) -> str:
        return f"<class {self.qualname}>"

    def __hash__(self) -> int:
        return hash(self.qualname)

    def __eq__(self, other: object) -> bool:
        return isinstance(other, ClassInfo) and other.qualname == self.qualname


@dataclass
class ModuleInfo:
    name: str
    path: str
    relpath: str
    tree: ast.Module
    source: str
    is_pkg: bool
    imports: dict[str, str] = field(default_factory=dict)
    classes: dict[str, ClassInfo] = field(default_factory=dict)
    functions: dict[str, FuncInfo] = field(default_factory=dict)
    globals: dict[str, ast.AST] = field(default_factory=dict)

    def __repr__(self) -> str:
        return f"<module {self.name}>"


class Repo:
    def __init__(self, root: str | None = None):
        self.root = root or REPO_ROOT
        self.modules: dict[str, ModuleInfo] = {}
        self.classes: dict[str, ClassInfo] = {}
        self.functions: dict[str, FuncInfo] = {}
        self._load()

    # ------------------------------------------------------------------ loading
    def _load(self) -> None:
        pkg_root = os.path.join(self.root, PACKAGE)
        if not os.path.isdir(pkg_root):
            raise AnalysisError(f"package directory {pkg_root} not found")
        nfiles = 0
        for dirpath, dirnames, filenames in os.walk(pkg_root):
            dirnames[:] = sorted(d for d in dirnames if d != "__pycache__")
            for fn in sorted(filenames):
                if not fn.endswith(".py"):
                    continue
                path = os.path.join(dirpath, fn)
                rel = os.path.relpath(path, self.root)
                modname = rel[:-3].replace(os.sep, ".")
                is_pkg = False
                if modname.endswith(".__init__"):
                    modname = modname[: -len(".__init__")]
                    is_pkg = True
                try:
                    with open(path, encoding="utf-8") as f:
                        src = f.read()
                    tree = ast.parse(src, filename=path)
                except (SyntaxError, OSError, UnicodeDecodeError) as e:
                    raise AnalysisError(f"cannot parse {rel}: {e}") from e
                nfiles += 1
                self.modules[modname] = ModuleInfo(modname, path, rel, tree, src, is_pkg)
        if nfiles < MIN_FILES:
            raise AnalysisError(
                f"only {nfiles} python files found under {pkg_root}; expected at least {MIN_FILES}"
            )
        for m in self.modules.values():
            self._index_module(m)
        for c in self.classes.values():
            c.bases = [self._resolve_base(c.module, b) for b in c.node.bases]
        # locals renamed by a maintainer are renamed back to the names the rules were written against
        # (sa/alpha.py: only where the definitions identify them; the source files are not touched)
        self.renamed: dict[str, dict[str, str]] = {}
        if os.environ.get("SA_NO_ALPHA") != "1":
            from . import alpha

            for q, fi in self.functions.items():
                m = alpha.normalise(q, fi.node)
                if m:
                    self.renamed[q] = m

    def _index_module(self, m: ModuleInfo) -> None:
        def handle_import(stmt: ast.stmt) -> None:
            if isinstance(stmt, ast.Import):
                for a in stmt.names:
                    if a.asname:
                        m.imports[a.asname] = a.name
                    else:
                        m.imports[a.name.split(".")[0]] = a.name.split(".")[0]
            elif isinstance(stmt, ast.ImportFrom):
                base = stmt.module or ""
                if stmt.level:
                    pkg = m.name if m.is_pkg else m.name.rsplit(".", 1)[0]
                    for _ in range(stmt.level - 1):
                        pkg = pkg.rsplit(".", 1)[0]
                    base = f"{pkg}.{base}" if base else pkg
                for a in stmt.names:
                    m.imports[a.asname or a.name] = f"{base}.{a.name}"

        def walk_top(stmts: list[ast.stmt]) -> None:
            for stmt in stmts:
                if isinstance(stmt, (ast.Import, ast.ImportFrom)):
                    handle_import(stmt)
                elif isinstance(stmt, ast.If):
                    # `if TYPE_CHECKING:` imports and the like
                    walk_top(stmt.body)
                    walk_top(stmt.orelse)
                elif isinstance(stmt, ast.Try):
                    walk_top(stmt.body)
                elif isinstance(stmt, ast.ClassDef):
                    self._index_class(m, stmt)
                elif isinstance(stmt, (ast.FunctionDef, ast.AsyncFunctionDef)):
                    fi = FuncInfo(f"{m.name}.{stmt.name}", stmt.name, m, stmt)  # type: ignore[arg-type]
                    m.functions[stmt.name] = fi
                    self.functions[fi.qualname] = fi
                elif isinstance(stmt, ast.Assign):
                    for t in stmt.targets:
                        if isinstance(t, ast.Name):
                            m.globals[t.id] = stmt.value
                elif isinstance(stmt, ast.AnnAssign):
                    if isinstance(stmt.target, ast.Name) and stmt.value is not None:
                        m.globals[stmt.target.id] = stmt.value

        walk_top(m.tree.body)

    def _index_class(self, m: ModuleInfo, node: ast.ClassDef) -> None:
        ci = ClassInfo(f"{m.name}.{node.name}", node.name, m, node)
        for stmt in node.body:
            if isinstance(stmt, (ast.FunctionDef, ast.AsyncFunctionDef)):
                fi = FuncInfo(f"{ci.qualname}.{stmt.name}", stmt.name, m, stmt, ci)  # type: ignore[arg-type]
                # property setters etc. would overwrite: keep the first (getter) definition
                if stmt.name not in ci.methods:
                    ci.methods[stmt.name] = fi
                    self.functions[fi.qualname] = fi
            elif isinstance(stmt, ast.Assign):
                for t in stmt.targets:
                    if isinstance(t, ast.Name):
                        ci.attrs[t.id] = stmt.value
            elif isinstance(stmt, ast.AnnAssign):
                if isinstance(stmt.target, ast.Name) and stmt.value is not None:
                    ci.attrs[stmt.target.id] = stmt.value
        m.classes[node.name] = ci
        self.classes[ci.qualname] = ci

    def _resolve_base(self, m: ModuleInfo, b: ast.AST) -> str:
        if isinstance(b, ast.Subscript):  # Generic[...] / Collection[int]
            b = b.value
        d = dotted(b)
        if d is None:
            return unparse(b)
        return self.resolve(m, d)

    # --------------------------------------------------------------- resolution
    def resolve(self, m: ModuleInfo, name: str, _depth: int = 0) -> str:
        """Resolve a (possibly dotted) name used in module *m* to a fully qualified name.

        Follows import aliases and package re-exports.  Names that leave the package are returned
        as their external dotted path (``torch.nn.Module``)."""
        head, _, rest = name.partition(".")
        if head in m.classes and not rest:
            return m.classes[head].qualname
        if head in m.functions and not rest:
            return m.functions[head].qualname
        if head in m.classes and rest:
            return f"{m.classes[head].qualname}.{rest}"
        if head in m.imports:
            target = m.imports[head]
            full = f"{target}.{rest}" if rest else target
            return self.canonical(full, _depth)
        if head in m.globals and not rest:
            return f"{m.name}.{head}"
        return name

    def canonical(self, full: str, _depth: int = 0) -> str:
        """Follow re-exports: ``pkg.X`` where ``pkg/__init__`` imports X from elsewhere."""
        if _depth > 8:
            return full
        # longest module prefix
        parts = full.split(".")
        for i in range(len(parts), 0, -1):
            modname = ".".join(parts[:i])
            if modname in self.modules:
                rest = parts[i:]
                if not rest:
                    return modname
                mod = self.modules[modname]
                head = rest[0]
                if head in mod.classes or head in mod.functions or head in mod.globals:
                    return full
                if head in mod.imports:
                    target = mod.imports[head]
                    tail = ".".join(rest[1:])
                    return self.canonical(f"{target}.{tail}" if tail else target, _depth + 1)
                return full
        return full

    def get_class(self, m: ModuleInfo, expr: ast.AST | str) -> ClassInfo | None:
        if not isinstance(expr, str):
            if isinstance(expr, ast.Constant) and isinstance(expr.value, str):
                expr = expr.value
            else:
                d = dotted(expr)
                if d is None:
                    return None
                expr = d
        return self.classes.get(self.resolve(m, expr))

    def get_function(self, m: ModuleInfo, expr: ast.AST | str) -> FuncInfo | None:
        if not isinstance(expr, str):
            d = dotted(expr)
            if d is None:
                return None
            expr = d
        return self.functions.get(self.resolve(m, expr))

    def cls(self, qualname: str) -> ClassInfo:
        c = self.classes.get(qualname)
        if c is None:
            raise AnalysisError(f"vanished anchor: class {qualname} not found")
        return c

    def func(self, qualname: str) -> FuncInfo:
        f = self.functions.get(qualname)
        if f is None:
            raise AnalysisError(f"vanished anchor: function {qualname} not found")
        return f

    def module(self, name: str) -> ModuleInfo:
        m = self.modules.get(name)
        if m is None:
            raise AnalysisError(f"vanished anchor: module {name} not found")
        return m

    # ---------------------------------------------------------------- hierarchy
    def mro(self, c: ClassInfo) -> list[ClassInfo]:
        """C3 linearisation over the classes defined in the repository (external bases opaque)."""
        cache = self.__dict__.setdefault("_mro_cache", {})
        if c.qualname in cache:
            return cache[c.qualname]

        def merge(seqs: list[list[ClassInfo]]) -> list[ClassInfo]:
            res: list[ClassInfo] = []
            seqs = [list(s) for s in seqs if s]
            while seqs:
                for s in seqs:
                    cand = s[0]
                    if not any(cand in t[1:] for t in seqs):
                        break
                else:  # inconsistent hierarchy: fall back to DFS order
                    cand = seqs[0][0]
                res.append(cand)
                seqs = [[x for x in s if x != cand] for s in seqs]
                seqs = [s for s in seqs if s]
            return res

        parents = [self.classes[b] for b in c.bases if b in self.classes]
        lin = [c] + merge([self.mro(p) for p in parents] + [parents])
        cache[c.qualname] = lin
        return lin

    def external_bases(self, c: ClassInfo) -> set[str]:
        out: set[str] = set()
        for k in self.mro(c):
            for b in k.bases:
                if b not in self.classes:
                    out.add(b)
        return out

    def is_subclass(self, c: ClassInfo, base: ClassInfo | str) -> bool:
        q = base if isinstance(base, str) else base.qualname
        return any(k.qualname == q for k in self.mro(c))

    def subclasses(self, base: ClassInfo | str, strict: bool = True) -> list[ClassInfo]:
        q = base if isinstance(base, str) else base.qualname
        out = []
        for c in self.classes.values():
            if strict and c.qualname == q:
                continue
            if self.is_subclass(c, q):
                out.append(c)
        return sorted(out, key=lambda k: (k.module.name, k.node.lineno))

    def lookup(self, c: ClassInfo, member: str, skip_self: bool = False) -> FuncInfo | None:
        for k in self.mro(c)[1 if skip_self else 0 :]:
            if member in k.methods:
                return k.methods[member]
        return None

    def lookup_after(self, c: ClassInfo, owner: ClassInfo, member: str) -> FuncInfo | None:
        """``super().member`` as seen from a method defined in *owner*, for an instance of *c*."""
        mro = self.mro(c)
        try:
            i = mro.index(owner)
        except ValueError:
            return None
        for k in mro[i + 1 :]:
            if member in k.methods:
                return k.methods[member]
        return None

    def lookup_attr(self, c: ClassInfo, name: str) -> ast.AST | None:
        for k in self.mro(c):
            if name in k.attrs:
                return k.attrs[name]
        return None

    def declared_abstract(self, c: ClassInfo) -> bool:
        """Declared abstract by the repository's convention: ``ABC`` (or Protocol) among the
        *direct* bases."""
        return any(b.split(".")[-1] in ("ABC", "Protocol", "ABCMeta") for b in c.bases)

    def abstract_members(self, c: ClassInfo) -> list[str]:
        names: set[str] = set()
        for k in self.mro(c):
            names.update(k.methods)
        return sorted(
            n for n in names if (f := self.lookup(c, n)) is not None and f.is_abstract
        )

    def is_concrete(self, c: ClassInfo) -> bool:
        return not self.declared_abstract(c) and not self.abstract_members(c)

    # --------------------------------------------------------------- registries
    def registry_dict(self, modname: str, varname: str) -> tuple[ModuleInfo, ast.Dict]:
        m = self.module(modname)
        v = m.globals.get(varname)
        if not isinstance(v, ast.Dict):
            raise AnalysisError(f"vanished anchor: {modname}.{varname} is not a dict literal")
        return m, v

    def iter_functions(self) -> Iterator[FuncInfo]:
        return iter(self.functions.values())


# ------------------------------------------------------------------------------------ AST helpers


def walk_no_nested(node: ast.AST) -> Iterator[ast.AST]:
    """ast.walk that does not descend into nested function/class definitions or lambdas'
    *definitions* (lambdas bodies are visited: they execute in the enclosing flow often enough
    for our 'is read somewhere' questions)."""
    stack = [node]
    first = True
    while stack:
        n = stack.pop()
        if not first and isinstance(n, (ast.FunctionDef, ast.AsyncFunctionDef, ast.ClassDef)):
            continue
        first = False
        yield n
        stack.extend(reversed(list(ast.iter_child_nodes(n))))


def body_without_docstring(fn: ast.FunctionDef) -> list[ast.stmt]:
    body = list(fn.body)
    if (
        body
        and isinstance(body[0], ast.Expr)
        and isinstance(body[0].value, ast.Constant)
        and isinstance(body[0].value.value, str)
    ):
        body = body[1:]
    return body


def is_self_attr(node: ast.AST, selfname: str = "self") -> str | None:
    if (
        isinstance(node, ast.Attribute)
        and isinstance(node.value, ast.Name)
        and node.value.id == selfname
    ):
        return node.attr
    return None


def call_name(call: ast.Call) -> str | None:
    return dotted(call.func)


def returns_of(fn: ast.FunctionDef) -> list[ast.Return]:
    return [n for n in walk_no_nested(fn) if isinstance(n, ast.Return)]


def keyword_map(call: ast.Call) -> dict[str, ast.AST]:
    return {k.arg: k.value for k in call.keywords if k.arg is not None}


def bind_call(call: ast.Call, params: list[Param]) -> tuple[dict[str, ast.AST], list[str]]:
    """Bind the arguments of *call* to *params* (caller view).  Returns (binding, problems).

    Positional arguments that land in ``*vararg`` are collected into a synthesised ``ast.Tuple``
    bound to ``'*<name>'`` (starred arguments are kept as ``ast.Starred`` elements).  A starred
    argument that feeds ordinary positional parameters is bound to each of the remaining ones."""
    binding: dict[str, ast.AST] = {}
    problems: list[str] = []
    pos = [p for p in params if p.kind == "pos"]
    vararg = next((p for p in params if p.kind == "vararg"), None)
    kwarg = next((p for p in params if p.kind == "kwarg"), None)

    def add_vararg(a: ast.AST) -> None:
        assert vararg is not None
        key = "*" + vararg.name
        if key not in binding:
            binding[key] = ast.Tuple(elts=[], ctx=ast.Load())
        binding[key].elts.append(a)  # type: ignore[attr-defined]

    i = 0
    for a in call.args:
        if isinstance(a, ast.Starred):
            if i < len(pos):
                for p in pos[i:]:
                    binding.setdefault(p.name, a.value)
                i = len(pos)
                if vararg is not None:
                    add_vararg(a)
            elif vararg is not None:
                add_vararg(a)
            else:
                problems.append("starred positional argument without parameter")
            continue
        if i < len(pos):
            binding[pos[i].name] = a
            i += 1
        elif vararg is not None:
            add_vararg(a)
        else:
            problems.append(f"too many positional arguments ({unparse(a)})")
    names = {p.name for p in params if p.kind in ("pos", "kwonly")}
    for k in call.keywords:
        if k.arg is None:
            binding["**"] = k.value
            continue
        if k.arg in names:
            if k.arg in binding:
                problems.append(f"multiple values for {k.arg}")
            binding[k.arg] = k.value
        elif kwarg is not None:
            binding[k.arg] = k.value
        else:
            problems.append(f"unknown keyword {k.arg}")
    return binding, problems
