"""Element-order ("layout") typing of tensor axes.

Besides its size, an axis may carry a *layout*: the ordered tuple of atomic axes it is the row-major
flattening of.  ``x.permute(0, 2, 1, 3).flatten(2)`` of an ``(F, H, B, Ki)`` tensor has a last axis of
size ``H*Ki`` laid out ``[H, Ki]`` (H major); ``flatten`` after ``permute(0, 2, 3, 1)`` has the same
size but the layout ``[Ki, H]``.  Sizes commute, layouts do not: this is what lets the shape rules see
*which* entries an operator pairs, not only how many.

    atom      (label, size)       label = a size symbol, optionally tagged  ``Ki|H=0``  when the
                                  tensor was selected at index 0 of the axis labelled H
    layout    tuple of atoms      () for a size-1 axis;  None = unknown (never an error)

Unknown is contagious and silent; a *conflict* (two fully known layouts of one axis that list the
same atoms in different orders) is reported by the operator models as a ShapeError.
"""

from __future__ import annotations

from typing import Any, Iterable

from .dims import Dim

Atom = tuple[str, Dim]
Layout = tuple[Atom, ...]


def single_symbol(d: Dim) -> str | None:
    if len(d.t) == 1:
        (m, c), = d.t.items()
        if c == 1 and len(m) == 1 and m[0][1] == 1:
            return m[0][0]
    return None


def fresh_axis(d: Dim) -> Layout | None:
    if d.as_int() == 1:
        return ()
    s = single_symbol(d)
    if s is not None and not s.startswith(("mod(", "floordiv(", "rank#", "loop_index", "rfftlen(", "pow(", "nn:")):
        return ((s, d),)
    return None


def fresh(shape: Iterable[Dim]) -> tuple[Layout | None, ...]:
    return tuple(fresh_axis(d) for d in shape)


def placeholder(name: str, k: int, d: Dim) -> Layout | None:
    """the layout of axis k of a parameter handed to a layer: its own size symbol if it is one,
    otherwise an opaque atom standing for 'whatever order the parameter's producer uses'"""
    f = fresh_axis(d)
    if f is not None:
        return f
    return ((f"<{name}#{k}>", d),)


def base_label(label: str) -> str:
    return label.split("|", 1)[0]


def base(lay: Layout) -> tuple[tuple[str, Dim], ...]:
    return tuple((base_label(l), d) for l, d in lay)


def tag(lay: Layout | None, axis_label: str, i: int) -> Layout | None:
    if lay is None:
        return None
    out = []
    for l, d in lay:
        b = base_label(l)
        tags = [t for t in l.split("|")[1:] if not t.startswith(axis_label + "=")]
        tags.append(f"{axis_label}={i}")
        out.append(("|".join([b] + sorted(tags)), d))
    return tuple(out)


def size_of(lay: Layout) -> Dim:
    r = Dim.const(1)
    for _, d in lay:
        r = r * d
    return r


def fmt(lay: Layout | None) -> str:
    if lay is None:
        return "?"
    return "[" + ", ".join(l for l, _ in lay) + "]"


def fmt_all(lays: Iterable[Layout | None] | None) -> str:
    if lays is None:
        return "(?)"
    return "(" + ", ".join(fmt(l) for l in lays) + ")"


def merge(lays: list[Layout | None]) -> tuple[Layout | None, str | None]:
    """layouts of the same (non-singleton) axis met by an element-wise operator or an einsum letter.
    -> (merged layout, conflict description | None)"""
    known = [l for l in lays if l is not None]
    if len(known) < len(lays) or not known:
        # an unknown operand: keep what is known only if everything known agrees
        if known and all(k == known[0] for k in known):
            return (known[0] if len(known) == len(lays) else None), None
        return None, None
    first = known[0]
    if all(k == first for k in known):
        return first, None
    b0 = base(first)
    if all(base(k) == b0 for k in known):
        return tuple((bl, d) for bl, d in b0), None  # same atoms, different selection tags
    # opaque placeholders stand for any order
    if any(l.startswith("<") for k in known for l, _ in k):
        return None, None
    if all(sorted(base(k), key=lambda a: (a[0], repr(a[1]))) == sorted(b0, key=lambda a: (a[0], repr(a[1]))) for k in known):
        return None, "the same elements are listed in different orders: " + " vs ".join(fmt(k) for k in known)
    return _pair_positionally(known), None


def _pair_positionally(known: list[Layout]) -> Layout | None:
    """element-wise combination of operands whose axis is factorised into *different* atoms.
    Copies made by ``repeat`` (``rep:`` atoms) carry no identity of their own: when all operands
    factorise the axis into the same sequence of sizes, position by position a ``rep:`` atom yields to
    the other operand's atom (``[rep:K, H] * [dK, rep:H] -> [dK, H]``).  When the size sequences
    differ although every atom is one plain size symbol (``[rep:K, H] * [rep:H, dK]``), entry j pairs
    (j div H, j mod H) of one operand with (j div K, j mod K) of the other: a decided misalignment,
    recorded as a ``<misaligned ..>`` placeholder for the output contracts."""
    seqs = []
    for k in known:
        syms = [single_symbol(d) for _, d in k]
        if any(x is None for x in syms):
            return None
        seqs.append(syms)
    if all(sq == seqs[0] for sq in seqs):
        out: list[Atom] = []
        for pos in range(len(seqs[0])):
            atoms = [k[pos] for k in known]
            real = [a for a in atoms if not a[0].startswith("rep:")]
            labels = {a[0] for a in real}
            if not real:
                out.append(atoms[0])
            elif len(labels) == 1:
                out.append(real[0])
            else:
                return None
        return tuple(out)
    if all(sorted(sq) == sorted(seqs[0]) for sq in seqs):
        total = size_of(known[0])
        return ((f"{MISALIGNED} pairing of " + " with ".join(fmt(k) for k in known) + ">", total),)
    return None


PARTS: dict[str, list[Atom]] = {}  # atom label -> the ordered sub-atoms a view split it into
_FRESH = [0]


def fresh_atom(prefix: str, size: Dim) -> Atom:
    _FRESH[0] += 1
    return (f"{prefix}#{_FRESH[0]}", size)


def expand_parts(lay: Layout) -> Layout:
    """replace every atom that was split by a view with its ordered parts (recursively)"""
    out: list[Atom] = []
    for a in lay:
        ps = PARTS.get(a[0])
        if ps:
            out.extend(expand_parts(tuple(ps)))
        else:
            out.append(a)
    return tuple(out)


def regroup(src: list[Layout | None], tgt_sizes: list[Dim], norm: Any) -> list[Layout | None]:
    """layouts of the axes of ``view(tgt_sizes)``: consecutive atoms are merged / an atom is split"""
    if any(l is None for l in src):
        return [None] * len(tgt_sizes)
    atoms: list[Atom] = [a for l in src for a in l]  # type: ignore[union-attr]
    out: list[Layout | None] = []
    i = 0
    k = 0
    while k < len(tgt_sizes):
        want = norm(tgt_sizes[k])
        if want.as_int() == 1:
            out.append(())
            k += 1
            continue
        if i >= len(atoms):
            return [None] * len(tgt_sizes)
        # merge consecutive atoms into this target
        acc = Dim.const(1)
        j = i
        ok = False
        while j < len(atoms):
            acc = norm(acc * atoms[j][1])
            j += 1
            if acc == want:
                ok = True
                break
        if ok:
            out.append(tuple(atoms[i:j]))
            i = j
            k += 1
            continue
        # split one atom over several targets
        a_label, a_size = atoms[i]
        acc = Dim.const(1)
        kk = k
        parts = []
        ok = False
        while kk < len(tgt_sizes):
            acc = norm(acc * tgt_sizes[kk])
            parts.append(norm(tgt_sizes[kk]))
            kk += 1
            if acc == norm(a_size):
                ok = True
                break
        if ok:
            made = []
            for n, p in enumerate(parts):
                if p.as_int() == 1:
                    out.append(())
                else:
                    out.append(((f"{a_label}.{n}", p),))
                    made.append((f"{a_label}.{n}", p))
            PARTS[a_label] = made
            i += 1
            k = kk
            continue
        return _misaligned_or_unknown(atoms, tgt_sizes, norm)
    if i != len(atoms):
        return [None] * len(tgt_sizes)
    return out


MISALIGNED = "<misaligned"


def is_misaligned(lay: Layout | None) -> bool:
    return lay is not None and any(l.startswith(MISALIGNED) for l, _ in lay)


def _monomial(d: Dim) -> tuple[tuple[str, int], ...] | None:
    """a product of symbols with coefficient 1 -> its (symbol, exponent) tuple; otherwise None"""
    if len(d.t) != 1:
        return None
    (m, c), = d.t.items()
    if c != 1:
        return None
    return tuple(m)


def _misaligned_or_unknown(atoms: list[Atom], tgt_sizes: list[Dim], norm: Any) -> list[Layout | None]:
    """The view could not be explained as merging consecutive atoms / splitting one atom.  When every
    atom is one plain size symbol and every target a product of such symbols with the same overall
    product, that is a *decided* fact, not a gap of the model: for generic sizes the boundaries of
    the target axes fall inside atoms, i.e. the view re-reads the buffer in another element order
    (``x.repeat(B, 1, 1).view(F, B, K)``: entry (f, b) holds fold (f*B + b) mod F).  The target axes
    then carry a ``<misaligned ..>`` placeholder (opaque to merges, visible to output contracts)."""
    syms: list[str] = []
    for label, size in atoms:
        s = single_symbol(norm(size))
        if s is None or s.startswith(("mod(", "floordiv(", "rank#", "loop_index", "rfftlen(", "pow(")) or label.startswith("<"):
            return [None] * len(tgt_sizes)
        syms.append(s)
    tg = [norm(t) for t in tgt_sizes]
    monos = [_monomial(t) for t in tg]
    if any(m is None for m in monos):
        return [None] * len(tgt_sizes)
    total: dict[str, int] = {}
    for m in monos:
        for sname, e in m:  # type: ignore[union-attr]
            total[sname] = total.get(sname, 0) + e
    have: dict[str, int] = {}
    for sname in syms:
        have[sname] = have.get(sname, 0) + 1
    if total != have:
        return [None] * len(tgt_sizes)
    desc = "[" + ", ".join(l for l, _ in atoms) + "]"
    return [() if t.as_int() == 1 else ((f"{MISALIGNED} view of {desc}>", t),) for t in tg]
