"""Guard conditions as propositional formulas, decided by truth-table enumeration.

``fires(test, env)`` answers: under every valuation of the atoms of *test* that is consistent with
the partial environment *env*, is *test* true?  Atoms are the maximal non-boolean sub-expressions
(identified by their normalised source text); an atom whose value is fixed by *env* -- directly
(``'sc.is_smooth': False``) or by evaluating a comparison on concrete integers
(``'order': 0`` makes ``order <= 0`` true, ``order < 1`` true, ``0 >= order`` true) -- is not
enumerated.  No solver: at most 2**8 valuations.
"""

from __future__ import annotations

import ast
import itertools
import operator
from typing import Any

ALWAYS, NEVER, DEPENDS = "always", "never", "depends"

_CMP = {
    ast.Lt: operator.lt,
    ast.LtE: operator.le,
    ast.Gt: operator.gt,
    ast.GtE: operator.ge,
    ast.Eq: operator.eq,
    ast.NotEq: operator.ne,
}


class _Empty:
    """A falsy, empty collection stand-in (an empty Scope / dict)."""

    def __bool__(self) -> bool:
        return False

    def __len__(self) -> int:
        return 0


EMPTY = _Empty()


def _text(e: ast.AST) -> str:
    return ast.unparse(e)


def _value(e: ast.AST, env: dict[str, Any]) -> tuple[bool, Any]:
    """Try to evaluate a non-boolean expression concretely from env (ints / given values)."""
    t = _text(e)
    if t in env:
        return True, env[t]
    if isinstance(e, ast.Constant):
        return True, e.value
    if isinstance(e, ast.UnaryOp) and isinstance(e.op, ast.USub):
        k, v = _value(e.operand, env)
        if k and isinstance(v, (int, float)):
            return True, -v
    if isinstance(e, ast.Call) and isinstance(e.func, ast.Name) and e.func.id == "len" and len(e.args) == 1:
        k, v = _value(e.args[0], env)
        if k and hasattr(v, "__len__"):
            return True, len(v)
    if isinstance(e, ast.BinOp) and isinstance(e.op, (ast.Add, ast.Sub)):
        kl, vl = _value(e.left, env)
        kr, vr = _value(e.right, env)
        if kl and kr and isinstance(vl, (int, float)) and isinstance(vr, (int, float)):
            return True, vl + vr if isinstance(e.op, ast.Add) else vl - vr
    return False, None


def atoms(test: ast.AST, env: dict[str, Any]) -> list[str]:
    """Free atoms of *test* (those not decided by *env*)."""
    out: list[str] = []

    def visit(e: ast.AST) -> None:
        if isinstance(e, ast.BoolOp):
            for v in e.values:
                visit(v)
        elif isinstance(e, ast.UnaryOp) and isinstance(e.op, ast.Not):
            visit(e.operand)
        else:
            if _atom_value(e, env)[0]:
                return
            t = _text(e)
            if t not in out:
                out.append(t)

    visit(test)
    return out


def _atom_value(e: ast.AST, env: dict[str, Any]) -> tuple[bool, bool]:
    t = _text(e)
    if t in env:
        return True, bool(env[t])
    if isinstance(e, ast.Compare) and len(e.ops) > 1:
        # a < b < c  ==  (a < b) and (b < c)
        left = e.left
        res = True
        for op, right in zip(e.ops, e.comparators):
            k, v = _atom_value(ast.Compare(left=left, ops=[op], comparators=[right]), env)
            if not k:
                return False, False
            res = res and v
            left = right
        return True, res
    if isinstance(e, ast.Compare) and len(e.ops) == 1 and isinstance(e.ops[0], (ast.In, ast.NotIn)):
        kl, vl = _value(e.left, env)
        if kl and isinstance(e.comparators[0], (ast.Tuple, ast.List, ast.Set)):
            vals = [_value(x, env) for x in e.comparators[0].elts]
            if all(k for k, _ in vals):
                r = vl in [v for _, v in vals]
                return True, r if isinstance(e.ops[0], ast.In) else not r
    if isinstance(e, ast.Compare) and len(e.ops) == 1 and type(e.ops[0]) in _CMP:
        kl, vl = _value(e.left, env)
        kr, vr = _value(e.comparators[0], env)
        if kl and kr:
            try:
                return True, bool(_CMP[type(e.ops[0])](vl, vr))
            except TypeError:
                return False, False
    if isinstance(e, ast.Compare) and len(e.ops) == 1 and isinstance(e.ops[0], (ast.Is, ast.IsNot)):
        kl, vl = _value(e.left, env)
        kr, vr = _value(e.comparators[0], env)
        if kl and kr:
            r = vl is vr
            return True, r if isinstance(e.ops[0], ast.Is) else not r
    k, v = _value(e, env)
    if k:
        return True, bool(v)
    return False, False


def _eval(e: ast.AST, env: dict[str, Any], free: dict[str, bool]) -> bool:
    if isinstance(e, ast.BoolOp):
        vals = [_eval(v, env, free) for v in e.values]
        return all(vals) if isinstance(e.op, ast.And) else any(vals)
    if isinstance(e, ast.UnaryOp) and isinstance(e.op, ast.Not):
        return not _eval(e.operand, env, free)
    k, v = _atom_value(e, env)
    if k:
        return v
    return free[_text(e)]


def fires(test: ast.AST, env: dict[str, Any]) -> tuple[str, list[str]]:
    """(ALWAYS | NEVER | DEPENDS, free atoms)."""
    fr = atoms(test, env)
    if len(fr) > 8:
        return DEPENDS, fr
    results = set()
    for vals in itertools.product([False, True], repeat=len(fr)):
        results.add(_eval(test, env, dict(zip(fr, vals))))
    if results == {True}:
        return ALWAYS, fr
    if results == {False}:
        return NEVER, fr
    return DEPENDS, fr


def mentions(test: ast.AST, names: set[str]) -> bool:
    return any(isinstance(n, ast.Name) and n.id in names for n in ast.walk(test))
