"""Symbolic tensor-shape abstract interpreter (DESIGN 3.R4, full form).

Interprets the *source* of cirkit's torch-side functions over an abstract domain in which every
tensor is its shape -- a tuple of symbolic dimensions (``dims.Dim``: integer polynomials over
positive symbols such as F, B, Ki, Ko) -- and every other value is either concrete (small ints,
tuples, None, strings), an abstract object (fields on a heap), or ``Unknown``.  Nothing of cirkit or
torch is imported or executed: torch's operators are *modelled* (``tensor_ops.py``) by their shape
rule only.  A model raises ``ShapeError`` only from fully resolved operands (a broadcast of two
provably different sizes, a permutation of the wrong rank, an einsum whose letter binds two different
sizes, a view that changes the number of elements, ...); anything outside the vocabulary evaluates
to ``Unknown`` and ends as an *unresolved* obligation, never as a verdict.

Control flow is explored path by path (``if`` on an undecided condition forks the state and records
the literal it assumed; comparisons between dimensions are decided from bounds -- every symbol is
>= 1 -- and from the literals already assumed); ``for`` loops over concrete sequences are unrolled,
loops over a sequence of symbolic length are run to a shape fixpoint.
"""

from __future__ import annotations

import ast
import itertools
from dataclasses import dataclass, field
from typing import Any, Callable, Iterator

from .dims import Dim, as_dim, fmt_shape
from .model import ClassInfo, FuncInfo, ModuleInfo, Repo, body_without_docstring, unparse


class ShapeError(Exception):
    """A resolved shape contradiction inside a modelled operator."""

    def __init__(self, msg: str, node: ast.AST | None = None):
        super().__init__(msg)
        self.msg = msg
        self.node = node
        self.where = ""
        self.lits: list[str] = []


class PathLimit(Exception):
    pass


# ------------------------------------------------------------------------------------ values


class V:
    pass


@dataclass(frozen=True)
class Unknown(V):
    why: str = ""

    def __repr__(self) -> str:
        return f"?({self.why})"


@dataclass(frozen=True)
class TensorV(V):
    shape: tuple[Dim, ...]
    dtype: str = "float"  # 'float' | 'int' | 'bool' | 'any'
    lay: tuple | None = None  # per axis: layout.Layout | None  (see sa/layout.py); None = all unknown
    val: tuple | None = None  # index tensors (arange ...): the layout of the index space its *values* enumerate
    off: tuple | None = None  # per axis: the position (Dim) of this axis' element 0 in the tensor it was sliced from; None = not a slice

    def __repr__(self) -> str:
        return "T" + fmt_shape(self.shape)


def fresh_tensor(shape: tuple[Dim, ...], dtype: str = "float") -> TensorV:
    """an abstract tensor whose axes are atomic: each axis of a single-symbol size is its own atom"""
    from .layout import fresh

    return TensorV(tuple(shape), dtype, fresh(shape))


@dataclass(frozen=True)
class IntV(V):
    d: Dim

    def __repr__(self) -> str:
        return f"int({self.d!r})"


@dataclass(frozen=True)
class FloatV(V):
    val: float | None = None


@dataclass(frozen=True)
class BoolV(V):
    val: bool | None
    tlits: tuple = ()  # literals that hold when the value is True
    flits: tuple = ()  # literals that hold when the value is False


@dataclass(frozen=True)
class NoneV(V):
    pass


@dataclass(frozen=True)
class StrV(V):
    s: str | None


@dataclass(frozen=True)
class TupleV(V):
    items: tuple[V, ...]
    kind: str = "tuple"  # 'tuple' | 'list'

    def __repr__(self) -> str:
        return ("[" if self.kind == "list" else "(") + ", ".join(map(repr, self.items)) + ("]" if self.kind == "list" else ")")


@dataclass(frozen=True)
class SeqV(V):
    """homogeneous sequence of symbolic length (e.g. ``t.unbind(dim)`` over a symbolic axis)"""

    elem: V
    length: Dim


@dataclass(frozen=True)
class DictV(V):
    items: tuple[tuple[V, V], ...]


@dataclass(frozen=True)
class ObjV(V):
    oid: int
    cls: ClassInfo

    def __repr__(self) -> str:
        return f"<{self.cls.name}#{self.oid}>"


@dataclass(frozen=True)
class ParamV(V):
    """a TorchParameter (or parameter node) handed to a layer: calling it yields (F, *shape)"""

    pid: int
    name: str = ""


@dataclass(frozen=True)
class UnboundShape(V):
    pid: int


@dataclass(frozen=True)
class DistV(V):
    kind: str
    batch: tuple[Dim, ...]


@dataclass(frozen=True)
class SemiringV(V):
    name: str = "S"


@dataclass(frozen=True)
class ClassV(V):
    cls: ClassInfo | None
    ext: str = ""


@dataclass(frozen=True)
class FuncV(V):
    fi: FuncInfo | None
    bound: V | None = None
    owner: ClassInfo | None = None


@dataclass(frozen=True)
class LambdaV(V):
    node: ast.Lambda
    env: tuple  # captured (name, value) pairs
    mod: ModuleInfo | None = None
    selfcls: ClassInfo | None = None


@dataclass(frozen=True)
class BuiltinV(V):
    name: str  # 'torch.exp', 'len', 'E.rearrange', ...
    bound: V | None = None


@dataclass(frozen=True)
class VmapV(V):
    fn: V
    in_dims: int = 0


@dataclass(frozen=True)
class ScopeV(V):
    """a cirkit Scope of symbolic size (a set of variable ids iterated in increasing order)"""

    length: Dim


@dataclass(frozen=True)
class OpaqueV(V):
    """a value we carry but never inspect (device, dtype)"""

    what: str = ""


NONE = NoneV()
TRUE = BoolV(True)
FALSE = BoolV(False)


def mkint(x: int | Dim) -> IntV:
    return IntV(as_dim(x))


def is_unknown(v: V) -> bool:
    return isinstance(v, Unknown)


# ------------------------------------------------------------------------------------ state


class State:
    def __init__(self) -> None:
        self.env: dict[str, V] = {}
        self.heap: dict[int, dict[str, V]] = {}
        self.subst: dict[str, Dim] = {}
        self.lits: list[tuple[Dim, str]] = []  # (p, op) meaning  p op 0
        self.assumed: list[str] = []  # human readable branch assumptions

    def copy(self) -> "State":
        s = State()
        s.env = dict(self.env)
        s.heap = {k: dict(v) for k, v in self.heap.items()}
        s.subst = dict(self.subst)
        s.lits = list(self.lits)
        s.assumed = list(self.assumed)
        return s

    def with_env(self, env: dict[str, V]) -> "State":
        """same heap / literals (shared by reference), another local scope"""
        s = State.__new__(State)
        s.env = env
        s.heap = self.heap
        s.subst = self.subst
        s.lits = self.lits
        s.assumed = self.assumed
        return s

    # ---- dims
    def norm(self, d: Dim) -> Dim:
        for _ in range(8):
            n = d.subst(self.subst)
            if n == d:
                return n
            d = n
        return d

    def norm_shape(self, shape: tuple[Dim, ...]) -> tuple[Dim, ...]:
        return tuple(self.norm(d) for d in shape)

    def decide(self, p: Dim, op: str) -> bool | None:
        """truth of  p op 0  (op in ==, !=, >, >=, <, <=) under bounds and assumed literals"""
        p = self.norm(p)
        lo, hi = p.bounds()
        table = {
            "==": (lo == hi == 0, lo > 0 or hi < 0),
            "!=": (lo > 0 or hi < 0, lo == hi == 0),
            ">": (lo > 0, hi <= 0),
            ">=": (lo >= 0, hi < 0),
            "<": (hi < 0, lo >= 0),
            "<=": (hi <= 0, lo > 0),
        }
        yes, no = table[op]
        if yes:
            return True
        if no:
            return False
        neg = {"==": "!=", "!=": "==", ">": "<=", ">=": "<", "<": ">=", "<=": ">"}
        flip = {"==": "==", "!=": "!=", ">": "<", ">=": "<=", "<": ">", "<=": ">="}
        implies = {
            ">": {">", ">=", "!="},
            ">=": {">="},
            "<": {"<", "<=", "!="},
            "<=": {"<="},
            "==": {"==", ">=", "<="},
            "!=": {"!="},
        }
        for q, qop in self.lits:
            q = self.norm(q)
            for qq, qqop in ((q, qop), (-q, flip[qop])):
                if qq == p:
                    if op in implies[qqop]:
                        return True
                    if neg[op] in implies[qqop]:
                        return False
        # integer reasoning with a constant offset:  p = qq + k  and  qq op' 0  bound p; the bounds of
        # all literals are intersected (a1 - 1 > 0 and a1 - 2 <= 0 give a1 - 2 == 0)
        inf = float("inf")
        plo, phi = lo, hi
        for q, qop in self.lits:
            q = self.norm(q)
            for qq, qqop in ((q, qop), (-q, flip[qop])):
                k = (p - qq).as_int()
                if k is None:
                    continue
                l2, h2 = {">": (1 + k, inf), ">=": (k, inf), "<": (-inf, k - 1), "<=": (-inf, k), "==": (k, k)}.get(qqop, (-inf, inf))
                plo, phi = max(plo, l2), min(phi, h2)
        if (plo, phi) != (lo, hi):
            t2 = {
                "==": (plo == phi == 0, plo > 0 or phi < 0),
                "!=": (plo > 0 or phi < 0, plo == phi == 0),
                ">": (plo > 0, phi <= 0),
                ">=": (plo >= 0, phi < 0),
                "<": (phi < 0, plo >= 0),
                "<=": (phi <= 0, plo > 0),
            }[op]
            if t2[0]:
                return True
            if t2[1]:
                return False
        return None

    def assume(self, lit: tuple) -> bool:
        """add one literal; returns False if it is contradictory with what is known"""
        kind = lit[0]
        if kind == "cmp":
            _, p, op = lit
            d = self.decide(p, op)
            if d is False:
                return False
            if d is True:
                return True
            p = self.norm(p)
            if op == "==":
                sol = p.solve_for()
                if sol is not None:
                    s, val = sol
                    self.subst[s] = val
                    if s in OPAQUES and OPAQUES[s][0] == "mod" and val == Dim.const(0):
                        # a % b == 0  ->  a == b * (a // b): solve for a when it is a plain symbol
                        _, a, b = OPAQUES[s]
                        q = Dim.sym(f"floordiv({a!r},{b!r})")
                        OPAQUES.setdefault(f"floordiv({a!r},{b!r})", ("floordiv", a, b))
                        sol2 = (a - b * q).solve_for(prefer=a.symbols())
                        if sol2 is not None and sol2[0] in a.symbols():
                            self.subst[sol2[0]] = sol2[1]
                    return True
            self.lits.append((p, op))
            return True
        if kind == "bind":
            _, pid, tup = lit
            self.heap.setdefault(pid, {})["shape"] = tup
            return True
        if kind == "isnone":  # ('isnone', name-ish, bool) -- informational
            return True
        return True


OPAQUES: dict[str, tuple[str, Dim, Dim]] = {}  # opaque symbol -> (function, a, b)

_OID = itertools.count(1)


def new_obj(st: State, cls: ClassInfo) -> ObjV:
    oid = next(_OID)
    st.heap[oid] = {}
    return ObjV(oid, cls)


def new_param(st: State, name: str, shape: TupleV | None = None, folds: Dim | None = None) -> ParamV:
    pid = next(_OID)
    st.heap[pid] = {"shape": shape if shape is not None else UnboundShape(pid), "folds": mkint(folds if folds is not None else Dim.sym("F"))}
    return ParamV(pid, name)


# ------------------------------------------------------------------------------------ interpreter

MAX_PATHS = 96
MAX_DEPTH = 14
MAX_UNROLL = 12


STATS = {"interpreters": 0, "calls": 0, "paths_forked": 0, "shape_errors": 0}


class Interp:
    def __init__(self, repo: Repo):
        STATS["interpreters"] += 1
        self.repo = repo
        self.paths = 0
        self.trace: list[str] = []
        self.unknown_reasons: list[str] = []
        self._seq_elem: SeqV | None = None
        # strict mode: inside callees (constructors, properties) an undecided *equality of sizes* is
        # taken to be False -- two different polynomials differ for some sizes -- and recorded
        self.strict = False
        self.strict_failures: list[str] = []
        self.strict_raises: list[str] = []  # raise statements reached inside callees in strict mode
        self.consts: dict[str, V] = {}  # stubbed callables: BuiltinV("const.<name>") returns consts[name]
        from . import tensor_ops

        self.ops = tensor_ops

    # ---- helpers
    def unk(self, why: str) -> Unknown:
        if len(self.unknown_reasons) < 50:
            self.unknown_reasons.append(why)
        return Unknown(why)

    def module_of(self, fi: FuncInfo) -> ModuleInfo:
        return fi.module

    # ---- calling user functions
    def call(self, fi: FuncInfo, args: list[V], kwargs: dict[str, V], st: State, selfv: V | None = None, depth: int = 0) -> Iterator[tuple[V, State]]:
        """yields one (return value, state) per non-raising path"""
        STATS["calls"] += 1
        if depth > MAX_DEPTH:
            yield self.unk(f"call depth at {fi.qualname}"), st
            return
        if fi.is_abstract:
            yield self.unk(f"abstract {fi.qualname}"), st
            return
        node = fi.node
        a = node.args
        env: dict[str, V] = {}
        pos = list(a.posonlyargs) + list(a.args)
        argv = list(args)
        if selfv is not None:
            argv = [selfv] + argv
        defaults = list(a.defaults)
        ndef = len(defaults)
        for i, p in enumerate(pos):
            if i < len(argv):
                env[p.arg] = argv[i]
            elif p.arg in kwargs:
                env[p.arg] = kwargs[p.arg]
            else:
                di = i - (len(pos) - ndef)
                if di >= 0:
                    env[p.arg] = self.const_default(defaults[di])
                else:
                    env[p.arg] = self.unk(f"missing arg {p.arg} of {fi.qualname}")
        if a.vararg is not None:
            env[a.vararg.arg] = TupleV(tuple(argv[len(pos):]))
        elif len(argv) > len(pos):
            yield self.unk(f"too many positional args for {fi.qualname}"), st
            return
        for p, d in zip(a.kwonlyargs, a.kw_defaults):
            if p.arg in kwargs:
                env[p.arg] = kwargs[p.arg]
            elif d is not None:
                env[p.arg] = self.const_default(d)
            else:
                env[p.arg] = self.unk(f"missing kwarg {p.arg} of {fi.qualname}")
        used = {p.arg for p in pos} | {p.arg for p in a.kwonlyargs}
        extra = {k: v for k, v in kwargs.items() if k not in used}
        if a.kwarg is not None:
            env[a.kwarg.arg] = DictV(tuple((StrV(k), v) for k, v in extra.items()))
        elif extra:
            yield self.unk(f"unexpected kwargs {sorted(extra)} for {fi.qualname}"), st
            return
        frame = Frame(fi, depth)
        fst = st.with_env(env)
        got = False
        env0 = dict(st.env)
        for kind, val, s2 in self.block(body_without_docstring(node), fst, frame):
            if kind == "raise":
                continue
            got = True
            out = st.with_env(dict(env0))
            out.heap, out.subst, out.lits, out.assumed = s2.heap, s2.subst, s2.lits, s2.assumed
            yield (val if kind == "return" else NONE), out
        if not got:
            frame.all_raise = True

    def const_default(self, d: ast.AST) -> V:
        if isinstance(d, ast.Constant):
            return self.const(d.value)
        if isinstance(d, ast.UnaryOp) and isinstance(d.op, ast.USub) and isinstance(d.operand, ast.Constant) and isinstance(d.operand.value, int):
            return mkint(-d.operand.value)
        return self.unk("default " + unparse(d))

    def const(self, c: Any) -> V:
        if c is None:
            return NONE
        if isinstance(c, bool):
            return BoolV(c)
        if isinstance(c, int):
            return mkint(c)
        if isinstance(c, float):
            return FloatV(c)
        if isinstance(c, str):
            return StrV(c)
        if c is Ellipsis:
            return BuiltinV("Ellipsis")
        return self.unk("const")

    # ---- statements
    def block(self, stmts: list[ast.stmt], st: State, fr: "Frame") -> Iterator[tuple[str, V, State]]:
        """yields ('fall'|'return'|'raise'|'break'|'continue', value, state)"""
        if not stmts:
            yield "fall", NONE, st
            return
        head, rest = stmts[0], stmts[1:]
        for kind, val, s2 in self.stmt(head, st, fr):
            if kind == "fall":
                yield from self.block(rest, s2, fr)
            else:
                yield kind, val, s2

    def fork(self, st: State) -> State:
        self.paths += 1
        STATS["paths_forked"] += 1
        if self.paths > MAX_PATHS:
            raise PathLimit()
        return st.copy()

    def _strict(self, t: BoolV, st: State, node: ast.AST, fr: "Frame | None") -> BoolV:
        if not self.strict or fr is None or fr.depth < 1 or t.val is not None:
            return t
        eqs = [l for l in t.tlits if l[0] == "cmp" and l[2] == "=="]
        neqs = [l for l in t.flits if l[0] == "cmp" and l[2] == "=="]
        if eqs and len(eqs) == len(t.tlits):
            bad = [l for l in eqs if st.decide(l[1], "==") is not True]
            if bad:
                self.strict_failures.append(f"{fr.fi.module.relpath}:{getattr(node, 'lineno', 0)} {fr.fi.qualname}: `{unparse(node)[:90]}` needs {st.norm(bad[0][1])!r} == 0, which fails for some sizes")
                return FALSE
            return TRUE
        if neqs and len(neqs) == len(t.flits):
            bad = [l for l in neqs if st.decide(l[1], "==") is not True]
            if bad:
                self.strict_failures.append(f"{fr.fi.module.relpath}:{getattr(node, 'lineno', 0)} {fr.fi.qualname}: `{unparse(node)[:90]}` holds for some sizes ({st.norm(bad[0][1])!r} != 0)")
                return TRUE
            return FALSE
        return t

    def branch(self, cond: V, st: State, node: ast.AST, fr: "Frame | None" = None) -> Iterator[tuple[bool, State]]:
        """the feasible truth values of ``cond`` with the state refined accordingly"""
        t = self._strict(self.truth(cond, st), st, node, fr)
        if t.val is True:
            yield True, st
            return
        if t.val is False:
            yield False, st
            return
        txt = unparse(node)[:80]
        s1 = self.fork(st)
        if all(s1.assume(l) for l in t.tlits):
            s1.assumed.append(txt)
            yield True, s1
        s2 = self.fork(st)
        if all(s2.assume(l) for l in t.flits):
            s2.assumed.append("not (" + txt + ")")
            yield False, s2

    def truth(self, v: V, st: State) -> BoolV:
        if isinstance(v, BoolV):
            if v.val is None:
                # re-decide literals that may have become decidable
                if len(v.tlits) == 1 and v.tlits[0][0] == "cmp":
                    d = st.decide(v.tlits[0][1], v.tlits[0][2])
                    if d is not None:
                        return BoolV(d)
            return v
        if isinstance(v, NoneV):
            return FALSE
        if isinstance(v, IntV):
            d = st.decide(v.d, "!=")
            return BoolV(d, (("cmp", v.d, "!="),), (("cmp", v.d, "=="),))
        if isinstance(v, TupleV):
            return BoolV(len(v.items) > 0)
        if isinstance(v, ScopeV):
            d = st.decide(v.length, ">")
            return BoolV(d, (("cmp", v.length, ">"),), (("cmp", v.length, "=="),))
        if isinstance(v, StrV) and v.s is not None:
            return BoolV(bool(v.s))
        if isinstance(v, (ObjV, ParamV, TensorV, FuncV, ClassV, SemiringV, DistV)) and not isinstance(v, TensorV):
            return TRUE
        return BoolV(None)

    def stmt(self, s: ast.stmt, st: State, fr: "Frame") -> Iterator[tuple[str, V, State]]:
        try:
            yield from self._stmt(s, st, fr)
        except ShapeError as e:
            if e.node is None:
                e.node = s
            if not e.where:
                e.where = f"{fr.fi.module.relpath}:{getattr(e.node, 'lineno', getattr(s, 'lineno', 0))} {fr.fi.qualname}"
                e.lits = list(st.assumed)
            raise

    def _stmt(self, s: ast.stmt, st: State, fr: "Frame") -> Iterator[tuple[str, V, State]]:
        if isinstance(s, ast.Return):
            if s.value is None:
                yield "return", NONE, st
            else:
                for v, s2 in self.ev(s.value, st, fr):
                    yield "return", v, s2
        elif isinstance(s, ast.Expr):
            for _, s2 in self.ev(s.value, st, fr):
                yield "fall", NONE, s2
        elif isinstance(s, (ast.Assign, ast.AnnAssign, ast.AugAssign)):
            if isinstance(s, ast.AnnAssign) and s.value is None:
                yield "fall", NONE, st
                return
            if isinstance(s, ast.AugAssign):
                value_expr: ast.expr = ast.BinOp(left=_load(s.target), op=s.op, right=s.value)
                ast.copy_location(value_expr, s)
                ast.fix_missing_locations(value_expr)
                targets = [s.target]
            elif isinstance(s, ast.AnnAssign):
                value_expr, targets = s.value, [s.target]
            else:
                value_expr, targets = s.value, s.targets
            for v, s2 in self.ev(value_expr, st, fr):
                states = [s2]
                for t in targets:
                    nxt = []
                    for s3 in states:
                        nxt.extend(self.assign(t, v, s3, fr))
                    states = nxt
                for s3 in states:
                    yield "fall", NONE, s3
        elif isinstance(s, ast.If):
            for cv, s2 in self.ev(s.test, st, fr):
                for tv, s3 in self.branch(cv, s2, s.test, fr):
                    yield from self.block(s.body if tv else s.orelse, s3, fr)
        elif isinstance(s, ast.Assert):
            for cv, s2 in self.ev(s.test, st, fr):
                t = self._strict(self.truth(cv, s2), s2, s.test, fr)
                if t.val is False:
                    yield "raise", NONE, s2
                    continue
                if t.val is None:
                    if not all(s2.assume(l) for l in t.tlits):
                        yield "raise", NONE, s2
                        continue
                yield "fall", NONE, s2
        elif isinstance(s, ast.Raise):
            if self.strict and fr.depth >= 1 and len(self.strict_raises) < 20:
                self.strict_raises.append(f"{fr.fi.module.relpath}:{s.lineno} {fr.fi.qualname}" + (f" under {st.assumed[-1]}" if st.assumed else ""))
            yield "raise", NONE, st
        elif isinstance(s, ast.Pass):
            yield "fall", NONE, st
        elif isinstance(s, ast.For):
            yield from self.for_loop(s, st, fr)
        elif isinstance(s, ast.While):
            for n in ast.walk(s):
                if isinstance(n, ast.Name) and isinstance(n.ctx, ast.Store):
                    st.env[n.id] = self.unk("assigned in while loop")
            yield "fall", NONE, st
        elif isinstance(s, ast.With):
            yield from self.block(s.body, st, fr)
        elif isinstance(s, ast.Try):
            for kind, v, s2 in self.block(s.body, st, fr):
                if kind == "fall":
                    yield from self.block(s.orelse + s.finalbody, s2, fr)
                elif kind == "raise":
                    continue  # handlers are not modelled
                else:
                    yield kind, v, s2
        elif isinstance(s, ast.Break):
            yield "break", NONE, st
        elif isinstance(s, ast.Continue):
            yield "continue", NONE, st
        elif isinstance(s, (ast.FunctionDef, ast.ClassDef)):
            if isinstance(s, ast.FunctionDef):
                st.env[s.name] = LambdaV(_as_lambda(s), tuple(st.env.items()), fr.fi.module, fr.fi.cls)
            yield "fall", NONE, st
        elif isinstance(s, ast.Delete):
            for t in s.targets:
                if isinstance(t, ast.Subscript) and isinstance(t.value, ast.Name):
                    cur = st.env.get(t.value.id)
                    done = False
                    if isinstance(cur, TupleV):
                        for iv, s2 in self.ev_index(t.slice, st, fr):
                            if isinstance(iv, IntV) and (i := s2.norm(iv.d).as_int()) is not None and -len(cur.items) <= i < len(cur.items):
                                items = list(cur.items)
                                del items[i]
                                st.env[t.value.id] = TupleV(tuple(items), cur.kind)
                                done = True
                            break
                    if not done:
                        st.env[t.value.id] = self.unk("del of an unresolved element")
                elif isinstance(t, ast.Name):
                    st.env.pop(t.id, None)
            yield "fall", NONE, st
        elif isinstance(s, (ast.Import, ast.ImportFrom, ast.Global, ast.Nonlocal)):
            yield "fall", NONE, st
        elif isinstance(s, ast.Match):
            for n in ast.walk(s):
                if isinstance(n, ast.Name) and isinstance(n.ctx, ast.Store):
                    st.env[n.id] = self.unk("assigned in match")
            yield "fall", NONE, st
        else:
            yield "fall", NONE, st

    def for_loop(self, s: ast.For, st: State, fr: "Frame") -> Iterator[tuple[str, V, State]]:
        for itv, s2 in self.ev(s.iter, st, fr):
            if isinstance(itv, ScopeV) and itv.length.as_int() is None:
                itv = SeqV(IntV(Dim.sym("var")), itv.length)
            items = self.iter_items(itv)
            if items is not None:
                if len(items) > MAX_UNROLL:
                    self._havoc(s, s2)
                    yield "fall", NONE, s2
                    continue
                yield from self._unroll(s, items, 0, s2, fr)
            elif isinstance(itv, SeqV):
                # a sequence that may be empty: the loop may not run at all
                if s2.decide(itv.length, ">") is not True:
                    s0 = s2.copy()
                    if s0.assume(("cmp", itv.length, "==")):
                        yield from self.block(s.orelse, s0, fr)
                # run the body to a shape fixpoint (twice is enough for a shape-stable body); the first
                # run is under "there is at least one element", the second under "at least two"
                done = False
                s2b = s2.copy()
                if not s2b.assume(("cmp", itv.length, ">")):
                    continue  # provably empty: only the zero-iteration path above exists
                for s3 in self.assign(s.target, itv.elem, s2b, fr):
                    for kind, v, s4 in self.block(s.body, s3, fr):
                        if kind in ("return", "raise"):
                            continue
                        before = {k: self._shape_key(vv, s4) for k, vv in s4.env.items()}
                        s4b = s4.copy()
                        if not s4b.assume(("cmp", itv.length - Dim.const(1), ">")):
                            done = True
                            yield "fall", NONE, s4  # exactly one element
                            continue
                        for s5 in self.assign(s.target, itv.elem, s4b, fr):
                            for kind2, v2, s6 in self.block(s.body, s5, fr):
                                if kind2 in ("return", "raise"):
                                    continue
                                for k, vv in list(s6.env.items()):
                                    if before.get(k) != self._shape_key(vv, s6):
                                        s6.env[k] = self.unk(f"loop variable {k} not shape-stable")
                                done = True
                                yield "fall", NONE, s6
                if not done:
                    self._havoc(s, s2)
                    yield "fall", NONE, s2
            else:
                self._havoc(s, s2)
                yield "fall", NONE, s2

    def _shape_key(self, v: V, st: State) -> Any:
        if isinstance(v, TensorV):
            return ("T", st.norm_shape(v.shape))
        if isinstance(v, IntV):
            return ("I", st.norm(v.d))
        return v

    def _havoc(self, s: ast.For, st: State) -> None:
        for n in ast.walk(s):
            if isinstance(n, ast.Name) and isinstance(n.ctx, ast.Store):
                st.env[n.id] = self.unk("assigned in a loop over an unknown iterable")

    def _unroll(self, s: ast.For, items: list[V], i: int, st: State, fr: "Frame") -> Iterator[tuple[str, V, State]]:
        if i >= len(items):
            yield from self.block(s.orelse, st, fr)
            return
        for s2 in self.assign(s.target, items[i], st, fr):
            for kind, v, s3 in self.block(s.body, s2, fr):
                if kind in ("fall", "continue"):
                    yield from self._unroll(s, items, i + 1, s3, fr)
                elif kind == "break":
                    yield "fall", NONE, s3
                else:
                    yield kind, v, s3

    def iter_items(self, v: V) -> list[V] | None:
        if isinstance(v, TupleV):
            return list(v.items)
        if isinstance(v, DictV):
            return [k for k, _ in v.items]
        if isinstance(v, ScopeV):
            n = v.length.as_int()
            if n is not None and n <= MAX_UNROLL:
                return [IntV(Dim.sym(f"var{i}")) for i in range(n)]
        return None

    def assign(self, target: ast.AST, v: V, st: State, fr: "Frame") -> list[State]:
        if isinstance(target, ast.Name):
            st.env[target.id] = v
            return [st]
        if isinstance(target, (ast.Tuple, ast.List)):
            items = self.iter_items(v)
            if items is None and isinstance(v, TensorV) and v.shape:
                n = v.shape[0].as_int()
                if n is not None and n <= MAX_UNROLL:
                    items = [TensorV(v.shape[1:], v.dtype)] * n
            star = [i for i, e in enumerate(target.elts) if isinstance(e, ast.Starred)]
            if items is None and isinstance(v, SeqV) and len(star) == 1:
                # first, *rest = <sequence of symbolic length>: the fixed targets take one element each
                fixed = len(target.elts) - 1
                rest = SeqV(v.elem, st.norm(v.length - Dim.const(fixed)))
                states = [st]
                for i, e in enumerate(target.elts):
                    nxt = []
                    for s2 in states:
                        nxt.extend(self.assign(e.value if isinstance(e, ast.Starred) else e, rest if i == star[0] else v.elem, s2, fr))
                    states = nxt
                return states
            if items is None or (not star and len(items) != len(target.elts)):
                for n_ in ast.walk(target):
                    if isinstance(n_, ast.Name):
                        st.env[n_.id] = self.unk("unpacking of an unknown value")
                return [st]
            if star:
                k = star[0]
                after = len(target.elts) - k - 1
                parts = items[:k] + [TupleV(tuple(items[k : len(items) - after]), "list")] + items[len(items) - after :]
                elts = [e.value if isinstance(e, ast.Starred) else e for e in target.elts]
            else:
                parts, elts = items, list(target.elts)
            states = [st]
            for e, pv in zip(elts, parts):
                nxt = []
                for s2 in states:
                    nxt.extend(self.assign(e, pv, s2, fr))
                states = nxt
            return states
        if isinstance(target, ast.Attribute):
            outs = []
            for ov, s2 in self.ev(target.value, st, fr):
                if isinstance(ov, ObjV):
                    s2.heap.setdefault(ov.oid, {})[target.attr] = v
                outs.append(s2)
            return outs
        if isinstance(target, ast.Subscript):
            outs = []
            for ov, s2 in self.ev(target.value, st, fr):
                for iv, s3 in self.ev_index(target.slice, s2, fr):
                    if isinstance(ov, TensorV):
                        self.ops.setitem(self, ov, iv, v, s3, target)
                    elif isinstance(ov, DictV) and isinstance(target.value, ast.Name):
                        s3.env[target.value.id] = DictV(tuple((k, x) for k, x in ov.items if k != iv) + ((iv, v),))
                    outs.append(s3)
            return outs
        return [st]

    # ---- expressions
    def ev_many(self, exprs: list[ast.expr], st: State, fr: "Frame") -> Iterator[tuple[list[V], State]]:
        if not exprs:
            yield [], st
            return
        for v, s2 in self.ev(exprs[0], st, fr):
            for vs, s3 in self.ev_many(exprs[1:], s2, fr):
                yield [v] + vs, s3

    def ev(self, e: ast.expr, st: State, fr: "Frame") -> Iterator[tuple[V, State]]:
        try:
            yield from self._ev(e, st, fr)
        except ShapeError as err:
            if err.node is None:
                err.node = e
            raise

    def _ev(self, e: ast.expr, st: State, fr: "Frame") -> Iterator[tuple[V, State]]:
        if isinstance(e, ast.Constant):
            yield self.const(e.value), st
        elif isinstance(e, ast.Name):
            yield self.lookup_name(e.id, st, fr), st
        elif isinstance(e, ast.Attribute):
            for ov, s2 in self.ev(e.value, st, fr):
                yield from self.getattr(ov, e.attr, s2, fr, e)
        elif isinstance(e, (ast.Tuple, ast.List)):
            for vs, s2 in self.ev_star(e.elts, st, fr):
                if vs is None:
                    yield self.unk("star of unknown in display"), s2
                else:
                    yield TupleV(tuple(vs), "list" if isinstance(e, ast.List) else "tuple"), s2
        elif isinstance(e, ast.Dict):
            if any(k is None for k in e.keys):
                yield self.unk("dict with **"), st
                return
            for ks, s2 in self.ev_many(list(e.keys), st, fr):  # type: ignore[arg-type]
                for vs, s3 in self.ev_many(e.values, s2, fr):
                    yield DictV(tuple(zip(ks, vs))), s3
        elif isinstance(e, ast.Subscript):
            for ov, s2 in self.ev(e.value, st, fr):
                for iv, s3 in self.ev_index(e.slice, s2, fr):
                    yield self.getitem(ov, iv, s3, e), s3
        elif isinstance(e, ast.BinOp):
            for l, s2 in self.ev(e.left, st, fr):
                for r, s3 in self.ev(e.right, s2, fr):
                    yield self.binop(e.op, l, r, s3, e), s3
        elif isinstance(e, ast.UnaryOp):
            for v, s2 in self.ev(e.operand, st, fr):
                if isinstance(e.op, ast.Not):
                    t = self.truth(v, s2)
                    yield BoolV(None if t.val is None else not t.val, t.flits, t.tlits), s2
                elif isinstance(e.op, ast.USub):
                    if isinstance(v, IntV):
                        yield IntV(-v.d), s2
                    elif isinstance(v, FloatV):
                        yield FloatV(None if v.val is None else -v.val), s2
                    elif isinstance(v, TensorV):
                        yield v, s2
                    else:
                        yield self.unk("neg"), s2
                elif isinstance(e.op, ast.Invert) and isinstance(v, TensorV):
                    yield v, s2
                else:
                    yield (v if isinstance(v, (TensorV, IntV)) else self.unk("unary")), s2
        elif isinstance(e, ast.BoolOp):
            yield from self.boolop(e, 0, st, fr)
        elif isinstance(e, ast.Compare):
            yield from self.compare(e, st, fr)
        elif isinstance(e, ast.IfExp):
            for cv, s2 in self.ev(e.test, st, fr):
                for tv, s3 in self.branch(cv, s2, e.test, fr):
                    yield from self.ev(e.body if tv else e.orelse, s3, fr)
        elif isinstance(e, ast.Call):
            yield from self.ev_call(e, st, fr)
        elif isinstance(e, ast.JoinedStr):
            yield StrV(None), st
        elif isinstance(e, ast.Lambda):
            yield LambdaV(e, tuple(st.env.items()), fr.fi.module, fr.fi.cls), st
        elif isinstance(e, (ast.ListComp, ast.GeneratorExp, ast.SetComp)):
            yield from self.comprehension(e, st, fr)
        elif isinstance(e, ast.Starred):
            yield from self.ev(e.value, st, fr)
        elif isinstance(e, ast.Slice):
            for iv, s2 in self.ev_index(e, st, fr):
                yield iv, s2
        elif isinstance(e, ast.Yield):
            if e.value is None:
                fr.yields.append((NONE, st))
                yield NONE, st
            else:
                for v, s2 in self.ev(e.value, st, fr):
                    fr.yields.append((v, s2))
                    yield NONE, s2
        elif isinstance(e, ast.NamedExpr):
            for v, s2 in self.ev(e.value, st, fr):
                s2.env[e.target.id] = v
                yield v, s2
        else:
            yield self.unk(type(e).__name__), st

    def ev_star(self, elts: list[ast.expr], st: State, fr: "Frame") -> Iterator[tuple[list[V] | None, State]]:
        """evaluate a display / argument list, expanding ``*x``; None if an expansion is unknown"""
        for vs, s2 in self.ev_many(elts, st, fr):
            out: list[V] | None = []
            for el, v in zip(elts, vs):
                if isinstance(el, ast.Starred):
                    items = self.iter_items(v)
                    if items is None:
                        out = None
                        break
                    out.extend(items)
                else:
                    out.append(v)
            yield out, s2

    def boolop(self, e: ast.BoolOp, i: int, st: State, fr: "Frame") -> Iterator[tuple[V, State]]:
        last = i == len(e.values) - 1
        for v, s2 in self.ev(e.values[i], st, fr):
            if last:
                yield v, s2
                continue
            for tv, s3 in self.branch(v, s2, e.values[i], fr):
                if isinstance(e.op, ast.And):
                    if tv:
                        yield from self.boolop(e, i + 1, s3, fr)
                    else:
                        yield (v if not isinstance(v, (BoolV, TensorV, Unknown, OpaqueV)) else FALSE), s3
                else:
                    if tv:
                        yield (v if not isinstance(v, (BoolV, TensorV, Unknown, OpaqueV)) else TRUE), s3
                    else:
                        yield from self.boolop(e, i + 1, s3, fr)

    def compare(self, e: ast.Compare, st: State, fr: "Frame") -> Iterator[tuple[V, State]]:
        if len(e.ops) != 1:
            # a < b < c  ->  (a < b) and (b < c)
            parts = []
            left = e.left
            for op, right in zip(e.ops, e.comparators):
                parts.append(ast.copy_location(ast.Compare(left=left, ops=[op], comparators=[right]), e))
                left = right
            yield from self.boolop(ast.copy_location(ast.BoolOp(op=ast.And(), values=parts), e), 0, st, fr)
            return
        op = e.ops[0]
        for l, s2 in self.ev(e.left, st, fr):
            for r, s3 in self.ev(e.comparators[0], s2, fr):
                yield self.cmp(op, l, r, s3), s3

    def cmp(self, op: ast.cmpop, l: V, r: V, st: State) -> V:
        name = type(op).__name__
        if name in ("Is", "IsNot"):
            if isinstance(l, NoneV) or isinstance(r, NoneV):
                other = r if isinstance(l, NoneV) else l
                if isinstance(other, Unknown):
                    return BoolV(None)
                res = isinstance(other, NoneV)
                return BoolV(res if name == "Is" else not res)
            if isinstance(l, (SemiringV, ClassV)) and isinstance(r, (SemiringV, ClassV)):
                return BoolV(None)
            return BoolV(None)
        if name in ("In", "NotIn"):
            items = self.iter_items(r)
            if items is not None and isinstance(l, IntV):
                if all(isinstance(x, IntV) for x in items):
                    ds = [st.decide(l.d - x.d, "==") for x in items]  # type: ignore[union-attr]
                    if any(d is True for d in ds):
                        return BoolV(name == "In")
                    if all(d is False for d in ds):
                        return BoolV(name != "In")
            if items is not None and isinstance(l, StrV) and l.s is not None and all(isinstance(x, StrV) and x.s is not None for x in items):
                res = any(x.s == l.s for x in items)  # type: ignore[union-attr]
                return BoolV(res if name == "In" else not res)
            return BoolV(None)
        sym = {"Eq": "==", "NotEq": "!=", "Lt": "<", "LtE": "<=", "Gt": ">", "GtE": ">="}[name]
        if isinstance(l, TensorV) or isinstance(r, TensorV):
            return self.ops.broadcast_values(self, [l, r], st, "bool")
        if isinstance(l, IntV) and isinstance(r, IntV):
            p = l.d - r.d
            d = st.decide(p, sym)
            neg = {"==": "!=", "!=": "==", ">": "<=", ">=": "<", "<": ">=", "<=": ">"}[sym]
            return BoolV(d, (("cmp", p, sym),), (("cmp", p, neg),))
        if isinstance(l, FloatV) or isinstance(r, FloatV):
            lv = l.val if isinstance(l, FloatV) else (l.d.as_int() if isinstance(l, IntV) else None)
            rv = r.val if isinstance(r, FloatV) else (r.d.as_int() if isinstance(r, IntV) else None)
            if lv is not None and rv is not None:
                return BoolV({"==": lv == rv, "!=": lv != rv, "<": lv < rv, "<=": lv <= rv, ">": lv > rv, ">=": lv >= rv}[sym])
            return BoolV(None)
        if sym in ("==", "!="):
            res = self.equal(l, r, st)
            if sym == "!=":
                res = BoolV(None if res.val is None else not res.val, res.flits, res.tlits)
            return res
        return BoolV(None)

    def equal(self, l: V, r: V, st: State) -> BoolV:
        if isinstance(l, UnboundShape):
            l = self.param_shape(l.pid, st)
        if isinstance(r, UnboundShape):
            r = self.param_shape(r.pid, st)
        if isinstance(l, UnboundShape) or isinstance(r, UnboundShape):
            ub, other = (l, r) if isinstance(l, UnboundShape) else (r, l)
            if isinstance(other, TupleV):
                return BoolV(None, (("bind", ub.pid, other),), ())  # type: ignore[union-attr]
            return BoolV(None)
        if isinstance(l, TupleV) and isinstance(r, TupleV):
            if len(l.items) != len(r.items):
                return FALSE
            lits: list = []
            allt = True
            for a, b in zip(l.items, r.items):
                x = self.equal(a, b, st)
                if x.val is False:
                    return FALSE
                if x.val is None:
                    allt = False
                    lits.extend(x.tlits)
            return BoolV(True if allt else None, tuple(lits), ())
        if isinstance(l, IntV) and isinstance(r, IntV):
            p = l.d - r.d
            return BoolV(st.decide(p, "=="), (("cmp", p, "=="),), (("cmp", p, "!="),))
        if isinstance(l, NoneV) and isinstance(r, NoneV):
            return TRUE
        if isinstance(l, StrV) and isinstance(r, StrV) and l.s is not None and r.s is not None:
            return BoolV(l.s == r.s)
        if isinstance(l, BoolV) and isinstance(r, BoolV) and l.val is not None and r.val is not None:
            return BoolV(l.val == r.val)
        if isinstance(l, NoneV) != isinstance(r, NoneV) and not is_unknown(l) and not is_unknown(r):
            return FALSE
        return BoolV(None)

    def lookup_name(self, name: str, st: State, fr: "Frame") -> V:
        if name in st.env:
            return st.env[name]
        return self.global_name(name, fr.fi.module)

    def global_name(self, name: str, mod: ModuleInfo) -> V:
        if name in ("True", "False"):
            return BoolV(name == "True")
        if name in PY_BUILTINS:
            return BuiltinV(name)
        full = None
        try:
            full = self.repo.resolve(mod, name)
        except Exception:
            full = None
        if full:
            full = self.repo.canonical(full)
            if full in self.repo.classes:
                c = self.repo.classes[full]
                if any(k.qualname == "cirkit.backend.torch.semiring.SemiringImpl" for k in self.repo.mro(c)):
                    return SemiringV(c.name)
                return ClassV(c)
            if full in self.repo.functions:
                return FuncV(self.repo.functions[full])
            root = full.split(".")[0]
            if root in EXT_ROOTS:
                return BuiltinV(EXT_ALIASES.get(full, full))
            # module-level constant of the same module
            m2name, _, attr = full.rpartition(".")
            m2 = self.repo.modules.get(m2name)
            if m2 is not None:
                for s in m2.tree.body:
                    if isinstance(s, ast.Assign) and len(s.targets) == 1 and isinstance(s.targets[0], ast.Name) and s.targets[0].id == attr and isinstance(s.value, ast.Constant):
                        return self.const(s.value.value)
        return self.unk(f"name {name}")

    # ---- attribute access
    def getattr(self, ov: V, attr: str, st: State, fr: "Frame", node: ast.AST | None = None) -> Iterator[tuple[V, State]]:
        if isinstance(ov, ObjV):
            fields = st.heap.get(ov.oid, {})
            if attr in fields:
                yield fields[attr], st
                return
            if attr == "__class__":
                yield ClassV(ov.cls), st
                return
            fi = self.repo.lookup(ov.cls, attr)
            if fi is not None:
                if fi.is_property or "cached_property" in " ".join(fi.decorators):
                    yield from self.call(fi, [], {}, st, selfv=ov, depth=fr.depth + 1)
                    return
                if fi.is_static:
                    yield FuncV(fi, None, fi.cls), st
                elif fi.is_classmethod:
                    yield FuncV(fi, ClassV(ov.cls), fi.cls), st
                else:
                    yield FuncV(fi, ov, fi.cls), st
                return
            if attr in NN_MODULE_METHODS:
                yield BuiltinV("nn.Module." + attr, ov), st
                return
            yield self.unk(f"attribute {ov.cls.name}.{attr}"), st
            return
        if isinstance(ov, TensorV):
            yield self.ops.tensor_attr(self, ov, attr, st), st
            return
        if isinstance(ov, ParamV):
            h = st.heap.get(ov.pid, {})
            if attr == "shape":
                yield self.param_shape(ov.pid, st), st
            elif attr == "num_folds":
                yield h.get("folds", mkint(Dim.sym("F"))), st
            elif attr in ("device", "dtype"):
                yield OpaqueV(attr), st
            elif attr in ("reset_parameters",):
                yield BuiltinV("noop"), st
            elif attr in ("ref", "copyref"):
                yield BuiltinV("model.Parameter.ref", ov), st
            elif attr in ("node_inputs", "subgraph"):
                yield BuiltinV("model.TorchParameter." + attr, ov), st
            elif attr == "outputs" and isinstance(h.get("op"), ObjV):
                yield TupleV((h["op"],), "list"), st
            else:
                yield self.unk(f"param attribute {attr}"), st
            return
        if isinstance(ov, SemiringV):
            yield BuiltinV("semiring." + attr, ov), st
            return
        if isinstance(ov, ClassV):
            if ov.cls is not None and ov.cls.qualname in MODELLED_CLASSES:
                yield BuiltinV(f"model.{ov.cls.name}.{attr}"), st
                return
            if ov.cls is not None:
                fi = self.repo.lookup(ov.cls, attr)
                if fi is not None:
                    if fi.is_classmethod:
                        yield FuncV(fi, ov, fi.cls), st
                    else:
                        yield FuncV(fi, None, fi.cls), st
                    return
                if attr == "__name__":
                    yield StrV(ov.cls.name), st
                    return
            yield self.unk(f"class attribute {attr}"), st
            return
        if isinstance(ov, BuiltinV) and ov.bound is None:
            full = ov.name + "." + attr
            yield BuiltinV(EXT_ALIASES.get(full, full)), st
            return
        if isinstance(ov, DistV):
            yield BuiltinV("dist." + attr, ov), st
            return
        if isinstance(ov, (TupleV, DictV, StrV, IntV, FloatV, SeqV, ScopeV)):
            yield BuiltinV("py." + attr, ov), st
            return
        if isinstance(ov, OpaqueV):
            yield OpaqueV(ov.what + "." + attr), st
            return
        if isinstance(ov, UnboundShape):
            yield self.unk("attribute of an unbound parameter shape"), st
            return
        yield self.unk(f"attribute {attr} of {type(ov).__name__}"), st

    def param_shape(self, pid: int, st: State) -> V:
        """the shape of a parameter placeholder: bound tuple, or -- once a guard fixed its rank --
        a tuple of fresh size symbols, or still unbound"""
        h = st.heap.setdefault(pid, {})
        shp = h.get("shape", UnboundShape(pid))
        if isinstance(shp, UnboundShape):
            r = st.norm(Dim.sym(f"rank#{pid}")).as_int()
            if r is not None and 0 <= r <= 6:
                shp = TupleV(tuple(IntV(Dim.sym(f"p{pid}_{i}")) for i in range(r)))
                h["shape"] = shp
        return shp

    # ---- subscripts
    def ev_index(self, sl: ast.expr, st: State, fr: "Frame") -> Iterator[tuple[V, State]]:
        if isinstance(sl, ast.Slice):
            parts = [sl.lower, sl.upper, sl.step]
            exprs = [p for p in parts if p is not None]
            for vs, s2 in self.ev_many(exprs, st, fr):
                it = iter(vs)
                vals = tuple(next(it) if p is not None else NONE for p in parts)
                yield TupleV(vals, "slice"), s2
        elif isinstance(sl, ast.Tuple):
            def rec(i: int, st_: State) -> Iterator[tuple[list[V], State]]:
                if i == len(sl.elts):
                    yield [], st_
                    return
                for v, s2 in self.ev_index(sl.elts[i], st_, fr):
                    for rest, s3 in rec(i + 1, s2):
                        yield [v] + rest, s3

            for vs, s2 in rec(0, st):
                yield TupleV(tuple(vs), "index"), s2
        else:
            yield from self.ev(sl, st, fr)

    def getitem(self, ov: V, iv: V, st: State, node: ast.AST) -> V:
        if isinstance(ov, TensorV):
            return self.ops.getitem(self, ov, iv, st, node)
        if isinstance(ov, TupleV) and ov.kind in ("tuple", "list"):
            n = len(ov.items)
            if isinstance(iv, IntV):
                i = st.norm(iv.d).as_int()
                if i is None:
                    return self.unk("tuple index symbolic")
                if -n <= i < n:
                    return ov.items[i]
                raise ShapeError(f"index {i} out of range for a tuple of length {n}", node)
            if isinstance(iv, TupleV) and iv.kind == "slice":
                b = [self._slice_int(x, st) for x in iv.items]
                if any(x == "?" for x in b):
                    return self.unk("tuple slice symbolic")
                return TupleV(tuple(ov.items[slice(*b)]), ov.kind)
            return self.unk("tuple index")
        if isinstance(ov, DictV):
            for k, v in ov.items:
                if k == iv:
                    return v
            return self.unk("dict key")
        if isinstance(ov, SeqV) and isinstance(iv, IntV):
            return ov.elem
        if isinstance(ov, UnboundShape):
            shp = self.param_shape(ov.pid, st)
            if isinstance(shp, TupleV):
                return self.getitem(shp, iv, st, node)
            return self.unk("index of unbound shape")
        return self.unk(f"subscript of {type(ov).__name__}")

    def _slice_int(self, x: V, st: State) -> Any:
        if isinstance(x, NoneV):
            return None
        if isinstance(x, IntV):
            i = st.norm(x.d).as_int()
            return "?" if i is None else i
        return "?"

    # ---- arithmetic
    def binop(self, op: ast.operator, l: V, r: V, st: State, node: ast.AST) -> V:
        if is_unknown(l) or is_unknown(r):
            return self.unk("arith on unknown")
        if isinstance(l, TensorV) or isinstance(r, TensorV):
            if isinstance(op, ast.MatMult):
                return self.ops.matmul(self, l, r, st, node)
            if isinstance(op, ast.Mult):
                self.ops.note_ramp_product(self, l, r, st, node)
            return self.ops.broadcast_values(self, [l, r], st, None, node)
        if isinstance(l, IntV) and isinstance(r, IntV):
            a, b = st.norm(l.d), st.norm(r.d)
            if isinstance(op, ast.Add):
                return IntV(a + b)
            if isinstance(op, ast.Sub):
                return IntV(a - b)
            if isinstance(op, ast.Mult):
                return IntV(a * b)
            if isinstance(op, ast.Pow):
                n = b.as_int()
                if n is not None and 0 <= n <= 6:
                    return IntV(a**n)
                return IntV(self.opaque("pow", a, b))
            if isinstance(op, ast.FloorDiv):
                q = a.divide(b)
                if q is not None:
                    return IntV(q)
                ai, bi = a.as_int(), b.as_int()
                if ai is not None and bi:
                    return mkint(ai // bi)
                return IntV(self.opaque("floordiv", a, b))
            if isinstance(op, ast.Mod):
                ai, bi = a.as_int(), b.as_int()
                if ai is not None and bi:
                    return mkint(ai % bi)
                if a.divide(b) is not None:
                    return mkint(0)
                return IntV(self.opaque("mod", a, b))
            if isinstance(op, ast.Div):
                return FloatV(None)
            return self.unk("int op")
        if isinstance(l, (IntV, FloatV)) and isinstance(r, (IntV, FloatV)):
            return FloatV(None)
        if isinstance(l, TupleV) and isinstance(r, TupleV) and isinstance(op, ast.Add) and l.kind in ("tuple", "list") and r.kind in ("tuple", "list"):
            return TupleV(l.items + r.items, l.kind)
        if isinstance(l, TupleV) and isinstance(r, IntV) and isinstance(op, ast.Mult):
            n = r.d.as_int()
            if n is not None and 0 <= n <= MAX_UNROLL:
                return TupleV(l.items * n, l.kind)
        if isinstance(l, StrV) or isinstance(r, StrV):
            return StrV(None)
        if isinstance(l, BoolV) and isinstance(r, BoolV) and isinstance(op, (ast.BitXor, ast.BitAnd, ast.BitOr)):
            if l.val is not None and r.val is not None:
                f = {ast.BitXor: lambda a, b: a ^ b, ast.BitAnd: lambda a, b: a & b, ast.BitOr: lambda a, b: a | b}[type(op)]
                return BoolV(f(l.val, r.val))
            return BoolV(None)
        return self.unk(f"binop {type(op).__name__} on {type(l).__name__},{type(r).__name__}")

    def opaque(self, fn: str, a: Dim, b: Dim) -> Dim:
        name = f"{fn}({a!r},{b!r})"
        OPAQUES[name] = (fn, a, b)
        return Dim.sym(name)

    # ---- calls
    LIST_MUTATORS = {"append", "extend", "insert", "pop", "reverse", "clear", "remove", "sort", "update", "setdefault", "add", "discard", "popitem"}

    def _mutate_local(self, e: ast.Call, st: State, fr: "Frame") -> Iterator[tuple[V, State]] | None:
        """``name.append(x)`` and friends on a local list: performed on the abstract list when the
        arguments are resolved, otherwise the local becomes Unknown (never silently unchanged)"""
        f = e.func
        if not (isinstance(f, ast.Attribute) and isinstance(f.value, ast.Name) and f.attr in self.LIST_MUTATORS):
            return None
        name = f.value.id
        cur = st.env.get(name)
        if not isinstance(cur, (TupleV, DictV)):
            return None

        def gen() -> Iterator[tuple[V, State]]:
            for args, s2 in self.ev_star(e.args, st, fr):
                cur2 = s2.env.get(name)
                res: V = NONE
                new: V | None = None
                if isinstance(cur2, TupleV) and cur2.kind in ("list", "gen", "tuple") and args is not None and not e.keywords:
                    items = list(cur2.items)
                    m = f.attr
                    if m == "append" and len(args) == 1:
                        new = TupleV(tuple(items + [args[0]]), "list")
                    elif m == "extend" and len(args) == 1 and self.iter_items(args[0]) is not None:
                        new = TupleV(tuple(items + self.iter_items(args[0])), "list")  # type: ignore[operator]
                    elif m == "insert" and len(args) == 2 and isinstance(args[0], IntV) and (i := s2.norm(args[0].d).as_int()) is not None:
                        items.insert(i, args[1])
                        new = TupleV(tuple(items), "list")
                    elif m == "pop" and (not args or (isinstance(args[0], IntV) and s2.norm(args[0].d).as_int() is not None)) and items:
                        i = -1 if not args else s2.norm(args[0].d).as_int()  # type: ignore[union-attr]
                        if -len(items) <= i < len(items):
                            res = items.pop(i)
                            new = TupleV(tuple(items), "list")
                    elif m == "reverse" and not args:
                        new = TupleV(tuple(reversed(items)), "list")
                    elif m == "clear" and not args:
                        new = TupleV((), "list")
                s2.env[name] = new if new is not None else self.unk(f"local {name} mutated by .{f.attr}(..)")
                yield (res if new is not None else self.unk("result of an untracked mutation")), s2

        return gen()

    def ev_call(self, e: ast.Call, st: State, fr: "Frame") -> Iterator[tuple[V, State]]:
        mut = self._mutate_local(e, st, fr)
        if mut is not None:
            yield from mut
            return
        # super().__init__(...) and super().method(...)
        if isinstance(e.func, ast.Attribute) and isinstance(e.func.value, ast.Call) and isinstance(e.func.value.func, ast.Name) and e.func.value.func.id == "super":
            yield from self.super_call(e, st, fr)
            return
        for fv, s2 in self.ev(e.func, st, fr):
            for args, s3 in self.ev_star(e.args, s2, fr):
                kwexprs = [k.value for k in e.keywords]
                for kvs, s4 in self.ev_many(kwexprs, s3, fr):
                    if args is None:
                        yield self.unk("call with *unknown"), s4
                        continue
                    kwargs: dict[str, V] = {}
                    bad = False
                    for k, v in zip(e.keywords, kvs):
                        if k.arg is None:
                            if isinstance(v, DictV) and all(isinstance(kk, StrV) and kk.s is not None for kk, _ in v.items):
                                for kk, vv in v.items:
                                    kwargs[kk.s] = vv  # type: ignore[union-attr,index]
                            else:
                                bad = True
                        else:
                            kwargs[k.arg] = v
                    if bad:
                        yield self.unk("call with **unknown"), s4
                        continue
                    yield from self.apply(fv, args, kwargs, s4, fr, e)

    def super_call(self, e: ast.Call, st: State, fr: "Frame") -> Iterator[tuple[V, State]]:
        meth = e.func.attr  # type: ignore[union-attr]
        selfv = st.env.get("self") or st.env.get("cls")
        owner = fr.fi.cls
        sup_args = e.func.value.args  # type: ignore[union-attr]
        start_after = owner
        if len(sup_args) == 2 and owner is not None:
            # super(nn.Module, self) and the like: skip to after the named class
            try:
                c = self.repo.get_class(fr.fi.module, sup_args[0])
            except Exception:
                c = None
            if c is None:
                for _, s2 in self.ev_many(list(e.args) + [k.value for k in e.keywords], st, fr):
                    yield NONE, s2
                return
            start_after = c
        if not isinstance(selfv, (ObjV, ClassV)) or owner is None:
            yield self.unk("super() outside a method"), st
            return
        cls = selfv.cls if isinstance(selfv, ObjV) else selfv.cls
        target = self.repo.lookup_after(cls, start_after, meth) if cls is not None else None
        for args, s2 in self.ev_star(e.args, st, fr):
            for kvs, s3 in self.ev_many([k.value for k in e.keywords], s2, fr):
                if args is None:
                    yield self.unk("super call with *unknown"), s3
                    continue
                kwargs = {k.arg: v for k, v in zip(e.keywords, kvs) if k.arg is not None}
                if target is None:
                    # external base (nn.Module, ABC, object): no effect on shapes
                    yield NONE, s3
                    continue
                bound = selfv if not target.is_static else None
                yield from self.call(target, args, kwargs, s3, selfv=bound, depth=fr.depth + 1)

    def apply(self, fv: V, args: list[V], kwargs: dict[str, V], st: State, fr: "Frame", node: ast.AST) -> Iterator[tuple[V, State]]:
        if isinstance(fv, FuncV) and fv.fi is not None:
            bound = fv.bound
            yield from self.call(fv.fi, args, kwargs, st, selfv=bound, depth=fr.depth + 1)
            return
        if isinstance(fv, LambdaV):
            yield from self.call_lambda(fv, args, kwargs, st, fr)
            return
        if isinstance(fv, ParamV):
            h = st.heap.get(fv.pid, {})
            if isinstance(h.get("tensor"), TensorV):
                yield h["tensor"], st
                return
            shp = self.param_shape(fv.pid, st)
            folds = h.get("folds")
            if isinstance(shp, TupleV) and all(isinstance(x, IntV) for x in shp.items) and isinstance(folds, IntV):
                from .layout import fresh_axis, placeholder

                dims = (st.norm(folds.d),) + tuple(st.norm(x.d) for x in shp.items)  # type: ignore[union-attr]
                lay = (fresh_axis(dims[0]),) + tuple(placeholder(fv.name or f"p{fv.pid}", k, d) for k, d in enumerate(dims[1:]))
                yield TensorV(dims, "float", lay), st
            else:
                yield self.unk(f"parameter {fv.name} with unbound shape"), st
            return
        if isinstance(fv, ObjV):
            callm = self.repo.lookup(fv.cls, "forward")
            if callm is not None and not callm.is_abstract:
                yield from self.call(callm, args, kwargs, st, selfv=fv, depth=fr.depth + 1)
            else:
                yield self.unk(f"call of object {fv.cls.name}"), st
            return
        if isinstance(fv, ClassV):
            yield from self.construct(fv, args, kwargs, st, fr, node)
            return
        if isinstance(fv, VmapV):
            yield self.ops.apply_vmap(self, fv, args, kwargs, st, fr, node), st
            return
        if isinstance(fv, BuiltinV):
            yield from self.ops.call_builtin(self, fv, args, kwargs, st, fr, node)
            return
        if isinstance(fv, SemiringV):
            yield self.unk("semiring instantiation"), st
            return
        yield self.unk(f"call of {type(fv).__name__}"), st

    def call_lambda(self, lv: LambdaV, args: list[V], kwargs: dict[str, V], st: State, fr: "Frame") -> Iterator[tuple[V, State]]:
        a = lv.node.args
        env = dict(lv.env)
        pos = list(a.posonlyargs) + list(a.args)
        for i, p in enumerate(pos):
            if i < len(args):
                env[p.arg] = args[i]
            elif p.arg in kwargs:
                env[p.arg] = kwargs[p.arg]
            else:
                di = i - (len(pos) - len(a.defaults))
                env[p.arg] = self.const_default(a.defaults[di]) if di >= 0 else self.unk("missing lambda arg")
        if a.vararg is not None:
            env[a.vararg.arg] = TupleV(tuple(args[len(pos):]))
        for p, d in zip(a.kwonlyargs, a.kw_defaults):
            env[p.arg] = kwargs.get(p.arg, self.const_default(d) if d is not None else self.unk("missing kw"))
        s2 = st.with_env(env)
        env0 = dict(st.env)
        body = lv.node.body
        if isinstance(body, list):  # a nested def turned into a LambdaV
            fi = fr.fi
            sub = Frame(fi, fr.depth + 1)
            for kind, v, s3 in self.block(body, s2, sub):
                if kind == "raise":
                    continue
                out = st.with_env(dict(env0))
                out.heap, out.subst, out.lits, out.assumed = s3.heap, s3.subst, s3.lits, s3.assumed
                yield (v if kind == "return" else NONE), out
            return
        for v, s3 in self.ev(body, s2, fr):
            out = st.with_env(dict(env0))
            out.heap, out.subst, out.lits, out.assumed = s3.heap, s3.subst, s3.lits, s3.assumed
            yield v, out

    def construct(self, cv: ClassV, args: list[V], kwargs: dict[str, V], st: State, fr: "Frame", node: ast.AST | None = None) -> Iterator[tuple[V, State]]:
        if cv.cls is None:
            yield self.unk(f"construct external {cv.ext}"), st
            return
        c = cv.cls
        obj = new_obj(st, c)
        init = self.repo.lookup(c, "__init__")
        if init is None:
            yield obj, st
            return
        depth = fr.depth + 1 if fr is not None else 0
        for _, s2 in self.call(init, args, kwargs, st, selfv=obj, depth=depth):
            yield obj, s2

    # ---- comprehensions
    def comprehension(self, e: ast.ListComp | ast.GeneratorExp | ast.SetComp, st: State, fr: "Frame") -> Iterator[tuple[V, State]]:
        results: list[tuple[list[V], State]] = [([], st.with_env(dict(st.env)))]
        ok = True

        def gen(gi: int, s_: State) -> Iterator[tuple[list[V], State]]:
            nonlocal ok
            if gi == len(e.generators):
                for v, s2 in self.ev(e.elt, s_, fr):
                    yield [v], s2
                return
            g = e.generators[gi]
            for itv, s2 in self.ev(g.iter, s_, fr):
                items = self.iter_items(itv)
                if items is None and isinstance(itv, SeqV):
                    ok = False
                    self._seq_elem = itv
                    return
                if items is None or len(items) > 4 * MAX_UNROLL:
                    ok = False
                    return
                acc: list[tuple[list[V], State]] = [([], s2)]
                for it in items:
                    nxt: list[tuple[list[V], State]] = []
                    for sofar, s3 in acc:
                        for s4 in self.assign(g.target, it, s3, fr):
                            conds: list[tuple[bool, State]] = [(True, s4)]
                            for cnd in g.ifs:
                                nc: list[tuple[bool, State]] = []
                                for keep, s5 in conds:
                                    if not keep:
                                        nc.append((False, s5))
                                        continue
                                    for cvv, s6 in self.ev(cnd, s5, fr):
                                        t = self.truth(cvv, s6)
                                        if t.val is None:
                                            ok = False
                                        nc.append((bool(t.val), s6))
                                conds = nc
                            for keep, s5 in conds:
                                if keep:
                                    for vs, s6 in gen(gi + 1, s5):
                                        nxt.append((sofar + vs, s6))
                                else:
                                    nxt.append((sofar, s5))
                    acc = nxt
                    if len(acc) > 8:
                        ok = False
                        return
                yield from acc

        inner = st.with_env(dict(st.env))
        outs = list(gen(0, inner))
        if not ok or not outs:
            # homogeneous comprehension over a symbolic-length sequence
            se = getattr(self, "_seq_elem", None)
            self._seq_elem = None
            if se is not None and len(e.generators) == 1 and not e.generators[0].ifs:
                inner2 = st.with_env(dict(st.env))
                for s4 in self.assign(e.generators[0].target, se.elem, inner2, fr):
                    for v, s5 in self.ev(e.elt, s4, fr):
                        out = st.with_env(st.env)
                        out.heap, out.subst, out.lits, out.assumed = s5.heap, s5.subst, s5.lits, s5.assumed
                        yield SeqV(v, se.length), out
                        return
            yield self.unk("comprehension over an unknown iterable"), st
            return
        for vs, s2 in outs:
            out = st.with_env(st.env)
            out.heap, out.subst, out.lits, out.assumed = s2.heap, s2.subst, s2.lits, s2.assumed
            yield TupleV(tuple(vs), "list" if isinstance(e, ast.ListComp) else "gen"), out


@dataclass
class Frame:
    fi: FuncInfo
    depth: int = 0
    all_raise: bool = False
    yields: list = field(default_factory=list)  # (value, state) of every `yield` reached


def _load(t: ast.expr) -> ast.expr:
    import copy

    n = copy.deepcopy(t)
    for x in ast.walk(n):
        if hasattr(x, "ctx"):
            x.ctx = ast.Load()
    return n


def _as_lambda(fn: ast.FunctionDef) -> ast.Lambda:
    lam = ast.Lambda(args=fn.args, body=fn.body)  # body is a statement list: handled in call_lambda
    ast.copy_location(lam, fn)
    return lam


# library classes modelled natively (their graph code is irrelevant to shapes)
MODELLED_CLASSES = {
    "cirkit.symbolic.parameters.Parameter",
    "cirkit.symbolic.circuit.CircuitBlock",
    "cirkit.backend.torch.parameters.parameter.TorchParameter",
}

PY_BUILTINS = {
    "len", "range", "tuple", "list", "zip", "enumerate", "reversed", "sum", "max", "min", "all", "any", "isinstance",
    "int", "float", "bool", "abs", "sorted", "map", "print", "getattr", "setattr", "hasattr", "type", "dict", "set",
    "str", "iter", "next", "ValueError", "TypeError", "NotImplementedError", "AssertionError", "IndexError", "KeyError",
    "divmod", "round", "slice", "frozenset", "super", "id", "repr", "callable", "complex", "bytes", "object",
}
EXT_ROOTS = {"torch", "numpy", "einops", "functools", "itertools", "math", "scipy", "typing", "typing_extensions", "collections", "abc", "operator"}
EXT_ALIASES = {
    "torch.Tensor": "torch.Tensor",
    "torch.nn.functional": "torch.nn.functional",
}
NN_MODULE_METHODS = {"register_buffer", "register_parameter", "register_module", "add_module", "parameters", "buffers", "to", "modules", "children", "named_parameters", "train", "eval"}
