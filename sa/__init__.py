"""Static analysis machinery for the cirkit properties C01..C20 (see /verif/DESIGN.md)."""
