"""C12 -- circuits built with normalised parameterisations are normalised (structural clauses)."""
from ..core import Ctx, Ob, PropSpec
from ..rules import names, r1, r3, r4, r5, r13, r11

SOFT = ("SoftmaxParameter", "LogSoftmaxParameter", "MixingWeightParameter", "SigmoidParameter")


def run(ctx: Ctx) -> list[Ob]:
    obs: list[Ob] = []
    obs += names.name_table(ctx, "name_to_parameter_activation", only={"softmax", "sigmoid"}, require=2)
    obs += [
        o
        for o in r1.r1b(ctx, r1.PARAM_REG) + r1.r1c(ctx, r1.PARAM_REG, False)
        if o.construct.endswith(("compile_softmax_parameter", "compile_log_softmax_parameter", "compile_mixing_weight_parameter", "compile_sigmoid_parameter"))
    ]
    obs += [o for o in r3.r3a(ctx) if o.construct.endswith(SOFT)]
    obs += [o for o in r5.r5a(ctx) if "Softmax" in o.construct]
    obs += [o for o in r3.r3f(ctx, "params") if o.construct.endswith(tuple("Torch" + n for n in SOFT))]
    obs += r13.r13a(ctx, ['cirkit.templates.pgms.hmm'], require=2)
    obs += r13.r13c(ctx, 'cirkit.templates.pgms.hmm', {'input_layer_kwargs'})
    obs += r11.r11d(ctx)
    obs += r11.r11l(ctx)
    obs += [o for o in r11.r11c(ctx) if ':finite' in o.instance]
    obs += [o for o in r4.param_op_contracts(ctx) if o.construct.endswith(tuple('Torch' + n for n in SOFT))]
    obs += [o for o in r3.r3d(ctx) if o.instance.startswith('settings:')]
    obs += r13.r13g(ctx)
    obs += r11.r11m(ctx)
    obs += r13.r13i(ctx) + r13.r13i_consistent(ctx)
    return obs


SPEC = PropSpec(
    pid="C12",
    title="Circuits built with normalised parameterisations are normalised",
    decides=(
        "the chain that makes 'softmax sum weights' normalise the right axis, link by link: N1 -- the activation names 'softmax' / "
        "'sigmoid' of templates.utils.name_to_parameter_activation build SoftmaxParameter / SigmoidParameter; R3a -- the symbolic "
        "softmax / log-softmax / mixing-weight / sigmoid nodes round-trip their axis through config (copies made for derived circuits "
        "keep it); R1b/R1c -- their compilation rules build the torch counterparts and forward axis -> dim; R3f -- the torch nodes keep "
        "dim in config (the folder re-instantiates them); R5a -- TorchSoftmaxParameter / TorchLogSoftmaxParameter apply the softmax "
        "along dim + 1 (the fold axis shift). R13a / R13c on the hmm template (a normalised template with per-variable arguments): every per-variable table is read by variable id (index-space typing: ordering is position-indexed, per-variable arguments are variable-indexed), otherwise a variable is normalised over another variable's number of categories. R11d / R11c: every hand-written stable exponential exp(x - max(..)) in the torch backend takes the maximum along an axis (never over the whole tensor) and the log-space reduce makes its shift finite -- otherwise normalised weights of very different scale, or log 0, evaluate to nan instead of a distribution."
        " R4a/R4l on the normalising operators (softmax, log-softmax, sigmoid, mixing weights; shape interpretation): forward returns (F, *shape) and, for the mixing-weight matrix, the H*K columns are laid out arity-major with the unit axis tied to the row by an identity -- a tile in place of an interleave pairs entry j of the weights with entry j of the identity across different factorisations of the axis, and the rows no longer sum to one unless gcd(K, H) = 1. R13g: the default sum-weight parameterisation of image_data / tabular_data has activation softmax (a Dirichlet draw without activation is normalised only until the first update). R3d settings: the fold-group key of layers contains the whole config (two Binomial layers with different total_count must not share a folded layer that is rebuilt from the first one's config)."
        ' R11l: no log-likelihood multiplies an input-derived factor (a count x, n - x) by the unclamped logarithm of a parameter-derived probability: at the in-support point where the factor is 0 and the probability has rounded to 0 / 1 (a saturated sigmoid) that is 0 * -inf = nan; torch.xlogy / xlog1py or a clamp (as torch.distributions does) is required.'
        ' R11m: an exponential-family layer whose log_unnormalized_likelihood is a torch.distributions log_prob (already normalised), possibly plus a parameter A of the layer, has log_partition_function equal to that A -- zeros when nothing is added; the textbook log-normaliser (n * softplus(logits) of a Binomial) would be counted twice, on that parameterisation only.'
        ' R13i: every kind of factor has as many states as the mode it encodes -- the size keyword the tensor-factorisation templates pass is num_categories=dim / num_states=dim / total_count=dim - 1 (a Binomial with total count n has n + 1 states), decided as a polynomial identity in dim; the alternative input layers of image_data denote the same number of states (256, 256, 255 + 1).'
    ),
    not_decided=(
        "Z == 1 itself, non-negativity and finiteness in log space (numerical); that every template wires the factories into every sum "
        "layer; normalisation of the input distributions; behaviour after training steps."
    ),
    run=run,
    floors={"R13i": 4, "R11m": 3, "R4a": 8, "R11d": 2, "R13a": 2, "R13c": 2, "N1": 2, "R1c": 4, "R5a": 2, "R3a": 4},
)
