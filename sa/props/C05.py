"""C05 -- differentiate returns the partial derivatives in variable order (structural clauses)."""
from ..core import Ctx, Ob, PropSpec
from ..rules import r5 as r5_, r4, r2, r3, r7, r8, r7i, r4r, extra, r14

DIFF = "cirkit.symbolic.functional.differentiate"


def run(ctx: Ctx) -> list[Ob]:
    obs: list[Ob] = []
    obs += r7.r7b(ctx, [DIFF])
    obs += r2.r2g(ctx, "differentiate")
    kinds = {"DIFFERENTIATION"}
    obs += r2.r2a_rules(ctx, kinds)
    obs += r2.r2b(ctx, kinds)
    obs += r2.r2c(ctx, kinds)
    obs += r2.r2a_functional(ctx, ["differentiate"])
    obs += r8.run_guards(ctx, r8.GUARDS_DIFFERENTIATE)
    obs += [o for o in r3.r3f(ctx, "params") if o.construct.endswith("TorchPolynomialDifferential")]
    obs += r7i.rewiring_order(ctx, ['differentiate'])
    obs += r4r.operator_rule_shapes(ctx, {'DIFFERENTIATION'})
    obs += r5_.r5d(ctx)
    obs += [o for o in r4.layer_contracts(ctx, {'R4b'}) if o.construct.endswith('TorchPolynomialLayer')]
    obs += r3.r3k(ctx)
    obs += extra.differentiate_outputs(ctx)
    obs += r14.inplace_reduce(ctx, ('cirkit.symbolic',))
    return obs


SPEC = PropSpec(
    pid="C05",
    title="differentiate returns the partial derivatives in variable order",
    decides=(
        "R7b: functional.differentiate labels the differentials of a product layer by pairing the iteration of a Scope positionally "
        "with the list of differential blocks (zip) and then merge-sorts on that label; the labels are the variable ids in increasing "
        "order only if Scope.__iter__ yields ascending ids -- decided from what its return expression derives from (sorted(..) vs an "
        "unordered set) -- or the consumer sorts locally; R2g: order and var_idx reach the layer rule and PolynomialDifferential; "
        "R2a/R2b/R2c for the DIFFERENTIATION rule and .copyref() of every copied layer; R8: smooth/decomposable and order<=0 guards "
        "under every valuation (functional, pipeline, layer rule, parameter node); R3f: the order hyper-parameter of "
        "TorchPolynomialDifferential is a config key, i.e. survives the folder's re-instantiation ('every order k' under fold=True). R7i: every comprehension over <circuit>.layer_inputs(<layer>) that re-wires a copied layer in this operator is an order-preserving total map (no `if` filter, not concatenated, not sorted / reversed / made a set): product layers and sum weights are positional. R4r (symbolic shape interpretation of the operator rules, nothing executed): each differentiation layer rule, applied to abstract operand layers built by interpreting the symbolic layer constructors on symbolic sizes (every parameterisation: probs / logits, optional log-partition, arity 1..3), composes parameter nodes only with operands of the shapes the nodes were built for, hands the resulting layer parameters of exactly the shape its constructor validates (for all sizes, not only when two sizes coincide) and returns a layer with Ko output units."
        " R5d (exponent ramp, by abstract interpretation with integer-ramp values and slice origins): in TorchPolynomialDifferential.forward, for order 1 and 2 (3 in the thorough tier), every product of a slice of the coefficient axis with an integer ramp pairs the coefficient of x^n with the multiplier n (slice origin == first value of the ramp), one such step per order -- a hoisted arange sliced by the loop counter multiplies the later steps by shifted numbers of the right shape."
        " R5d zero-branch: TorchPolynomialDifferential.forward returns the constant zero only on paths that exclude dp1 > order (degree >= order): the k-th derivative of a degree-k polynomial is k!*a_k. R4b on TorchPolynomialLayer with a degree that may be 0 (differentiate produces constant polynomials whenever order >= degree): forward still returns (F, B, Ko) -- a Horner loop that starts from the leading coefficient and runs zero times loses the batch axis."
        " R3k: every constructor hyper-parameter of a concrete symbolic layer (everything but its params and *_factory alternatives) is a key of its config and round-trips through it -- Layer.copyref(), the copy every operator makes of a layer it does not transform, rebuilds the layer from config (a constant layer that loses log_space is read as linear by the next operator)."
        " R7e (outputs of differentiate): the outputs argument of Circuit.from_operation is one traversal of sc.outputs in which every output contributes its whole block list (differentials in variable order, then the copy), so a multi-output operand yields [d o1.., o1, d o2.., o2]. R14i: no functools.reduce with an in-place operator and no initial value in the symbolic package (it would grow the block list stored for the first layer, which is read again for the outputs). R5d converse: on paths with dp1 <= order TorchPolynomialDifferential.forward returns the constant zero (min / max of symbolic integers are forked on their order)."
    ),
    not_decided="the product rule itself and floating-point values (numerical); derivative coefficients only in the step-wise slice * ramp formulation R5d models.",
    run=run,
    floors={"R3k": 25, "R4b": 1, "R5d": 2, "R4r": 2, "R7i": 4, "R7b": 1, "R2g": 3, "R8": 6, "R3f": 1},
)
