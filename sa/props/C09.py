"""C09 -- operators refuse invalid inputs (guards)."""
from ..core import Ctx, Ob, PropSpec
from ..rules import r7d, r8, r14, extra


def run(ctx: Ctx) -> list[Ob]:
    obs: list[Ob] = []
    for gs in (r8.GUARDS_INTEGRATE, r8.GUARDS_DIFFERENTIATE, r8.GUARDS_MULTIPLY, r8.GUARDS_EVIDENCE, r8.GUARDS_CIRCUIT, r8.GUARDS_QUERIES):
        obs += r8.run_guards(ctx, gs)
    obs.append(
        r8.dominates_call(
            ctx,
            "cirkit.symbolic.functional.evidence",
            {"isinstance(sl, InputLayer)": True, "sl.scope & scope": True, "sl.scope <= scope": False},
            "EvidenceLayer",
            "partial-multivariate",
            "partial evidence of a multivariate input layer must be refused, not silently built",
        )
    )
    obs += extra.from_operation_revalidates(ctx)
    obs += extra.multiply_refusals(ctx)
    # the refusals are only as good as the predicates they consult
    obs += r7d.r7d(ctx)
    obs += r14.product_input_order(ctx)
    obs += r8.scope_membership(ctx, "cirkit.backend.torch.queries.IntegrateQuery.scopes_to_mask", "out-of-scope:membership") + r8.scope_membership(ctx, "cirkit.backend.torch.queries.IntegrateQuery.__call__", "out-of-scope:mask-tensor", within="isinstance(integrate_vars, Tensor)")
    return obs


SPEC = PropSpec(
    pid="C09",
    title="Operators refuse invalid inputs",
    decides=(
        "for each documented precondition (non-smooth / non-decomposable operand of integrate and differentiate with "
        "StructuralPropertyError; incompatible or different-scope operands of multiply; empty or out-of-scope integration scope / "
        "observation; order <= 0 in functional.differentiate, PipelineContext.differentiate, the layer rule and the parameter node; "
        "query-side checks of IntegrateQuery / SamplingQuery; the per-layer re-validation in Circuit.__init__) the function cannot "
        "reach a normal exit under ANY valuation of its other conditions: CFG edges contradicted by the precondition are pruned and "
        "EXIT must be unreachable (truth-table enumeration, no solver); Circuit.from_operation ends in cls(..) so every operator "
        "result is re-validated; the explicit NotImplementedError refusals of multiply dominate construction; R7d: the predicates those "
        "guards consult say what they must -- is_smooth / is_decomposable quantify over every sum input / every unordered pair of "
        "product inputs, and _are_compatible refuses a common scope that either side factorizes in more than one way (otherwise "
        "integrate / multiply accept operands they have to refuse)."
        " R14g: the product of two product layers pairs the inputs by scope rank and lists them in the first layer's declared order (products stay compatible with both operands only if the pairing is by scope). R8m: the refusal of variables outside the scope (IntegrateQuery.scopes_to_mask) is a membership test on the circuit's scope as a set, not a bound on the largest id -- ids in a gap of the scope are invalid too; the same holds for the mask-tensor path of IntegrateQuery.__call__ (a True in the column of an id that is not in the scope is refused, not ignored)."
    ),
    not_decided="the 'results keep the promised structure' clause (structural flags of generated circuits are run-time facts) -- not claimed.",
    run=run,
    floors={"R14g": 1, "R8m": 2, "R8": 28, "R7d": 5},
)
