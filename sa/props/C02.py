"""C02 -- folding and optimisation never change the computed function (structural clauses)."""
from ..core import Ctx, Ob, PropSpec
from ..rules import r14, r1, r3, r5, r8, r12, r12b


def run(ctx: Ctx) -> list[Ob]:
    return r14.split_graphs_keep_sharing(ctx) + r14.membership_in_mapping(ctx) + r5.r5g(ctx) + r3.r3l(ctx) + r3.r3m(ctx) + r3.r3c(ctx) + r3.r3d(ctx) + r3.r3e(ctx) + r3.r3f(ctx) + r12.r12a_outputs(ctx) + r8.run_guards(ctx, r8.GUARDS_MATCHERS) + r3.r3g(ctx) + r1.r1d_sweep(ctx) + r12b.layer_rewrites(ctx) + r12b.param_rewrites(ctx) + r12b.shatter_rewrites(ctx) + r3.r3h(ctx) + r3.r3i(ctx) + r3.r3j(ctx) + r14.view_of_noncontiguous(ctx) + r14.zip_of_orderings(ctx) + r14.selection_bookkeeping(ctx) + r12b.pattern_entry_subclasses(ctx)


SPEC = PropSpec(
    pid="C02",
    title="Folding and optimisation never change the computed function",
    decides=(
        "R3c: the keyword set with which the folder re-instantiates each torch layer / parameter-node class (config + params + "
        "sub_modules + num_folds/scope_idx/semiring) covers the class's __init__ and contains no unknown keyword; R3f: every stored "
        "hyper-parameter of a torch module is a config key (the folder rebuilds every module, singleton groups included, from config: "
        "a missing key silently resets it); R3d: everything the folder copies from the first module of a group is part of the key "
        "the groups are formed on (fold_settings contains config items and parameter shapes, sub-module settings are gathered from "
        "the sub-module itself, tensor-parameter groups are keyed on shape/requires_grad/dtype); R3e: every folded symbolic tensor "
        "is re-registered with its slice index; R12a (must-consult): some decision between pattern matching and rewriting in "
        "graph.optimize depends on membership in the graph's outputs (otherwise an interior matched layer that is also a circuit "
        "output is fused away). R8 (truth-table on the CFG of the two chain matchers _match_layer_pattern / _match_parameter_nodes_pattern): under fan-out > 1 at any non-root entry, or fan-in > 1 at any entry but the last, an iteration of the matching loop can only refuse (return None) -- a fused module must not swallow a value another module still reads; R3g: the address-book builders replace a gather index by "
        "an index-free form only after comparing the cumulative index with a range bounded by the sources' fold counts (num_folds), "
        "never by the length of the request; R1d (optimiser sweep): every TorchLayer built by a fuse / shatter apply function receives "
        "semiring= from the compiler or a matched layer. R12b (symbolic shape + layout interpretation of both sides of every optimiser rewrite, nothing executed): for each layer fuse rule (sum collapse, Tucker, CP) and each parameter rule (log-softmax, reduce-sum of outer product -> einsum [+ flatten]), the matched chain and the modules the rule returns are interpreted on the same abstract inputs (arity 2..3 / rank 1..3, every axis pair) and agree on the result shape, on the element order of every result axis, on which data axes are contracted with which parameter axes (a weight viewed as several axes is re-assembled in order), and the fused layer carries the compiler's semiring."
        " R3h: a pointer node that survives folding takes its target from a lookup keyed by the pre-fold target (the registry R3e updates), in the pointer-folding function or in a pass over the folded circuit -- a target taken from deref() alone is the unfolded tensor folding replaced (known finding D19: parameter sharing inside one circuit fails under fold=True)."
        " R3i: in every config / fold_settings / params of a torch-side module an optional hyper-parameter is included under a None-test, never under a bare truthiness test (a bound of exactly 0.0 would be dropped when the folder / optimiser rebuilds the module from its config). R3j: every value a torch-side config returns is hashable (no list display / list(..) / Tensor.tolist(), directly or through a property): the folder uses (type, *fold_settings) with fold_settings = config.items() as a dictionary key. R12c: no strict subclass of a class named by an optimisation pattern's entries() redefines an evaluation method -- the matchers test isinstance, so such a subclass is rewritten by an identity that holds for its parent only."
        " R14f: no layer / semiring / query code of the torch backend views the direct result of einsum / permute / transpose / expand without contiguous() -- the fused layers optimize=True introduces must evaluate for every size, not only for those whose strides happen to be compatible."
        " R14l: the layer-wise orderings of several parameter graphs are never merged with zip (it truncates to the shallowest graph: fold groups whose parameter graphs differ in depth could not be folded). R14m: the 'already selected' test of the optimiser's match prioritisation consults the result mapping itself or a set updated next to every store into it -- otherwise two overlapping matches both survive and both rewrites are applied."
        " R3l: the offsets by which the address-book builders address fold j of input module k (offset[k] + j) are the exclusive prefix sums of the fold counts -- an accumulate / cumsum over num_folds with a leading 0, or a running variable updated additively; a running offset that is overwritten instead of accumulated is right for one or two input modules and reads another operand's folds from the third on. R3m: no order-changing operation (sorted, reversed, set, .sort()) is applied to a fold index in the modules that build and use address books: entry i of a fold index describes fold i, and the consumers read folds by position."
        ' R5g: every parameter operator whose forward contracts two or more parameter tensors with a dtype-strict operation (matmul, einsum, tensordot, @) casts them to a common dtype first (promote_types / result_type / .to): the parameter graph may mix real and complex tensors (a real permutation matrix and a conjugated complex weight), which the un-optimized graph evaluates with promoting operations, so a strict contraction introduced by an optimizer rewrite would make the circuit raise under optimize=True only.'
        ' R14t: a membership test `x in mapping` whose left side has, by the annotations of the function, the value type of the annotated dict and not its key type is always False (a match looked up among the modules): the selection bookkeeping it guards is skipped.'
        " R14v: an optimisation rewrite that gives two or more sub-graphs of one parameter graph to different layers accounts for the nodes they share (pointers / an intersection test): every layer's graph is folded on its own, so a tensor node sitting in two of them is allocated twice under fold + optimize (known finding D37: the tensor-dot rewrite of a Kronecker weight with a tied factor)."
    ),
    not_decided=(
        "that each optimisation rewrite is an algebraic identity (R12b rewrite carry not built); the other match guards (class, "
        "fan-in, fan-out, config patterns); run-time address-book index arithmetic."
    ),
    run=run,
    floors={"R14v": 1, "R5g": 2, "R3l": 2, "R3m": 8, "R3j": 40, "R12c": 8, "R3i": 4, "R3h": 1, "R3c": 35, "R3d": 10, "R3e": 5, "R3f": 150, "R8": 12, "R3g": 2, "R1d": 5, "R12b": 30},
)
