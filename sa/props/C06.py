"""C06 -- evidence and concatenate (structural clauses)."""
from ..core import Ctx, Ob, PropSpec
from ..rules import extra2, r2, r3, r4, r8, r7i, r10, r13


def run(ctx: Ctx) -> list[Ob]:
    obs: list[Ob] = []
    obs += r2.r2a_functional(ctx, ["evidence", "concatenate"])
    obs += r8.run_guards(ctx, r8.GUARDS_EVIDENCE)
    obs.append(
        r8.dominates_call(
            ctx,
            "cirkit.symbolic.functional.evidence",
            {"isinstance(sl, InputLayer)": True, "sl.scope & scope": True, "sl.scope <= scope": False},
            "EvidenceLayer",
            "partial-multivariate",
            "partial evidence of a multivariate input layer must be refused, not silently built",
        )
    )
    obs += extra2.concatenate_order(ctx)
    obs += r13.r13e(ctx)
    obs += [o for o in r3.r3d(ctx) if o.instance.startswith(("gather", "tensor-key")) or "Evidence" in o.construct]
    obs += [o for o in r4.layer_contracts(ctx, {"R4b"}) if o.construct.endswith(("TorchEvidenceLayer", "TorchConstantValueLayer"))]
    obs += [o for o in r3.r3c(ctx) if "Evidence" in o.construct]
    obs += r7i.rewiring_order(ctx, ['evidence', 'concatenate'])
    obs += r10.r10g(ctx, only=('TorchEvidenceLayer', 'TorchConstant'))
    obs += r3.r3k(ctx)
    obs += r3.r3l(ctx) + r3.r3m(ctx)
    return obs


SPEC = PropSpec(
    pid="C06",
    title="evidence and concatenate implement conditioning and output stacking",
    decides=(
        "R2a: evidence wraps a .copyref() of the observed input layer and copies every other layer by reference; concatenate copies "
        "every layer by reference; R8: empty / out-of-scope observations are rejected under every valuation and partial evidence of a "
        "multivariate layer is refused before an EvidenceLayer is built; R7e: concatenate traverses its operands in the given order "
        "and appends each operand's outputs in declared order (no sorted/reversed/set/filter); R3c/R3d: a torch evidence layer is "
        "re-instantiated by the folder with its wrapped layer, and the fold-group key gathers the settings of the wrapped layer from "
        "the sub-module itself (evidence layers wrapping differently-configured layers are not folded together). R7i: every comprehension over <circuit>.layer_inputs(<layer>) that re-wires a copied layer in this operator is an order-preserving total map (no `if` filter, not concatenated, not sorted / reversed / made a set): product layers and sum weights are positional. R10g (evaluation purity): no evaluation method (forward, __call__, evaluate, log_partition_function, integrate, sample, ...) of the evidence / constant layers stores anything on self -- a value memoised during evaluation survives in-place updates / re-initialisation / load_state_dict of the parameters it was computed from."
        " R3d tensor-key: the observation tensors evidence introduces are folded like every other tensor -- each attribute the folder copies from the first tensor of a group (shape, requires_grad, dtype) is part of the tensor fold key (an int observation and a float one must not share one folded tensor). R4b/R4x on TorchEvidenceLayer / TorchConstantValueLayer (shape interpretation): forward(batch_size) returns (F, B, Ko) for every size, and its axis 0 is the fold axis and axis 1 the batch axis as element orders, not only as sizes (a repeat + view that re-reads the buffer across axis boundaries hands fold f the value of fold (f*B+b) mod F)."
        " R13e: the value handed to each evidence layer is looked up in the observation mapping by variable id (obs[v] for v over the layer's scope), never taken from obs.values() by position. R7e (element-wise form): outputs appended one by one are appended while iterating <operand>.outputs, not under a membership test inside another traversal."
        " R3k: every constructor hyper-parameter of a concrete symbolic layer (everything but its params and *_factory alternatives) is a key of its config and round-trips through it -- Layer.copyref(), the copy every operator makes of a layer it does not transform, rebuilds the layer from config (a constant layer that loses log_space is read as linear by the next operator)."
        " R3l: the offsets by which the address-book builders address fold j of input module k (offset[k] + j) are the exclusive prefix sums of the fold counts -- an accumulate / cumsum over num_folds with a leading 0, or a running variable updated additively; a running offset that is overwritten instead of accumulated is right for one or two input modules and reads another operand's folds from the third on. R3m: no order-changing operation (sorted, reversed, set, .sort()) is applied to a fold index in the modules that build and use address books: entry i of a fold index describes fold i, and the consumers read folds by position."
    ),
    not_decided="numerical equality with the conditioned evaluation.",
    run=run,
    floors={"R3l": 2, "R3m": 8, "R3k": 25, "R4b": 2, "R4x": 1, "R10g": 2, "R7i": 2, "R2a": 3, "R8": 3, "R7e": 2, "R3d": 2},
)
