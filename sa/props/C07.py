"""C07 -- conjugate computes the complex conjugate (structural clauses)."""
from ..core import Ctx, Ob, PropSpec
from ..rules import r2, extra, r7i, r4r, r3, r5


def run(ctx: Ctx) -> list[Ob]:
    obs: list[Ob] = []
    kinds = {"CONJUGATION"}
    obs += r2.r2c(ctx, kinds)
    obs += r2.r2d(ctx)
    obs += r2.r2h(ctx)
    obs += r2.r2a_rules(ctx, kinds)
    obs += r2.r2b(ctx, kinds)
    obs += r2.r2a_functional(ctx, ["conjugate"])
    obs += extra.conjugate_dispatch(ctx)
    obs += r7i.rewiring_order(ctx, ['conjugate'])
    obs += r4r.operator_rule_shapes(ctx, {'CONJUGATION'})
    obs += r3.r3k(ctx)
    obs += r5.r5g(ctx)
    return obs


SPEC = PropSpec(
    pid="C07",
    title="conjugate computes the complex conjugate (identity on real circuits)",
    decides=(
        "every CONJUGATION rule rebuilds its layer class passing every key of the class's params property (union over its "
        "branches) as the same-named keyword fed by the same-named attribute of the operand (R2c); every carried parameter goes "
        "through ConjugateParameter unless the layer compiles to an exponential-family layer with real parameters (R2d, derived); "
        "operand parameters are touched only through .ref() (R2a) and no fresh tensor is created (R2b); functional.conjugate "
        "passes product layers through and dispatches every other layer kind to a registry rule. R7i: every comprehension over <circuit>.layer_inputs(<layer>) that re-wires a copied layer in this operator is an order-preserving total map (no `if` filter, not concatenated, not sorted / reversed / made a set): product layers and sum weights are positional. R4r (symbolic shape interpretation of the operator rules, nothing executed): each conjugation layer rule, applied to abstract operand layers built by interpreting the symbolic layer constructors on symbolic sizes (every parameterisation: probs / logits, optional log-partition, arity 1..3), composes parameter nodes only with operands of the shapes the nodes were built for, hands the resulting layer parameters of exactly the shape its constructor validates (for all sizes, not only when two sizes coincide) and returns a layer with Ko output units."
        " R2d (every path): the definitions of each complex-capable parameter that reach the layer constructor of a conjugation rule (reaching definitions on the CFG) all pass through ConjugateParameter; a path that skips the wrapper under a test of a node's *kind* (isinstance) is a violation, under a dtype test no verdict. R2h: no function of the operator layer (symbolic/operators.py, functional.py) singles out TensorParameter leaves by isinstance without also looking through ReferenceParameter / deref() -- the leaves of every operator result are references, so a dtype / learnability inference over 'the tensor leaves' is vacuous for operator chains (conjugate(conjugate(c)), conjugate(c1 * c2))."
        " R3k: every constructor hyper-parameter of a concrete symbolic layer (everything but its params and *_factory alternatives) is a key of its config and round-trips through it -- Layer.copyref(), the copy every operator makes of a layer it does not transform, rebuilds the layer from config (a constant layer that loses log_space is read as linear by the next operator)."
        ' R5g: every parameter operator whose forward contracts two or more parameter tensors with a dtype-strict operation (matmul, einsum, tensordot, @) casts them to a common dtype first (promote_types / result_type / .to): the parameter graph may mix real and complex tensors (a real permutation matrix and a conjugated complex weight), which the un-optimized graph evaluates with promoting operations, so a strict contraction introduced by an optimizer rewrite would make the circuit raise under optimize=True only.'
    ),
    not_decided="that torch.conj is a conjugation; involution and equality of integrals (they follow from the carried clauses, not checked numerically).",
    run=run,
    floors={"R5g": 2, "R3k": 25, "R2h": 20, "R4r": 10, "R7i": 2, "R2c": 8, "R2d": 5},
)
