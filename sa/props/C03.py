"""C03 -- integrate returns exactly the marginal / partition function (structural clauses)."""
from ..core import Ctx, Ob, PropSpec
from ..rules import r2, r8, extra, r7i, r4r, r12b, r3, r11


def run(ctx: Ctx) -> list[Ob]:
    obs: list[Ob] = []
    kinds = {"INTEGRATION"}
    obs += r2.r2a_rules(ctx, kinds)
    obs += r2.r2b(ctx, kinds)
    obs += r2.r2e(ctx)
    obs += r2.r2a_functional(ctx, ["integrate"])
    obs += r2.r2g(ctx, "integrate")
    obs += r8.run_guards(ctx, r8.GUARDS_INTEGRATE)
    obs += extra.integrate_structure(ctx)
    obs += extra.constant_value_layer(ctx)
    obs += r7i.rewiring_order(ctx, ['integrate'])
    obs += r4r.operator_rule_shapes(ctx, {'INTEGRATION'})
    obs += [o for o in r12b.param_rewrites(ctx) if 'apply_sum_outer_prod_einsum' in o.construct]
    obs += r3.r3k(ctx)
    obs += r11.r11k(ctx)
    obs += r11.r11m(ctx)
    return obs


SPEC = PropSpec(
    pid="C03",
    title="integrate returns the marginal / partition function",
    decides=(
        "the 3 INTEGRATION layer rules touch operand parameters only through .ref()/.shape/None-tests and create no fresh tensor "
        "(R2a/R2b); a Reduce*Parameter in an integration rule reduces exactly the state axis of the layer's own parameter-shape "
        "property and ReduceLSE/ReduceSum/constants agree with the log_space flag of the ConstantValueLayer they feed (R2e); "
        "functional.integrate replaces exactly the input layers whose scope meets the integration scope, copies every other layer "
        "by reference with inputs re-wired in order, forwards scope= to the rule and records it in the metadata; the four "
        "precondition guards fire under every valuation (R8 truth table on the CFG); TorchConstantValueLayer maps from the semiring "
        "selected by log_space. R7i: every comprehension over <circuit>.layer_inputs(<layer>) that re-wires a copied layer in this operator is an order-preserving total map (no `if` filter, not concatenated, not sorted / reversed / made a set): product layers and sum weights are positional. R4r (symbolic shape interpretation of the operator rules, nothing executed): each integration layer rule, applied to abstract operand layers built by interpreting the symbolic layer constructors on symbolic sizes (every parameterisation: probs / logits, optional log-partition, arity 1..3), composes parameter nodes only with operands of the shapes the nodes were built for, hands the resulting layer parameters of exactly the shape its constructor validates (for all sizes, not only when two sizes coincide) and returns a layer with Ko output units. R12b: the optimiser rule that fuses ReduceSum(OuterProduct(..)) -- the parameter graph integrate(multiply(..)) builds for embedding layers -- into an einsum (+ flatten) returns, for ranks 1..3 and every pair of axes, a tensor of the same shape AND the same element order as the graph it replaces (layout typing: a transposed flattening has the right size and the wrong values)."
        " R3k: every constructor hyper-parameter of a concrete symbolic layer (everything but its params and *_factory alternatives) is a key of its config and round-trips through it -- Layer.copyref(), the copy every operator makes of a layer it does not transform, rebuilds the layer from config (a constant layer that loses log_space is read as linear by the next operator)."
        " R11k: any hand-written exp(x - max(x)) in a torch-side forward makes the shift finite first (an all -inf row is log 0, not nan), as the semiring reductions do."
        ' R11m: an exponential-family layer whose log_unnormalized_likelihood is a torch.distributions log_prob (already normalised), possibly plus a parameter A of the layer, has log_partition_function equal to that A -- zeros when nothing is added; the textbook log-normaliser (n * softplus(logits) of a Binomial) would be counted twice, on that parameterisation only.'
    ),
    not_decided="the closed forms themselves (numerical), continuous integration, commutation of nested integration.",
    run=run,
    floors={"R11m": 3, "R3k": 25, "R12b": 20, "R4r": 6, "R7i": 1, "R2e": 6, "R2a": 6, "R8": 4},
)
