"""C08 -- structural-property predicates agree with their definitions (structural clauses)."""
from ..core import Ctx, Ob, PropSpec
from ..rules import r7, r7d, r7n, r14


def run(ctx: Ctx) -> list[Ob]:
    obs: list[Ob] = []
    obs += r7d.r7d(ctx)
    obs += r7d.r7s(ctx)
    obs += r7d.r7t(ctx)
    obs += r7d.r7u(ctx)
    obs += r7n.structured(ctx) + r7n.canonical(ctx)
    obs += r14.groupby_sorted(ctx, ('cirkit.symbolic', 'cirkit.templates.region_graph'))
    obs += r7.r7a(ctx, ["cirkit.symbolic.circuit._scope_factorizations"], require=1)
    obs += r7.r7c_onesided(ctx, "cirkit.symbolic.circuit._are_compatible")
    obs += r7.r7_owner(ctx, "cirkit.templates.region_graph.graph.RegionGraph.is_compatible")
    obs += r14.positional_records_agree_by_name(ctx)
    obs += r7n.connectivity_not_completeness(ctx)
    return obs


SPEC = PropSpec(
    pid="C08",
    title="Structural-property predicates agree with their definitions",
    decides=(
        "R7d (definition shape, matched on quantifier / domain / comparator after pushing negations inwards): is_smooth is FORALL sum "
        "layers FORALL inputs scope *equality*; is_decomposable is FORALL product layers FORALL unordered input pairs *disjoint* "
        "scopes; is_structured_decomposable requires exactly one factorization for every scope; R7a: the canonical form of a product's scope factorization (circuit._scope_factorizations) must not be obtained by sorting "
        "Scopes with Scope.__lt__ while that is the strict-subset (partial) order -- the sub-scopes of a product are pairwise "
        "incomparable, so such a sort returns the listing order and the answer depends on how a layer lists its inputs; R7c: "
        "circuit._are_compatible must not reject keys missing on one side while never examining the converse (one-sided comparison "
        "= asymmetric answer); R7o: RegionGraph.is_compatible may query node_inputs/node_outputs of a node only on the graph the "
        "node was drawn from."
        " R7u: no predicate of circuit.py builds 'the variables' from range(num_variables) ('not on how variables are numbered'). R7t: _scope_factorizations records for a product the scopes of its *direct* inputs (layer_inputs), not a recursive expansion through nested products. R7d also reports a filter on the inputs of a sum in is_smooth (every input of every sum is compared). R7s: the scope table the predicates read (Circuit.layer_scope) is filled, in the constructor's validation loop, with an input layer's own scope or with the union over an unfiltered iteration of *all* inputs of the layer -- a scope copied from one input hides the variables a non-smooth sum receives through the others and makes the flags depend on the order of the inputs."
        " R7n (the region-graph twin of the predicate): RegionGraph.is_structured_decomposable compares the decompositions of all partitions over the same *scope* (not per region node) and in an order-free canonical form; R14a: any itertools.groupby used by the predicates runs over a sequence sorted by the grouping key."
        ' R14x: a record (dataclass / NamedTuple) filled positionally gets each value in the field of its name -- the i-th positional argument of StructuralProperties(self.is_smooth, ..) names the i-th declared field; four booleans type-check in any order. R7v: RegionGraph.is_compatible refuses on a transitive computation over the overlap relation (spectrum of the Laplacian, components, closure), not on completeness of the one-step relation -- regions linked through a chain are one component.'
    ),
    not_decided="completeness of the predicates (they may under-report compatibility); that stronger predicates answer False for non-smooth operands (not required by the statement, deliberately not armed).",
    run=run,
    floors={"R14x": 2, "R7v": 1, "R7s": 2, "R7d": 5, "R7c": 1, "R7o": 2},
)
