"""C08 -- structural-property predicates agree with their definitions (structural clauses)."""
from ..core import Ctx, Ob, PropSpec
from ..rules import r7, r7d


def run(ctx: Ctx) -> list[Ob]:
    obs: list[Ob] = []
    obs += r7d.r7d(ctx)
    obs += r7.r7a(ctx, ["cirkit.symbolic.circuit._scope_factorizations"], require=1)
    obs += r7.r7c_onesided(ctx, "cirkit.symbolic.circuit._are_compatible")
    obs += r7.r7_owner(ctx, "cirkit.templates.region_graph.graph.RegionGraph.is_compatible")
    return obs


SPEC = PropSpec(
    pid="C08",
    title="Structural-property predicates agree with their definitions",
    decides=(
        "R7d (definition shape, matched on quantifier / domain / comparator after pushing negations inwards): is_smooth is FORALL sum "
        "layers FORALL inputs scope *equality*; is_decomposable is FORALL product layers FORALL unordered input pairs *disjoint* "
        "scopes; is_structured_decomposable requires exactly one factorization for every scope; R7a: the canonical form of a product's scope factorization (circuit._scope_factorizations) must not be obtained by sorting "
        "Scopes with Scope.__lt__ while that is the strict-subset (partial) order -- the sub-scopes of a product are pairwise "
        "incomparable, so such a sort returns the listing order and the answer depends on how a layer lists its inputs; R7c: "
        "circuit._are_compatible must not reject keys missing on one side while never examining the converse (one-sided comparison "
        "= asymmetric answer); R7o: RegionGraph.is_compatible may query node_inputs/node_outputs of a node only on the graph the "
        "node was drawn from."
    ),
    not_decided="completeness of the predicates (they may under-report compatibility); that stronger predicates answer False for non-smooth operands (not required by the statement, deliberately not armed).",
    run=run,
    floors={"R7d": 5, "R7c": 1, "R7o": 2},
)
