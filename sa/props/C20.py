"""C20 -- templates: each variable uses the per-variable arguments given for that variable id."""
from ..core import Ctx, Ob, PropSpec
from ..rules import names, r13, r6e

T = "cirkit.templates."


def run(ctx: Ctx) -> list[Ob]:
    obs: list[Ob] = []
    obs += r13.r13a(ctx, [T + "pgms.hmm"], require=2)
    obs += r13.r13c(ctx, T + "pgms.hmm", {"input_layer_kwargs"})
    obs += r13.r13a(ctx, [T + "pgms.fully_factorized"], require=1)
    obs += r13.r13a(ctx, [T + "tensor_factorizations.cp", T + "tensor_factorizations.tucker", T + "tensor_factorizations.tensor_train"], require=4)
    obs += names.name_table(ctx, "name_to_input_layer_factory", require=4)
    obs += r6e.r10h(ctx, ('cirkit.templates.logic',))
    return obs


SPEC = PropSpec(
    pid="C20",
    title="Model templates: per-variable tables are read at the variable id",
    decides=(
        "R13a: in hmm, fully_factorized, cp, tucker and tensor_train every read of a per-variable table (input-layer factories, "
        "per-variable kwargs, per-mode sizes) that feeds the construction of the layer over Scope([v]) is made at index v (def-use "
        "resolved; -1 == len(T)-1), or element and id are bound by one aligned enumerate -- the 'each variable using the input layer "
        "and per-variable arguments given for that variable id' clause; N1: each input-layer name of name_to_input_layer_factory "
        "('embedding', 'categorical', 'binomial', 'gaussian') builds the same-named layer class. R13c (index-space typing of hmm): `ordering` is a position-indexed table of variable ids, the per-variable arguments and everything mapped from them in order are indexed by variable id, range counters are positions, ordering[..] and loop variables over ordering are variable ids; every subscript read of a typed table uses an index of the table's own space and zip never pairs a variable-indexed table with ordering entry by entry. R10h: LogicalCircuit.smooth / prune change node inputs in place while querying node_scope; no query method of the class memoises its answers in a dict attribute (a stale scope makes smoothing add the same literal twice, and the circuit is no longer decomposable)."
    ),
    not_decided="CP / Tucker / TT contraction formulas, HMM joint probabilities, logic-circuit semantics and model counting (numerical / run-time).",
    run=run,
    floors={"R10h": 1, "R13c": 2, "R13a": 7, "N1": 4},
)
