"""C20 -- templates: each variable uses the per-variable arguments given for that variable id."""
from ..core import Ctx, Ob, PropSpec
from ..rules import names, r13, r6e, r8, r14

T = "cirkit.templates."


def run(ctx: Ctx) -> list[Ob]:
    obs: list[Ob] = []
    obs += r13.r13a(ctx, [T + "pgms.hmm"], require=2)
    obs += r13.r13c(ctx, T + "pgms.hmm", {"input_layer_kwargs"})
    obs += r13.r13a(ctx, [T + "pgms.fully_factorized"], require=1)
    obs += r13.r13a(ctx, [T + "tensor_factorizations.cp", T + "tensor_factorizations.tucker", T + "tensor_factorizations.tensor_train"], require=4)
    obs += names.name_table(ctx, "name_to_input_layer_factory", require=4)
    obs += r6e.r10h(ctx, ('cirkit.templates.logic',))
    obs += r14.remove_while_iterating(ctx, ('cirkit.templates',))
    obs += r14.signed_id_keys(ctx)
    obs.append(r8.dominates_call(ctx, T + 'logic.graph.LogicalCircuit.smooth', {'len(missing_literals) > 0': True, 'isinstance(input_to_d, ConjunctionNode)': False}, 'extend', 'smoothing-conjoins', 'the (x or not x) smoothing nodes are *conjoined* with an input that misses a variable: they may be appended to the inputs of a conjunction, but an input that is itself a disjunction (or a literal) has to be wrapped in a fresh conjunction -- appended to a disjunction they become extra disjuncts and the circuit counts assignments twice'))
    obs += r13.r13f(ctx)
    obs += r13.r13h(ctx)
    obs += r14.call_order(ctx, T + 'logic.graph.LogicalCircuit.build_circuit', 'smooth', 'prune', 'smoothing has to see the scopes of the un-pruned graph -- a variable that only occurs in a branch unit propagation removes drops out of the scope, no (x | ~x) node is added for it and the circuit integrates to the model count divided by 2^k')
    obs += r13.r13i(ctx) + r13.r13i_consistent(ctx)
    return obs


SPEC = PropSpec(
    pid="C20",
    title="Model templates: per-variable tables are read at the variable id",
    decides=(
        "R13a: in hmm, fully_factorized, cp, tucker and tensor_train every read of a per-variable table (input-layer factories, "
        "per-variable kwargs, per-mode sizes) that feeds the construction of the layer over Scope([v]) is made at index v (def-use "
        "resolved; -1 == len(T)-1), or element and id are bound by one aligned enumerate -- the 'each variable using the input layer "
        "and per-variable arguments given for that variable id' clause; N1: each input-layer name of name_to_input_layer_factory "
        "('embedding', 'categorical', 'binomial', 'gaussian') builds the same-named layer class. R13c (index-space typing of hmm): `ordering` is a position-indexed table of variable ids, the per-variable arguments and everything mapped from them in order are indexed by variable id, range counters are positions, ordering[..] and loop variables over ordering are variable ids; every subscript read of a typed table uses an index of the table's own space and zip never pairs a variable-indexed table with ordering entry by entry. R10h: LogicalCircuit.smooth / prune change node inputs in place while querying node_scope; no query method of the class memoises its answers in a dict attribute (a stale scope makes smoothing add the same literal twice, and the circuit is no longer decomposable)."
        " R14b (logic circuits, smoothing): removing the element a for-loop is standing on from the list it iterates is compensated by an insertion at index 0 in the same block (or the loop iterates a copy) -- otherwise the next input of the disjunction is skipped and stays un-smoothed. R8 smoothing-conjoins: in LogicalCircuit.smooth the in-place extension of an input's own input list with smoothing nodes is unreachable unless that input is a ConjunctionNode (known from an isinstance test, not from 'it has inputs'). R14k: no arithmetic negation of a literal's variable id in the logic package (ids are 0-based: -0 == 0). R13f: a block slice T[i*K:(i+1)*K] of a table built by a two-generator comprehension requires the *inner* generator to be range(K) (tensor_train: cores are mode-major). R14c: in LogicalCircuit.build_circuit smooth() never runs after prune() (must-precede on the CFG)."
        ' R13h: arranging items along an ordering is a lookup items[ordering[t]]; sorting zip(ordering, items) by the first component (or argsort(ordering)) arranges by the inverse permutation, which agrees only for self-inverse orderings.'
        ' R13i: every kind of factor has as many states as the mode it encodes -- the size keyword the tensor-factorisation templates pass is num_categories=dim / num_states=dim / total_count=dim - 1 (a Binomial with total count n has n + 1 states), decided as a polynomial identity in dim; the alternative input layers of image_data denote the same number of states (256, 256, 255 + 1).'
    ),
    not_decided="CP / Tucker / TT contraction formulas, HMM joint probabilities, logic-circuit semantics and model counting (numerical / run-time).",
    run=run,
    floors={"R13i": 4, "R13h": 1, "R14b": 2, "R14c": 1, "R10h": 1, "R13c": 2, "R13a": 7, "N1": 4},
)
