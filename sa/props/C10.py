"""C10 -- derived circuits share parameters with their operands (the reference chain)."""
from ..core import Ctx, Ob, PropSpec
from ..rules import r1, r2, r3, r6, r6e, r6p, r10


def run(ctx: Ctx) -> list[Ob]:
    obs: list[Ob] = []
    obs += r2.r2a_rules(ctx)
    obs += r2.r2b(ctx)
    obs += r2.r2a_functional(ctx, ["integrate", "multiply", "differentiate", "conjugate", "evidence", "concatenate"])
    obs += r2.r2a_core(ctx)
    obs += [
        o
        for o in r1.r1b(ctx, r1.PARAM_REG) + r1.r1c(ctx, r1.PARAM_REG, False)
        if o.construct.endswith(("compile_reference_parameter", "compile_tensor_parameter", "compile_constant_parameter"))
    ]
    obs += r3.r3a(ctx)
    obs += r3.r3e(ctx)
    obs += r6.r6b(ctx)
    obs += r10.r10g(ctx)
    obs += r6p.r6p(ctx)
    obs += r6p.r6q(ctx)
    obs += r6p.r6r(ctx)
    obs += r6e.r6s(ctx, modules=("cirkit.backend", "cirkit.pipeline"))
    obs += [o for o in r6.r6d(ctx) if o.instance.split(':')[0] in ('returns-compiled', 'maps', 'known', 'active-context')]
    obs += r3.r3k(ctx)
    obs += r10.r10n(ctx)
    obs += r2.r2e(ctx)
    return obs


SPEC = PropSpec(
    pid="C10",
    title="Derived circuits share parameters with their operands",
    decides=(
        "the reference chain end to end: R2a -- every operator rule touches an operand parameter only as receiver of .ref(), of .shape "
        "or in a None test, every operand layer placed into a functional result flows through .copyref() (product layers, which have "
        "no parameters, excepted by derivation), Layer.copyref / Parameter.ref map tensors to references; R2b -- no operator rule "
        "creates a TensorParameter and every layer it constructs gets its primary parameters explicitly (no fresh learnable tensor); "
        "R1b/R1c -- ReferenceParameter compiles to a TorchPointerParameter fed by p.deref(); R3a -- parameter operators copied by "
        "ref() keep their hyper-parameters; R3e -- folded tensors are re-registered per slice; R6b -- operands are compiled first and "
        "once, and registered after post-processing. R10g (evaluation purity): no evaluation method (forward, __call__, evaluate, log_partition_function, integrate, sample, ...) of any torch-side layer, parameter node, parameter graph or circuit stores anything on self -- a value memoised during evaluation survives in-place updates / re-initialisation / load_state_dict of the parameters it was computed from. R6p (foreign tensors stay behind pointers): a value obtained from X.deref() / retrieve_compiled_parameter(..)[0] in the torch backend -- a tensor node owned by an already compiled circuit -- is only inspected or wrapped as TorchPointerParameter(<it>, ..); it is never returned, yielded, stored or passed on as a node of the new parameter graph (it would be re-initialised by the reset_parameters() that ends the derived circuit's compilation)."
        " R6r: compile_tensor_parameter allocates (and registers) a torch tensor only when the symbolic tensor has no compiled counterpart yet -- a second circuit sharing symbolic layers references the first compilation instead of overwriting the registry. R6q: resets / initialisers follow parameter graphs, never torch's module tree (which contains the tensors pointers refer to). R6s (per-instance state): no mutable container bound in a class body of cirkit.backend / cirkit.pipeline (the compile path) is mutated through self without an __init__ rebinding it (ClassVar registries excepted) -- a class-level `_compiled_parameters = {}` would be one symbolic -> compiled registry for every compiler, and a circuit derived in one context would point at the tensors another context compiled last. R6d ('compiled in the same pipeline context'): every PipelineContext operator method checks and maps its operands through its own compiler and returns self.compile(result) -- not the module-level compile(), which dispatches to whichever context is active; the module-level functions resolve the active context."
        " R3k: every constructor hyper-parameter of a concrete symbolic layer (everything but its params and *_factory alternatives) is a key of its config and round-trips through it -- Layer.copyref(), the copy every operator makes of a layer it does not transform, rebuilds the layer from config (a constant layer that loses log_space is read as linear by the next operator)."
        ' R10n: a parameter node that holds another node (TorchPointerParameter) evaluates the stored target in forward and never returns a tensor bound from it elsewhere (reset_parameters, the constructor): a bound tensor follows in-place updates and silently stops following the operand when the operand re-allocates.'
        " R2e: the integral rules compute the partition function from the operand's own parameters along the axis that holds the categories / states (a constant is emitted only for a parameterisation that is normalised along that axis): otherwise the relation between a derived partition function and its operand fails at compile time and after every update."
    ),
    not_decided="numerical relations after parameter updates (they follow from single storage, which is what is decided).",
    run=run,
    floors={"R10n": 1, "R3k": 25, "R6s": 90, "R6d": 20, "R6p": 4, "R10g": 60, "R2a": 70, "R2b": 25, "R3e": 5, "R6b": 10, "R3a": 60},
)
