"""C04 -- multiply returns the pointwise product or refuses (structural clauses)."""
from ..core import Ctx, Ob, PropSpec
from ..rules import extra, l1, r2, r4, r7, r8, r7i, r7p, r4r, l2, r14, r3

PRODUCT_OPS = ('TorchOuterProductParameter', 'TorchOuterSumParameter', 'TorchKroneckerParameter', 'TorchGaussianProductMean', 'TorchGaussianProductStddev', 'TorchGaussianProductLogPartition', 'TorchPolynomialProduct')


def run(ctx: Ctx) -> list[Ob]:
    obs: list[Ob] = []
    kinds = {"MULTIPLICATION"}
    obs += r2.r2a_rules(ctx, kinds)
    obs += r2.r2b(ctx, kinds)
    obs += r2.r2c(ctx, kinds)
    obs += r2.r2f(ctx)
    obs += r2.r2a_functional(ctx, ["multiply"])
    obs += r8.run_guards(ctx, r8.GUARDS_MULTIPLY)
    obs += extra.multiply_refusals(ctx)
    obs += r7.r7a(ctx, ["cirkit.symbolic.functional.multiply"], require=1)
    obs += l1.l1(ctx)
    obs += r7i.rewiring_order(ctx, ['multiply'])
    obs += r7p.run(ctx)
    obs += r4r.operator_rule_shapes(ctx, {'MULTIPLICATION'})
    obs += l2.run(ctx)
    obs += r14.product_input_order(ctx)
    obs += r14.edge_multiplicity(ctx)
    obs += r14.kronecker_sum_weight_layout(ctx)
    obs += extra.multiply_outputs(ctx)
    obs += r14.scope_keyed_inputs(ctx)
    obs += [o for o in r4.param_op_contracts(ctx) if o.construct.endswith(PRODUCT_OPS)]
    obs += r14.view_of_noncontiguous(ctx)
    obs += r3.r3k(ctx)
    return obs


SPEC = PropSpec(
    pid="C04",
    title="multiply returns the pointwise product or refuses",
    decides=(
        "R2a/R2b/R2c over the 7 MULTIPLICATION rules (operand parameters only through .ref(), no fresh tensor, every parameter of each "
        "operand class is read); R2f: every order-sensitive parameter operator (Kronecker, outer product/sum, polynomial and Gaussian "
        "products -- derived from their shape property) takes its first input from sl1 and its second from sl2, shapes in the same "
        "order (the Kronecker-order convention of the statement); R8: different-scope and incompatible operands are refused under "
        "every valuation, the NotImplementedError refusals dominate construction; R7a: the pairing of the inputs of two product "
        "layers must not sort by Scope while Scope.__lt__ is the partial subset order (crosswise pairing of same-scope inputs listed "
        "in different order); L1: column layout of the weight of a product of two sum layers vs. the order in which multiply lists "
        "its inputs. R7i: every comprehension over <circuit>.layer_inputs(<layer>) that re-wires a copied layer in this operator is an order-preserving total map (no `if` filter, not concatenated, not sorted / reversed / made a set): product layers and sum weights are positional. R7p (side typing of multiply: layers of sc1 / sc2, pairs, sequences of pairs, derived by def-use from the two parameters): every key of the pair->block table is a (layer of sc1, layer of sc2) pair -- never the swapped pair, whose block has its units in the other Kronecker order --, the layer rule is retrieved for (type(l1), type(l2)) and called as func(l1, l2). R4r (symbolic shape interpretation of the operator rules, nothing executed): each multiplication layer rule, applied to abstract operand layers built by interpreting the symbolic layer constructors on symbolic sizes (every parameterisation: probs / logits, optional log-partition, arity 1..3), composes parameter nodes only with operands of the shapes the nodes were built for, hands the resulting layer parameters of exactly the shape its constructor validates (for all sizes, not only when two sizes coincide) and returns a layer with Ko1 * Ko2 output units. L2 (layout typing with value tracking of index arrays): the constant permutation weight multiply_kronecker_layers builds with numpy (identity / arange, reshape, transpose, fancy indexing) has its columns laid out like the Kronecker layer of pair blocks ([i_1, j_1, .., i_n, j_n], sizes K1, K2, ..) and maps them to the Kronecker order of (operand 1, operand 2) = [i_1..i_n, j_1..j_n], for arity 2 and 3 -- an inverse or otherwise different permutation has the same shape and is invisible whenever K1 == K2."
        " R8 overlap-different-scope: the application of a product rule is unreachable for a pair of layers whose scopes overlap without being equal (outputs of multi-output operands over different scopes): such a pair is refused, not multiplied input by input into a non-decomposable result. R14g: the inputs of the block a product rule returns are wired in the operand's declared input order, not in a sorted order (known finding D24: today they follow sorted(.., key=scope), which breaks Kronecker layers with inputs declared in another order). R14f: no layer / semiring / query code views the direct result of einsum / permute / transpose / expand without contiguous() (a TensorDot layer with a contracted size of 1 raised at evaluation under optimize=True)."
        " R7e (outputs of multiply): the output pairs are enumerated with sc1.outputs as the outer and sc2.outputs as the inner index ('output (i, j) is the product of output i of c1 and output j of c2'). R14h: no operator driver indexes the inputs of a layer by their scopes (several observed inputs of one product layer share the empty scope and would collide). R4a/R4l on the parameter operators the product rules build (outer product / outer sum / Kronecker / Gaussian product statistics / polynomial product): declared shape for every rank and dim, and units of operand 1 major (Kronecker order (i, j))."
        " R3k: every constructor hyper-parameter of a concrete symbolic layer (everything but its params and *_factory alternatives) is a key of its config and round-trips through it -- Layer.copyref(), the copy every operator makes of a layer it does not transform, rebuilds the layer from config (a constant layer that loses log_space is read as linear by the next operator)."
        " R14q: the weight of the product of two sum layers is laid out as the inputs of the product layer are: multiply enumerates the pairs of inputs first operand major (itertools.product over the two layers' inputs), each with units (i1, i2), i.e. column ((a1*H2 + a2)*K1 + i1)*K2 + i2, while the Kronecker product of the weights holds that entry at (a1*K1 + i1)*(H2*K2) + a2*K2 + i2; a rule building a sum layer of arity H1*H2 from the Kronecker product re-indexes the columns -- the index expression is compared with that polynomial, the nesting order of the comprehension with (H1, H2, K1, K2), and the re-indexing may be skipped only when K1 == 1 or H2 == 1 -- or refuses arities above one."
        ' R14s: successor lists keep one entry per edge -- topological_ordering / layerwise_topological_ordering count predecessors with multiplicity and decrement once per listed successor, so graph_nodes_outgoings appends once per occurrence (no set, no membership guard) and every explicit outcomings_fn is a node_outputs method or a lookup in such a mapping, never a membership filter: c * c has operands (c, c), and a successor listed once while its predecessors are counted twice never becomes ready (the pipeline then reports a cycle instead of compiling the operand first).'
    ),
    not_decided="Gaussian product statistics, polynomial convolution, the numerical content of the parameter operators (C14).",
    run=run,
    floors={"R14s": 3, "R14q": 4, "R3k": 25, "L2": 2, "R4r": 25, "R7i": 2, "R7p": 8, "R2a": 20, "R2c": 10, "R2f": 20, "R8": 2, "L1": 1},
)
