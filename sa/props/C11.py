"""C11 -- marginal queries (structural clauses)."""
from ..core import Ctx, Ob, PropSpec
from ..rules import r4, r4lite, r8, r10, r11, r13

EXPFAM = "cirkit.backend.torch.layers.input.TorchExpFamilyLayer"


def run(ctx: Ctx) -> list[Ob]:
    obs: list[Ob] = []
    obs += r4lite.rank_agreement(
        ctx, EXPFAM, "log_partition_function", 3, "(F, 1, K) -- IntegrateQuery._layer_fn selects it against the (F, B, K) layer output with torch.where"
    )
    obs += r8.run_guards(ctx, [g for g in r8.GUARDS_QUERIES if "IntegrateQuery" in g.func])
    obs += r4.layer_contracts(ctx, {"R4c"})
    obs += r4.query_contracts(ctx, {"integrate"})
    obs += r13.r13d(ctx)
    obs += r8.scope_membership(ctx, "cirkit.backend.torch.queries.IntegrateQuery.scopes_to_mask", "out-of-scope:membership") + r8.scope_membership(ctx, "cirkit.backend.torch.queries.IntegrateQuery.__call__", "out-of-scope:mask-tensor", within="isinstance(integrate_vars, Tensor)")
    obs.append(
        r8.dominates_call(
            ctx,
            "cirkit.backend.torch.queries.IntegrateQuery._layer_fn",
            {"isinstance(layer, TorchInputLayer)": True, "layer.num_variables > 1": False, **{k: False for k in r8.ANY_SPELLINGS}},
            "integrate",
            "nothing-selected",
            "when no variable of an input layer is selected the layer's plain output is returned and integrate() is not called: input layers outside the "
            "integration scope may not be integrable at all (Embedding, the constant layers of operator results)",
        )
    )
    obs += [o for o in r10.r10i(ctx) if '.queries.' in o.construct]
    obs += r8.mask_selects(ctx, "cirkit.backend.torch.queries.IntegrateQuery._layer_fn", "integrate_vars_mask", "mask-selects")
    obs += r11.r11m(ctx)
    return obs


SPEC = PropSpec(
    pid="C11",
    title="Marginal queries agree with symbolic integration",
    decides=(
        "R4 (rank clause, sibling cross-check): every return path of every concrete log_partition_function of the exponential-family "
        "torch layers yields a rank-3 tensor (F, 1, K) -- the value IntegrateQuery._layer_fn broadcasts against the (F, B, K) layer "
        "output; a rank-2 (F, K) path aligns folds with the batch; rank is inferred from allocation size tuples, the tuple property "
        "the constructor validates a parameter against, reductions with dim and unsqueeze/squeeze; R8: the query-side guards of "
        "IntegrateQuery (__init__, __call__, scopes_to_mask, _layer_fn) fire under every valuation; R4c / R4q (symbolic shape interpretation of the source, nothing "
        "executed): log_partition_function() and integrate() of every exponential-family layer return (F, 1, Ko) in every "
        "parameterisation, and IntegrateQuery._layer_fn applied to every concrete input layer with a mask of batch 1 or B returns "
        "(F, B, Ko) -- the torch.where selection broadcasts for every batch and fold size, not only when they coincide. R13d: the per-sample rows of the mask built by scopes_to_mask are addressed with the counter of enumerate over the batch sequence itself (the one whose length sizes the mask), never over a filtered copy -- 'per sample' means sample k's scope lands in row k even when an earlier sample marginalises nothing; R8m: the out-of-scope refusal derives from the circuit's scope used as a set (difference / subset / membership), not from a bound on the largest id -- on the Scope path (scopes_to_mask) and on the mask-tensor path (__call__: a True in the column of an id in a gap of the scope is refused, not ignored)."
        " R8 nothing-selected: in _layer_fn the call of layer.integrate() is unreachable when torch.any(<mask of this layer>) is false -- input layers outside the integration scope (Embedding, constant layers of operator results) may have no integral at all. R8s: the per-layer mask is only ever a selector (torch.where / masked assignment), never an arithmetic factor -- 0 * -inf is nan in log space."
        " R10i (queries): no query method writes in place into (an alias of) its arguments -- a batch that is overwritten at the integrated positions gives wrong marginals to the next query on the same tensor. R4q also interprets _layer_fn on constant layers (scope index (F, 0), handed the batch size): circuits produced by evidence / partial integration contain them."
        ' R11m: an exponential-family layer whose log_unnormalized_likelihood is a torch.distributions log_prob (already normalised), possibly plus a parameter A of the layer, has log_partition_function equal to that A -- zeros when nothing is added; the textbook log-normaliser (n * softplus(logits) of a Binomial) would be counted twice, on that parameterisation only.'
    ),
    not_decided="numerical equality with the symbolic integrate; the mask arithmetic of _layer_fn.",
    run=run,
    floors={"R11m": 3, "R13d": 1, "R8m": 2, "R4": 4, "R8": 6, "R4c": 10, "R4q": 10},
)
