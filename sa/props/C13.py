"""C13 -- gradients (the few structural clauses that are necessary conditions; the values are not decided)."""
from ..core import Ctx, Ob, PropSpec
from ..rules import r1, r3, r11


def run(ctx: Ctx) -> list[Ob]:
    obs: list[Ob] = []
    # learnable -> requires_grad is carried by the compile rules of tensor / constant parameters
    obs += [
        o
        for o in r1.r1c(ctx, r1.PARAM_REG, False)
        if o.construct.endswith(("compile_tensor_parameter", "compile_constant_parameter")) and ("requires_grad" in o.instance or "learnable" in o.instance)
    ]
    # folding keeps requires_grad per symbolic tensor: it is part of the fold-group key
    obs += [o for o in r3.r3d(ctx) if "tensor-key" in o.instance]
    obs += r11.r11e(ctx)
    obs += [o for o in r11.r11c(ctx) if ":finite" in o.instance or "add-back" in o.instance]
    obs += r11.r11g(ctx)
    obs += r11.r11h(ctx)
    obs += r11.r11j(ctx)
    obs += r11.r11n(ctx)
    return obs


SPEC = PropSpec(
    pid="C13",
    title="Gradients of compiled circuits are correct and flag-independent",
    decides=(
        "only the structural clauses that are necessary conditions of C13, not the gradient values: R1c -- the compile rules of tensor and "
        "constant parameters carry learnable -> requires_grad; R3d -- everything the folder copies from the first tensor of a fold "
        "group (shape, requires_grad, dtype) is part of the group key, so a frozen and a learnable tensor are never folded into one "
        "tensor ('gradients identical, parameter by parameter, under every combination of fold and optimize' needs each symbolic "
        "tensor to keep its own requires_grad); R11e -- the complex log-space semiring takes logarithms with csafelog in its stable "
        "reduce and in the morphism from the linear semiring (the plain complex log has a nan gradient at an exactly-zero unit: "
        "'gradients are finite wherever the function value is non-zero'); R11c -- the log-space reduce makes its shift finite."
        " R11j: no evaluation method of a torch-side module or semiring (forward, evaluate, apply_reduce, einsum, ..; not reset_parameters, not sample) switches gradient tracking off (no_grad / set_grad_enabled / inference_mode) or detaches anything but the shift of a stable reduce. R11g: a hand-written backward (ComplexSafeLog) repairs non-finite values only -- no ordering comparison (abs(x) < eps) masks the gradient on an open set. R11h: compile_tensor_parameter passes requires_grad = p.learnable, not restricted through dtype.is_floating_point alone (False for complex dtypes: learnable complex parameters would be compiled frozen)."
        ' R11c add-back: the stable reduce of the log-space semirings adds back what it subtracted -- the sum of the shifts over *all* inputs (func is multilinear in them): a single shared shift added once gives wrong values and, through them, wrong gradients for every product of log-space operands.'
        " R11n: the logarithm that closes the stable reduce of every log-space semiring is one of the repository's guarded autograd logarithms (safelog / csafelog): torch.log back-propagates 0 / 0 = nan below a unit that evaluates to exactly 0 while the output is non-zero (gradients are finite wherever the function value is non-zero); the real and the complex semiring agree."
    ),
    not_decided=(
        "that gradients equal the true derivatives (numerical: finite differences, autograd semantics); gradients with respect to "
        "inputs; the absence of gradient-severing constructs (detaching the log-sum-exp shift is behaviour-preserving, so no "
        "sound syntactic rule exists)."
    ),
    run=run,
    floors={"R11n": 2, "R11j": 50, "R1c": 1, "R3d": 3, "R11e": 2, "R11c": 2},
)
