"""C18 -- compiler registry and pipeline context stay coherent over any call history."""
from ..rules import r6e as r6t_mod
from ..core import Ctx, Ob, PropSpec
from ..rules import r6, r6e, r14


def run(ctx: Ctx) -> list[Ob]:
    obs = r6.r6a(ctx) + r6.r6b(ctx) + r6.r6c(ctx) + r6.r6d(ctx)
    obs += r6e.r6e(ctx)
    obs += r6e.r6w(ctx)
    obs += r6.r6g(ctx)
    obs += r14.edge_multiplicity(ctx)
    obs += r6t_mod.r6t(ctx)
    return obs


SPEC = PropSpec(
    pid="C18",
    title="Compiler registry and pipeline context stay coherent",
    decides=(
        "R6a: for both ContextVar-based context managers, __enter__ stores the token of CV.set(self) on every path and returns "
        "self; EVERY normal path of __exit__ (the exit methods take no decision on the exception arguments, so also when the block "
        "raised) passes through CV.reset(<that token>) on the same variable, never swallows the exception, and exits the wrapped "
        "operator registry with the exception triple forwarded (must-pass-through on the CFG). R6b: compile_pipeline is reachable "
        "only through the false edge of is_compiled; the pipeline loop ranges over pipeline_topological_ordering([sc]) and compiles "
        "each circuit once; every normal exit of _compile_circuit registers the post-processed, initialised circuit under its "
        "symbolic circuit. R6c: BiMap.add writes both directions after asserting both absent, getters read their own side, "
        "CompiledCircuitsMap / AbstractCompiler delegate side-consistently. R6d: every PipelineContext operator checks has_symbolic "
        "for each operand, maps it, calls the same-named SF operator with its own registry and returns self.compile(result); every "
        "module-level function resolves the active context and delegates with all its arguments. R6e: no function that constructs and returns an object (in particular OperatorRegistry.from_default_rules, which gives each pipeline context its own registry and token slot) is memoised with functools.cache / lru_cache."
        " R6w: no class of the compile path (backend, pipeline, BiMap, operator registry) keeps its registrations in a weak container -- an association that lives only while the caller holds the symbolic circuit makes the operator functions on compiled circuits fail for every derived circuit."
        ' R14s: successor lists keep one entry per edge -- topological_ordering / layerwise_topological_ordering count predecessors with multiplicity and decrement once per listed successor, so graph_nodes_outgoings appends once per occurrence (no set, no membership guard) and every explicit outcomings_fn is a node_outputs method or a lookup in such a mapping, never a membership filter: c * c has operands (c, c), and a successor listed once while its predecessors are counted twice never becomes ready (the pipeline then reports a cycle instead of compiling the operand first).'
        ' R6t: a registry class constructed from a mapping it later mutates (add_rule) copies that mapping in its constructor: the compilers are built from the module-level default rule tables, and a registry that keeps the dict it was given makes a rule added to one compiler / pipeline context active in every other one.'
        ' R6g: a generator-based context manager (contextlib.contextmanager) restores in the finally of a try containing its yield: an exception escaping the with-block is raised at the yield, and statements after it are skipped.'
    ),
    not_decided="re-entrancy of one context object (excluded by the property); thread/async interleavings of ContextVar (Python semantics).",
    run=run,
    floors={"R6t": 1, "R14s": 3, "R6e": 50, "R6a": 8, "R6b": 10, "R6c": 14, "R6d": 30},
)
