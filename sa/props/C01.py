"""C01 -- compiled circuit computes the function its symbolic circuit denotes (structural clauses)."""
from ..core import Ctx, Ob, PropSpec
from ..rules import r1, r4lite


def run(ctx: Ctx) -> list[Ob]:
    obs: list[Ob] = []
    obs += r1.r1a(ctx, r1.LAYER_REG)
    obs += r1.r1b(ctx, r1.LAYER_REG)
    obs += r1.r1c(ctx, r1.LAYER_REG, True)
    obs += r1.r1d(ctx)
    obs += r1.r1a(ctx, r1.PARAM_REG)
    obs += r1.r1b(ctx, r1.PARAM_REG)
    obs += r1.r1c(ctx, r1.PARAM_REG, False)
    obs += r4lite.batch_squeeze(ctx)
    return obs


SPEC = PropSpec(
    pid="C01",
    title="Compiled circuit computes the function its symbolic circuit denotes",
    decides=(
        "R1a: every concrete symbolic layer / parameter-node class has a compilation rule (a circuit using it compiles); R1b: the rule "
        "registered for X constructs X's torch counterpart on every return path (a re-pointed registry row computes another function); "
        "R1c: every config key and parameter of the symbolic class flows into the counterpart's constructor (unit counts, arity, "
        "num_categories, total_count, degree, log_space, axes, parameter graphs through compile_parameter) -- a dropped keyword "
        "silently evaluates with a default; R1d: every layer rule forwards the compiler's semiring; R4 (size-dependent rank): no "
        "evaluation method of an input-function layer (forward / log_unnormalized_likelihood and the helpers that receive the "
        "input unchanged) squeezes the fold or batch axis of its (F, B, D) input -- the static form of 'each row depends only on "
        "its own row, whatever the batch size'."
    ),
    not_decided=(
        "numerical equality with the denoted function; the full tensor-shape contracts of the forward functions (shape "
        "interpreter of DESIGN 3.R4 not built); semiring tables (R11 not built); run-time address-book index arithmetic."
    ),
    run=run,
    floors={"R1a": 38, "R1b": 38, "R1c": 170, "R1d": 10, "R4": 8},
)
