"""C01 -- compiled circuit computes the function its symbolic circuit denotes (structural clauses)."""
from ..core import Ctx, Ob, PropSpec
from ..rules import r1


def run(ctx: Ctx) -> list[Ob]:
    obs: list[Ob] = []
    obs += r1.r1a(ctx, r1.LAYER_REG)
    obs += r1.r1b(ctx, r1.LAYER_REG)
    obs += r1.r1c(ctx, r1.LAYER_REG, True)
    obs += r1.r1d(ctx)
    obs += r1.r1a(ctx, r1.PARAM_REG)
    obs += r1.r1b(ctx, r1.PARAM_REG)
    obs += r1.r1c(ctx, r1.PARAM_REG, False)
    return obs


SPEC = PropSpec(
    pid="C01",
    title="Compiled circuit computes the function its symbolic circuit denotes",
    decides=(
        "R1a: every concrete symbolic layer / parameter-node class has a compilation rule (a circuit using it compiles); R1b: the rule "
        "registered for X constructs X's torch counterpart on every return path (a re-pointed registry row computes another function); "
        "R1c: every config key and parameter of the symbolic class flows into the counterpart's constructor (unit counts, arity, "
        "num_categories, total_count, degree, log_space, axes, parameter graphs through compile_parameter) -- a dropped keyword "
        "silently evaluates with a default; R1d: every layer rule forwards the compiler's semiring."
    ),
    not_decided=(
        "numerical equality with the denoted function; tensor-shape contracts of the forward functions (the shape interpreter "
        "of DESIGN 3.R4 was not built: the D11 _polyval squeeze defect is therefore not reported by this check); run-time "
        "address-book index arithmetic."
    ),
    run=run,
    floors={"R1a": 38, "R1b": 38, "R1c": 170, "R1d": 10},
)
