"""C01 -- compiled circuit computes the function its symbolic circuit denotes (structural clauses)."""
from ..rules import r6e as r6t_mod
from ..core import Ctx, Ob, PropSpec
from ..rules import r1, r3, r4, r4lite, r7i, r8, r10, r11, r12b, r14


def run(ctx: Ctx) -> list[Ob]:
    obs: list[Ob] = []
    obs += r1.r1a(ctx, r1.LAYER_REG)
    obs += r1.r1b(ctx, r1.LAYER_REG)
    obs += r1.r1c(ctx, r1.LAYER_REG, True)
    obs += r1.r1d(ctx)
    obs += r1.r1a(ctx, r1.PARAM_REG)
    obs += r1.r1b(ctx, r1.PARAM_REG)
    obs += r1.r1c(ctx, r1.PARAM_REG, False)
    obs += r4lite.batch_squeeze(ctx)
    obs += r4.layer_contracts(ctx, {"R4b"})
    obs += r8.run_guards(ctx, r8.GUARDS_MATCHERS)
    obs += r11.run(ctx)
    obs += r1.r1d_sweep(ctx)
    obs += r12b.layer_rewrites(ctx)
    obs += r11.r11d(ctx)
    obs += r4.gather_contracts(ctx) + r4.output_contract(ctx)
    obs += r3.r3g(ctx)
    obs += r14.edge_multiplicity(ctx)
    obs += r14.membership_in_mapping(ctx)
    obs += r3.r3l(ctx) + r3.r3m(ctx)
    obs += r11.r11i(ctx)
    obs += r12b.param_rewrites(ctx)
    obs += r10.r10i(ctx)
    obs += r7i.rewiring_order(ctx, ['TorchCompiler._compile_circuit'], module='cirkit.backend.torch.compiler', with_outputs=True)
    obs += r6t_mod.r6t(ctx)
    return obs


SPEC = PropSpec(
    pid="C01",
    title="Compiled circuit computes the function its symbolic circuit denotes",
    decides=(
        "R1a: every concrete symbolic layer / parameter-node class has a compilation rule (a circuit using it compiles); R1b: the rule "
        "registered for X constructs X's torch counterpart on every return path (a re-pointed registry row computes another function); "
        "R1c: every config key and parameter of the symbolic class flows into the counterpart's constructor (unit counts, arity, "
        "num_categories, total_count, degree, log_space, axes, parameter graphs through compile_parameter) -- a dropped keyword "
        "silently evaluates with a default; R1d: every layer rule forwards the compiler's semiring; R4 (size-dependent rank): no "
        "evaluation method of an input-function layer (forward / log_unnormalized_likelihood and the helpers that receive the "
        "input unchanged) squeezes the fold or batch axis of its (F, B, D) input -- the static form of 'each row depends only on "
        "its own row, whatever the batch size'; R4b (symbolic shape interpretation of the source, nothing executed): for every "
        "concrete torch layer and every admissible abstract configuration of its constructor (arity 1..3, probs / logits, optional "
        "log-partition, wrapped evidence layers; all sizes symbolic, parameter shapes taken from the constructor's own validation), "
        "forward maps (F, H, B, Ki) -- (F, B, D) for input layers, a batch size for constant layers -- to exactly (F, B, Ko): the "
        "'(batch, outputs, units)' clause per layer, for every size at once; R8: the two optimiser chain matchers refuse (return None) a non-root entry with fan-out > 1 and a "
        "non-last entry with fan-in > 1 (optimize=True must not rewire shared sub-circuits); R11 (semiring tables, sibling agreement): the four operators of each "
        "semiring belong to one algebra (linear: sum/prod/add/mul, log: logsumexp/sum/logaddexp/add) and forward dim / keepdim; every "
        "ordered pair of semirings has a registered morphism whose exp / log matches the two families; the stable reduce of a "
        "log-space semiring shifts every input by its own maximum over dim (keepdim=True), makes the shift finite before subtracting "
        "(an all -inf row is log 0, not nan), adds the shifts back and drops the reduced axis when keepdim is False. R12b: every layer fuse rule of the optimiser (sum collapse, Tucker, CP) returns a layer that, interpreted on the same abstract input as the chain it replaces, has the same result shape, element order and parameter/data contraction pairing, and carries the compiler's semiring. R4l (element order): a Kronecker layer lists the units of input 0 major, and a sum layer contracts its weight columns against the inputs flattened arity major ([H, Ki]) -- the orders the mixing-weight parameter, the Tucker layer and sampling assume. R11d: stable exponentials shift by a maximum along an axis. R4g (one iteration of LayerAddressBook.lookup and TorchCircuit._evaluate_layers, interpreted on abstract address-book entries): an inner layer fed from one or two source modules with (F1|F2, B, K) outputs and a fold index (F, H) receives (F, H, B, K); an input layer with scope index (F, D) receives (F, B, D) of the (B, Dt) circuit input; the output entry stacks (O, B, K), returned as (B, O, K) -- '(batch, outputs, units)' -- or (O, K) for a circuit over no variables. R7i (compiler): TorchCompiler._compile_circuit wires every compiled layer to the images of its symbolic inputs, and collects the outputs, by order-preserving total maps over sc.layer_inputs(sl) / sc.outputs ('outputs in the declared order'). R4u: forward of every inner layer reads all of its inputs."
        " R3g (a compiled circuit is also one compiled with fold=True): the address-book builders skip the gather of an operand only when its cumulative fold index equals range(<number of folds of the module it reads>) -- a bound derived from anything else hands a module more folds than it addresses, and every later slice offset is wrong."
        " R10i: no evaluation method of a torch-side module updates in place (augmented assignment, name_ method, item assignment) a tensor that aliases one of its arguments -- the arguments are the stored outputs of other modules, handed out as views by the address book."
        " R11i: every semiring's cast returns a floating-point tensor at its own precision (itself, or converted with a dtype derived from x.dtype), never at torch.get_default_dtype(). R12b also for the parameter-graph rewrites the optimiser applies (log-softmax fusion, reduce-sum of an outer product as an einsum): same shape, same element order."
        " R3l: the offsets by which the address-book builders address fold j of input module k (offset[k] + j) are the exclusive prefix sums of the fold counts -- an accumulate / cumsum over num_folds with a leading 0, or a running variable updated additively; a running offset that is overwritten instead of accumulated is right for one or two input modules and reads another operand's folds from the third on. R3m: no order-changing operation (sorted, reversed, set, .sort()) is applied to a fold index in the modules that build and use address books: entry i of a fold index describes fold i, and the consumers read folds by position."
        ' R14s: successor lists keep one entry per edge -- topological_ordering / layerwise_topological_ordering count predecessors with multiplicity and decrement once per listed successor, so graph_nodes_outgoings appends once per occurrence (no set, no membership guard) and every explicit outcomings_fn is a node_outputs method or a lookup in such a mapping, never a membership filter: c * c has operands (c, c), and a successor listed once while its predecessors are counted twice never becomes ready (the pipeline then reports a cycle instead of compiling the operand first).'
        ' R14t: a membership test `x in mapping` whose left side has, by the annotations of the function, the value type of the annotated dict and not its key type is always False (a match looked up among the modules): the selection bookkeeping it guards is skipped.'
        ' R6t: a registry class constructed from a mapping it later mutates (add_rule) copies that mapping in its constructor: the compilers are built from the module-level default rule tables, and a registry that keeps the dict it was given makes a rule added to one compiler / pipeline context active in every other one.'
    ),
    not_decided=(
        "numerical equality with the denoted function (the value computed by a correctly shaped and correctly ordered "
        "expression); run-time address-book index arithmetic beyond the gather contracts R4g and the no-op shortcut R3g."
    ),
    run=run,
    floors={"R6t": 1, "R14s": 3, "R3l": 2, "R3m": 8, "R10i": 40, "R3g": 2, "R4u": 10, "R7i": 2, "R4g": 6, "R11d": 2, "R4l": 2, "R12b": 7, "R1a": 38, "R1b": 38, "R1c": 170, "R1d": 10, "R4": 8, "R4b": 25, "R8": 12, "R11a": 12, "R11b": 12, "R11c": 10},
)
