"""C15 -- sampling (structural clauses: tensor-shape contracts of the sampling chain)."""
from ..core import Ctx, Ob, PropSpec, ok, viol
from ..rules import r4, r8, r10, r14

INNER = r4.INNER

# single named exception (one symbol, one reason)
R4T_EXCEPTIONS = {
    "cirkit.backend.torch.layers.optimized.TorchTensorDotLayer": "only built by the optimiser for sum layers whose weight is a "
    "Kronecker *parameter* (products of circuits): outside C15's domain of normalised monotonic circuits built from plain weights",
}


def sample_coverage(ctx: Ctx) -> list[Ob]:
    """R4t: the sampling query calls ``layer.sample`` on every inner layer of the compiled circuit;
    the base implementation refuses (raises TypeError).  Every concrete inner layer class therefore
    has to override it, or sampling fails for the circuits the compiler / optimiser builds with it."""
    repo = ctx.repo
    obs: list[Ob] = []
    base = repo.cls(INNER)
    for c in repo.subclasses(base):
        if not repo.is_concrete(c):
            continue
        if c.qualname in R4T_EXCEPTIONS:
            continue
        f = repo.lookup(c, "sample")
        if f is None or f.cls is None or f.cls.qualname == INNER:
            obs.append(viol("R4t", c.qualname, "sample", "inherits the refusing TorchInnerLayer.sample: the sampling query raises TypeError on every compiled circuit that contains this layer", c.loc))
        else:
            obs.append(ok("R4t", c.qualname, "sample", f"overridden in {f.cls.name}", f.loc))
    obs += r14.sampling_leaves_rng_alone(ctx)
    return obs


def run(ctx: Ctx) -> list[Ob]:
    obs: list[Ob] = []
    obs += r4.layer_contracts(ctx, {"R4s"})
    obs += r4.query_contracts(ctx, {"pad", "sample-call"})
    obs += sample_coverage(ctx)
    obs += r14.sampling_weight_guard(ctx)
    obs += r14.narrowing_casts(ctx)
    obs += [o for o in r10.r10i(ctx) if o.instance.endswith(':sample')]
    obs += r8.run_guards(ctx, [g for g in r8.GUARDS_QUERIES if "SamplingQuery" in g.func])
    return obs


SPEC = PropSpec(
    pid="C15",
    title="Sampling draws from the distribution the circuit encodes",
    decides=(
        "R4s (symbolic shape interpretation of the source, nothing executed): for every concrete torch layer and every admissible "
        "abstract configuration of its constructor (arity 1..3, probs / logits, optional log-partition; sizes symbolic), sample() "
        "keeps the contract of the sampling chain -- input layers return (F, Ko, N), inner layers map (F, H, Ki, N, D) to "
        "(F, Ko, N, D) with Ko the layer's own number of output units (a Kronecker layer that combines the sample axis instead of the "
        "unit axis returns (F, Ki, N^H, D)) -- and SamplingQuery._pad_samples maps (F, Ko, N) to (F, Ko, N, max(scope) + 1), the column axis being addressed by variable id as the D axis of the circuit input is, not (F, Ko, N, |scope|) ('each variable "
        "column is filled from the input layer of that variable' needs that layout); R4t: every concrete inner layer class overrides "
        "the refusing base sample() (otherwise the query raises for the circuits built with it, e.g. under optimize=True); R8: the "
        "guards of SamplingQuery (__init__, __call__) fire under every valuation; R4q sample-call: SamplingQuery.__call__, interpreted on an abstract (O, K, N, D) result of the sampling pass, returns (num_samples, num_variables) whose rows are the sample axis and whose columns are the variable axis (element order, not only sizes). R4u: sample() of every inner layer reads all of its inputs (selections x[:, i] of the arity axis cover 0..H-1, or the axis is reduced / unbound / flattened as a whole): an input that is never read leaves its variables at zero in every sample."
        " R14n: the sign test by which sample() of a sum layer refuses is `weight < 0` (or its negation), never a strict-positivity test -- mixing layers and sparse mixtures have exact zeros. R14p: no cast of sampled values to an integer type that cannot hold every category admitted by its guard (int8 holds 128 values). R4s randomness: sample() of every input layer draws one independent random number per returned entry -- some random source (distribution.sample, randn, rand, multinomial) has as many elements as the (F, Ko, N) result; noise of shape (N,) broadcast over folds and units leaves every marginal right and the joint wrong under fold=True. R10i: no sample() updates in place a tensor that aliases its argument (`y = x[:, 0]; y += ..`): the argument is the stored output of another module, handed out as a view by the address book."
        ' R14y: nothing in the torch backend seeds, forks or restores a random generator (manual_seed, fork_rng, set_rng_state): two calls of a sampling query are independent draws.'
    ),
    not_decided="the distribution of the samples (statistical); which mixture component is chosen; positivity of the returned samples.",
    run=run,
    floors={"R10i": 6, "R4u": 6, "R4s": 14, "R4q": 2, "R4t": 5},
    assumptions=["the shape rules of the torch / einops operators modelled in sa/tensor_ops.py (each validated against torch at development time, design_notes/devcheck)"],
)
