"""C16 -- region graphs (structural clauses)."""
from ..core import Ctx, Ob, PropSpec
from ..rules import extra2, r7n, r8, r9, r14


def run(ctx: Ctx) -> list[Ob]:
    return [
        extra2.must_call_on_all_paths(
            ctx,
            "cirkit.templates.region_graph.graph.RegionGraph.__init__",
            "_check_structure",
            "R6",
            "validates-on-construction",
            "every region graph handed out by the construction algorithms is validated only here",
        )
    ] + r8.run_guards(ctx, r8.GUARDS_REGION_GRAPH) + r9.r9(ctx, ["cirkit.templates.region_graph.graph.RegionGraph.build_circuit"]) + (r9.r9_sweep(ctx) if ctx.tier == "thorough" else []) + r14.count_table_covers_bins(ctx) + r9.root_units(ctx) + r9.builders_never_refuse(ctx) + r7n.structured(ctx) + r7n.identity(ctx) + r7n.canonical(ctx) + r14.groupby_sorted(ctx, ('cirkit.templates.region_graph',)) + r14.sum_width_from_input(ctx) + r14.numpy_scalars_into_scopes(ctx) + r14.mst_zero_edges(ctx)


SPEC = PropSpec(
    pid="C16",
    title="Region graphs are valid and build_circuit succeeds on them",
    decides=(
        "R6 (must-call): every normal exit of RegionGraph.__init__ passes through _check_structure(), so every graph returned by any "
        "construction algorithm has been validated; R8 (truth table on the CFG): _check_structure cannot complete an iteration when a "
        "region has a non-partition child, a partition's scope differs from its region's, a node is of neither kind, a partition has "
        "a non-region child, or the children of a partition do not cover its scope / overlap ('partitions that split their region "
        "into disjoint non-empty regions covering it'); R9 (path rule on the CFG of RegionGraph.build_circuit): no path leads from the true branch of isinstance(node, A) to an "
        "assertion / branch that requires isinstance(node, B) for a class B disjoint from A without re-binding the loop variable or "
        "leaving the iteration -- such a path is a certain crash for every A node, i.e. build_circuit cannot succeed on any region "
        "graph for that argument combination. Thorough tier: the same rule over every isinstance-dispatched loop in cirkit/. R7n: RegionGraph.is_structured_decomposable compares decompositions per *scope* (keyed by .scope), not per region node, and no mapping of the class goes from a scope to a node or node index (several region nodes may share a scope: dump / load would re-attach partitions to another parent)."
        " R14a: every itertools.groupby in the region-graph package runs over a sequence sorted by the same key (groupby merges adjacent elements only: partitions of one scope separated by a different order are never compared). R14e: in every region-graph function with an np.ndarray parameter, the array elements that become members of a Scope / RegionNode / PartitionNode pass through int(..) (flow-sensitive taint) -- a numpy integer in a scope survives construction and compilation and makes dump() raise. R14j: the dense weight matrix handed to scipy's minimum_spanning_tree is the negation of weights shifted by a positive constant (zero entries of a dense matrix are missing edges; mutual information can be exactly 0). R14d: in build_circuit the input width of every sum_factory(..) call derives from .num_output_units of the layer it is wired to (or is the unit count the input layer underneath is built with) -- 'explicit sum/product factories' includes product factories that do not preserve the width."
        ' R14r: the joint-count table of the Chow-Liu mutual information is as wide as the category indices it is scattered with -- a path-sensitive walk of ChowLiuTree (forking at every if, nothing executed) tracks the upper bound of the (re-binned) data entries, (K - 1) // (K // B), and the expression passed as the table side; `bound < side` is proved by x // d <= x when the side is K itself, and otherwise refuted by a bounded search (1 <= B <= K <= 48) for a counter-model of the two closed-form integer expressions (K = 10, B = 4: largest bin 4, side 4).'
        ' R9u: every store node_to_layer[<region>] = L of build_circuit and its nested builders is either control-dependent on the region having consumers (not a root) or L is built with num_classes output units (directly, or through `num_sum_units if <region outputs> else num_classes`): a root that is a leaf region must not come out with num_input_units units. R9n: the builders of the named abstractions (cp, cp-t, tucker) contain no refusal: the numbers of units below one partition legitimately differ on unbalanced region graphs (input regions vs inner regions).'
    ),
    not_decided="validity of the generated graphs as a function of run-time sizes / seeds; sufficiency of _check_structure; JSON round trip.",
    run=run,
    floors={"R9u": 6, "R9n": 3, "R14r": 2, "R14e": 1, "R14d": 3, "R7n": 3, "R9": 1, "R8": 6, "R6": 1},
)
