"""C16 -- region graphs (structural clauses)."""
from ..core import Ctx, Ob, PropSpec
from ..rules import r9


def run(ctx: Ctx) -> list[Ob]:
    return r9.r9(ctx, ["cirkit.templates.region_graph.graph.RegionGraph.build_circuit"]) + (r9.r9_sweep(ctx) if ctx.tier == "thorough" else [])


SPEC = PropSpec(
    pid="C16",
    title="Region graphs are valid and build_circuit succeeds on them",
    decides=(
        "R9 (path rule on the CFG of RegionGraph.build_circuit): no path leads from the true branch of isinstance(node, A) to an "
        "assertion / branch that requires isinstance(node, B) for a class B disjoint from A without re-binding the loop variable or "
        "leaving the iteration -- such a path is a certain crash for every A node, i.e. build_circuit cannot succeed on any region "
        "graph for that argument combination. Thorough tier: the same rule over every isinstance-dispatched loop in cirkit/."
    ),
    not_decided="validity of the generated graphs as a function of run-time sizes / seeds; sufficiency of _check_structure; JSON round trip.",
    run=run,
    floors={"R9": 1},
)
