"""C17 -- parameter initialisation (structural clauses)."""
from ..rules import r5 as r5h_mod
from ..rules import r6e as r6t_mod
from ..rules import r14 as r14w_mod
from ..core import Ctx, Ob, PropSpec
from ..rules import extra2, r1, r3, r4, r4lite, r10


def run(ctx: Ctx) -> list[Ob]:
    obs: list[Ob] = []
    obs += r1.r1a(ctx, r1.INIT_REG)
    obs += r1.r1_init(ctx)
    obs += [o for o in r1.r1c(ctx, r1.PARAM_REG, False) if o.construct.endswith(("compile_tensor_parameter", "compile_constant_parameter"))]
    obs += [o for o in r3.r3d(ctx) if "TorchTensorParameter" in o.construct or "tensor" in o.instance.lower()]
    obs += r4lite.init_application(ctx)
    obs += r4.initializer_contracts(ctx)
    obs += r10.r10j(ctx)
    obs.append(extra2.must_call_on_all_paths(ctx, 'cirkit.backend.torch.parameters.nodes.TorchTensorParameter.reset_parameters', '_initializer_', 'R4i', 'reset-initialises', 'reset_parameters must re-draw / re-copy every tensor from its initialiser, learnable or not: constants are copied back and frozen random tensors re-drawn on every reset'))
    obs += r5h_mod.r5h(ctx)
    obs += r6t_mod.r6t(ctx)
    obs += r14w_mod.arrays_copied_as_given(ctx)
    obs += r5h_mod.r5i(ctx)
    return obs


SPEC = PropSpec(
    pid="C17",
    title="Parameter initialisation follows the symbolic initializer",
    decides=(
        "R1a: every concrete symbolic Initializer has a compilation rule; R1b/R1c (initialisers): each rule returns a partial of the "
        "matching torch initialiser and feeds each keyword from the same-named attribute (a/b, mean/stddev->std, alpha, axis->dim, "
        "value); the tensor/constant parameter rules forward initializer, learnable->requires_grad and dtype; R3d: fold groups of "
        "tensor parameters are keyed on everything the folder copies from the first of the group (shape, requires_grad, dtype); R4 "
        "(rank clause): because a compiled initialiser shifts non-negative axes by one (it expects the leading fold axis), every "
        "application site of an initialiser in the torch backend hands it a tensor that still has that axis (the whole tensor or a "
        "slice t[i:i+1], never the integer index t[i]). R4i (symbolic shape + layout interpretation of dirichlet_): for destination tensors of rank 2..4 (fold axis included) and every dim, the samples are written with exactly the destination's shape for all sizes and the simplex axis -- the one they sum to one along -- sits at dim (moving it with a transposition instead of a move also displaces the last axis: a rank-3 parameter with axis 0 and two different other sizes cannot be initialised)."
        " R4i list alpha: dirichlet_ is also interpreted with a per-category list of concentrations of symbolic length (the guard ties it to shape[dim]): the concentrations must end up along dim, not broadcast along the last axis. R4i reset: every normal exit of TorchTensorParameter.reset_parameters passes through the initialiser call (must-pass-through on the CFG) -- also for tensors that do not require gradients."
        " R10j: TorchCircuit.reset_parameters visits, for every layer, its params and (recursively) the layers in its sub_modules -- the tensors of a layer wrapped by an evidence layer are allocated and initialised with the rest."
        ' R5h: the two axis idioms put axis 0 on the right side -- in `d if d >= 0 else d + len(shape)` (normalisation) axis 0 stays, in `a if a < 0 else a + 1` (shift past the fold dimension) every non-negative axis, 0 included, moves by one; the branch taken at 0 is derived from the comparison operator of each such conditional expression.'
        ' R6t: a registry class constructed from a mapping it later mutates (add_rule) copies that mapping in its constructor: the compilers are built from the module-level default rule tables, and a registry that keeps the dict it was given makes a rule added to one compiler / pipeline context active in every other one.'
        ' R14w: an array constant is copied exactly whatever its memory layout and whenever it is (re-)initialised: what torch.from_numpy is given passes through np.ascontiguousarray / .copy() (it refuses negative strides), and an in-place initialiser takes the dtype from the tensor it fills, with no detour through torch.get_default_dtype().'
        ' R5i: a normalised axis (`a + len(shape) if a < 0 else a`) is range-checked at both ends (`0 <= a < len(..)`): an upper bound alone admits axes below -rank, which stay negative and index from the end, so the operation runs along another axis than the declared one.'
    ),
    not_decided=(
        "statistical moments of the samples."
    ),
    run=run,
    floors={"R5i": 8, "R14w": 3, "R6t": 1, "R5h": 8, "R4i": 9, "R1a": 4, "R1b": 4, "R1c": 12, "R4": 3},
)
