"""C14 -- parameter operators compute their documented tensor operation (structural clauses)."""
from ..rules import r5 as r5h_mod
from ..rules import r14 as r14u_mod
from ..core import Ctx, Ob, PropSpec
from ..rules import r5 as r5_, r1, r3, r4, r5, r4r, r12b, r11


def run(ctx: Ctx) -> list[Ob]:
    obs: list[Ob] = []
    obs += r1.r1a(ctx, r1.PARAM_REG)
    obs += r1.r1b(ctx, r1.PARAM_REG)
    obs += r1.r1c(ctx, r1.PARAM_REG, False)
    obs += r3.r3a(ctx)
    obs += [o for o in r3.r3c(ctx) if "parameters.nodes" in o.construct]
    obs += r3.r3f(ctx, "params")
    obs += r5.r5a(ctx)
    obs += r5.r5b(ctx)
    obs += r4.param_op_contracts(ctx)
    obs += r4r.param_rule_shapes(ctx)
    obs += r5.r5c(ctx)
    obs += r4.param_gather_contracts(ctx)
    obs += r5_.r5d(ctx)
    obs += r5_.r5f(ctx)
    obs += r3.r3i(ctx)
    obs += r3.r3j(ctx)
    obs += r12b.pattern_entry_subclasses(ctx)
    obs += r11.r11k(ctx)
    obs += r11.r11l(ctx)
    obs += r3.r3g(ctx) + r3.r3l(ctx) + r3.r3m(ctx)
    obs += r5h_mod.r5h(ctx)
    obs += r14u_mod.merged_node_lists_unique(ctx)
    obs += r1.r1e(ctx)
    obs += r12b.param_rewrites(ctx)
    obs += r5h_mod.r5i(ctx)
    return obs


SPEC = PropSpec(
    pid="C14",
    title="Parameter operators compute their documented tensor operation",
    decides=(
        "R1a/R1b/R1c over DEFAULT_PARAMETER_COMPILATION_RULES: every concrete symbolic parameter node has a compilation rule, the "
        "rule constructs the torch counterpart on every return path and forwards every hyper-parameter (config key) of the symbolic "
        "node to it (axis->dim, order, vmin/vmax, indices, shapes, learnable->requires_grad, dtype); R3a: config keys == __init__ "
        "parameters for every symbolic parameter node (copies made by Parameter.ref keep the hyper-parameters); R3c/R3f: the keyword "
        "set the folder re-instantiates a torch parameter node with covers its __init__ and every stored hyper-parameter is a config "
        "key; R5a: every axis attribute normalised against the un-folded shape is used in forward shifted by the fold dimension "
        "(attr + c, c >= 1); R5b: every hyper-parameter that determines the declared shape is read on some path from forward; "
        "R4a (symbolic shape interpretation of the source, nothing executed): for every concrete torch parameter operator, every "
        "input rank 1..3 and every axis (sizes symbolic), forward applied to inputs of shape (F, *in_shape_i) returns exactly "
        "(F, *self.shape) -- 'the result has the declared shape ... independently for every fold'; a broadcast, view, permute, einsum "
        "or index that only works when two independent sizes coincide is reported at the operator. R4p: every parameter-operator compile rule, interpreted on an abstract symbolic node (ranks 1..3, every axis), returns a torch node whose declared shape and normalised axis equal the symbolic node's. R4l (element order, layout typing): wherever a parameter operator creates an axis out of the units of several operands (outer product / sum, Kronecker, polynomial product, the three Gaussian-product statistics) the earlier operand is major -- sizes commute, element orders do not: a transposed flattening has the declared shape and the wrong values; flatten is in increasing axis order and the mixing-weight columns are arity major, the order the sum layer contracts them in. R5c: every return path of forward of a parameter node that registers an index tensor as a buffer (index parameter, pointer) reads that buffer. R4g: one iteration of ParameterAddressBook.lookup on abstract entries hands a node operands of shape (F, *s) gathered from one or two source nodes by a fold index, or the whole (F1, *s) tensor through the index-free form -- 'composite parameter graphs evaluate to the composition of their nodes, independently for every fold'."
        " R5d (exponent ramp, by abstract interpretation with integer-ramp values and slice origins): in TorchPolynomialDifferential.forward, for order 1 and 2 (3 in the thorough tier), every product of a slice of the coefficient axis with an integer ramp pairs the coefficient of x^n with the multiplier n (slice origin == first value of the ramp), one such step per order -- a hoisted arange sliced by the loop counter multiplies the later steps by shifted numbers of the right shape."
        " R5f: TorchScaledSigmoidParameter.forward, evaluated as a polynomial in vmin, vmax and S = sigmoid(x), is affine in S with value vmin at S = 0 and vmax at S = 1. R3i: in every config / fold_settings / params of a torch-side module an optional hyper-parameter is included under a None-test, never under a bare truthiness test (a bound of exactly 0.0 would be dropped when the folder / optimiser rebuilds the module from its config). R3j: every value a torch-side config returns is hashable (no list display / list(..) / Tensor.tolist(), directly or through a property): the folder uses (type, *fold_settings) with fold_settings = config.items() as a dictionary key. R12c: no strict subclass of a class named by an optimisation pattern's entries() redefines an evaluation method -- the matchers test isinstance, so such a subclass is rewritten by an identity that holds for its parent only."
        " R11k: any hand-written exp(x - max(x)) in a torch-side forward makes the shift finite first (an all -inf row is log 0, not nan), as the semiring reductions do."
        ' R11l: no log-likelihood multiplies an input-derived factor (a count x, n - x) by the unclamped logarithm of a parameter-derived probability: at the in-support point where the factor is 0 and the probability has rounded to 0 / 1 (a saturated sigmoid) that is 0 * -inf = nan; torch.xlogy / xlog1py or a clamp (as torch.distributions does) is required.'
        " R3g / R3l / R3m (the address book of a folded parameter graph is built by the same functions as the layers'): an index-free or slice form replaces a gather only under an element-by-element comparison of the cumulative index with a range bounded by the sources' fold counts (a test of fixed positions -- endpoints and length -- is satisfied by permuted and repeating indices); offsets are exclusive prefix sums of num_folds; fold indices are never re-ordered."
        ' R5h: the two axis idioms put axis 0 on the right side -- in `d if d >= 0 else d + len(shape)` (normalisation) axis 0 stays, in `a if a < 0 else a + 1` (shift past the fold dimension) every non-negative axis, 0 included, moves by one; the branch taken at 0 is derived from the comparison operator of each such conditional expression.'
        ' R14u: the constructors that merge the node lists of several operand graphs (Parameter.from_nary / TorchParameter.from_nary) de-duplicate the concatenation in order: operands sharing a sub-graph (log(q) + q) or the same operand twice (q * q) would otherwise list the shared nodes twice and the composite graph could not be ordered, compiled or evaluated.'
        ' R1e: a torch parameter node is not pickier than the symbolic node it is compiled from -- the atomic comparisons its constructor asserts on hyper-parameters both constructors take under the same name are among those the symbolic constructor asserts (a torch-side `0 <= vmin` would make a symbolically valid scaled sigmoid onto [-1, 1] fail at compile time).'
        ' R12b (parameter rewrites): every optimisation rewrite of a parameter sub-graph (log of softmax, ReduceSum of an outer product as einsum + flatten, ..) is interpreted on abstract operands and has to return the shape and the element layout of the graph it replaces -- composite graphs evaluate to the composition of their nodes under optimize=True as well.'
        ' R5i: a normalised axis (`a + len(shape) if a < 0 else a`) is range-checked at both ends (`0 <= a < len(..)`): an upper bound alone admits axes below -rank, which stay negative and index from the end, so the operation runs along another axis than the declared one.'
    ),
    not_decided="the mathematical content of each operator (numerical).",
    run=run,
    floors={"R5i": 8, "R1e": 6, "R14u": 2, "R5h": 8, "R3g": 2, "R3l": 2, "R3m": 8, "R3j": 40, "R12c": 8, "R3i": 4, "R5d": 2, "R4g": 3, "R5c": 2, "R4l": 60, "R4p": 80, "R1a": 28, "R1b": 28, "R1c": 100, "R3a": 60, "R3f": 60, "R5a": 9, "R5b": 12, "R4a": 100},
)
