"""C19 -- saved parameters reproduce the circuit after reload (structural clauses: registration discipline)."""
from ..core import Ctx, Ob, PropSpec
from ..rules import r10, r6p


def run(ctx: Ctx) -> list[Ob]:
    return r10.run(ctx) + r10.r10g(ctx) + r6p.r6p(ctx) + r6p.r6q(ctx) + r10.r10j(ctx) + r10.r10k(ctx) + r10.r10m(ctx) + r10.r10n(ctx)


SPEC = PropSpec(
    pid="C19",
    title="Saved parameters reproduce the circuit after reload",
    decides=(
        "R10 (registration discipline -- what puts a tensor into state_dict() at all): R10a every constructor parameter of a torch-side "
        "module class that is itself a module (TorchParameter, TorchLayer, TorchTensorParameter, ...) is stored by a plain attribute "
        "assignment (not inside a list / dict / tuple, not through object.__setattr__), so nn.Module registers it; R10b every value of a "
        "layer's `params` / `sub_modules` mapping is such a registered attribute; R10c TorchTensorParameter only ever stores None or an "
        "nn.Parameter in the attribute its forward returns, and returns that attribute itself; R10d the module sequence of "
        "TorchDiAcyclicGraph is an nn.ModuleList and AddressBook registers its index tensors as buffers; R10e index tensors built in "
        "constructors are registered buffers; R10f no torch-side module overrides the state-dict / __setattr__ hooks. Each clause is a "
        "necessary condition of 'the dictionary contains every learnable tensor' and of reload reproducing the outputs; R10g "
        "(evaluation purity): no evaluation method of a torch-side module stores anything on self -- a tensor memoised during an "
        "earlier evaluation is not part of the state dict and survives load_state_dict, so the reloaded circuit keeps answering "
        "from the values it had before; R6p (foreign tensors stay behind pointers): a tensor node owned by an already compiled "
        "circuit (X.deref() / retrieve_compiled_parameter(..)[0]) is only inspected or wrapped in a TorchPointerParameter by the "
        "backend -- as a regular node of a derived circuit's parameter graph it would be registered a second time (not 'exactly "
        "once') and re-initialised by the reset_parameters() ending the derived circuit's compilation, overwriting loaded values."
        " R10j: TorchCircuit.reset_parameters visits, for every layer, its params and (recursively) the layers in its sub_modules -- the tensors of a layer wrapped by an evidence layer are allocated and initialised with the rest."
        " R6q: no loop over torch's module-tree traversals (modules / children / parameters ..) applies a reset, an in-place write or an initialiser to its elements -- the tree contains the tensors pointer nodes refer to."
        " R10k ('exactly once' for derived circuits): a pointer registers its target as a child (it must, R10a: the dictionary of a derived circuit has to hold the tensors it evaluates), so a tensor with two pointers in one circuit (c * c) is listed under two keys unless a state_dict / _save_to_state_dict override or hook de-duplicates; the rule looks for that mechanism (known finding D26: there is none)."
        ' R10m: no evaluation method (forward, log_partition_function, integrate, sample, ..) assigns a persistent registered buffer: a cache registered as None and filled on first use makes the key set of the state dict depend on which queries an instance has answered.'
        ' R10n: a parameter node that holds another node (TorchPointerParameter) evaluates the stored target in forward and never returns a tensor bound from it elsewhere (reset_parameters, the constructor): a bound tensor follows in-place updates and silently stops following the operand when the operand re-allocates.'
    ),
    not_decided=(
        "torch's own state_dict / load_state_dict semantics; that a fresh compilation enumerates modules in the same order; numerical equality of the outputs."
    ),
    run=run,
    floors={"R10n": 1, "R10m": 10, "R6p": 4, "R10a": 15, "R10b": 12, "R10c": 3, "R10d": 2, "R10e": 3, "R10f": 50, "R10g": 60},
)
