"""Obligations, analysis context, evidence and known-findings plumbing."""

from __future__ import annotations

import json
import os
import time
from dataclasses import dataclass, field
from typing import Any, Callable

from .flow import ClassFacts
from .model import AnalysisError, Repo

VERIF = os.path.dirname(os.path.dirname(os.path.abspath(__file__)))


@dataclass
class Ob:
    """One obligation: a rule applied to one construct / instance of the repository."""

    rule: str  # e.g. 'R1c'
    construct: str  # qualified name of the function / class / call site owner
    instance: str  # what exactly (parameter name, keyword, guard, ...)
    status: str  # 'ok' | 'violation' | 'unresolved' | 'note'
    msg: str = ""
    loc: str = ""  # file:line
    nontrivial: bool = True  # the rule found the construct it constrains (not a vacuous pass)

    @property
    def key(self) -> str:
        return f"{self.rule}:{self.construct}:{self.instance}"

    def line(self) -> str:
        return f"{self.loc} {self.construct} -- {self.rule} -- {self.instance} -- {self.msg}"

    def sample(self) -> dict[str, Any]:
        return {
            "rule": self.rule,
            "site": self.loc,
            "construct": self.construct,
            "instance": self.instance,
            "verdict": self.status,
            "detail": self.msg,
        }


def ok(rule: str, construct: str, instance: str, msg: str = "", loc: str = "", nontrivial: bool = True) -> Ob:
    return Ob(rule, construct, instance, "ok", msg, loc, nontrivial)


def viol(rule: str, construct: str, instance: str, msg: str = "", loc: str = "") -> Ob:
    return Ob(rule, construct, instance, "violation", msg, loc)


def unres(rule: str, construct: str, instance: str, msg: str = "", loc: str = "") -> Ob:
    return Ob(rule, construct, instance, "unresolved", msg, loc, nontrivial=False)


def note(rule: str, construct: str, instance: str, msg: str = "", loc: str = "") -> Ob:
    return Ob(rule, construct, instance, "note", msg, loc, nontrivial=False)


class Ctx:
    """Analysis context shared by the rules of one run."""

    def __init__(self, root: str | None = None, tier: str = "quick"):
        self.repo = Repo(root)
        self.cf = ClassFacts(self.repo)
        self.tier = tier
        self.cache: dict[str, Any] = {}
        self.assumptions: list[str] = []
        self.stats: dict[str, int] = {}

    def memo(self, key: str, fn: Callable[[], Any]) -> Any:
        if key not in self.cache:
            self.cache[key] = fn()
        return self.cache[key]

    def count(self, key: str, n: int = 1) -> None:
        self.stats[key] = self.stats.get(key, 0) + n


@dataclass
class PropSpec:
    """What a property module exposes."""

    pid: str
    title: str
    decides: str  # the structural clauses decided (explanation for the evidence)
    not_decided: str
    run: Callable[[Ctx], list[Ob]]
    floors: dict[str, int] = field(default_factory=dict)  # rule-prefix -> min #obligations (domain)
    assumptions: list[str] = field(default_factory=list)


def load_known_findings() -> list[dict[str, Any]]:
    path = os.path.join(VERIF, "known_findings.json")
    if not os.path.exists(path):
        return []
    with open(path, encoding="utf-8") as f:
        data = json.load(f)
    return list(data.get("findings", []))


def write_evidence(
    pid: str,
    tier: str,
    seed: int,
    obs: list[Ob],
    spec: PropSpec,
    ctx: Ctx | None,
    wall: float,
    violations: list[Ob],
    known: list[tuple[Ob, dict[str, Any]]],
    errors: list[str],
    extra: dict[str, Any] | None = None,
) -> str:
    os.makedirs(os.path.join(VERIF, "evidence"), exist_ok=True)
    path = os.path.join(VERIF, "evidence", f"{pid}.json")
    checked = [o for o in obs if o.status in ("ok", "violation")]
    discharged = [o for o in obs if o.status == "ok"]
    nontrivial_keys = {o.key for o in discharged if o.nontrivial}
    by_rule: dict[str, int] = {}
    for o in checked:
        by_rule[o.rule] = by_rule.get(o.rule, 0) + 1
    # samples: a few of every rule, violations first
    samples: list[dict[str, Any]] = [o.sample() for o in violations[:20]]
    seen_rules: dict[str, int] = {}
    for o in checked:
        if seen_rules.get(o.rule, 0) < 3:
            seen_rules[o.rule] = seen_rules.get(o.rule, 0) + 1
            samples.append(o.sample())
    coverage: dict[str, Any] = {
        "explanation": (
            f"STATIC decision of structural clauses that are necessary conditions of {pid} "
            f"({spec.title}). Decided: {spec.decides} NOT decided (out of reach of static analysis "
            f"here): {spec.not_decided}"
        ),
        "evaluations": len(checked),
        "distinct_nontrivial": len(nontrivial_keys),
        "rule": (
            "one evaluation = one rule instance (rule id + construct + instance) enumerated from "
            "the repository's class hierarchy / registries / call sites and decided on the current "
            "source; non-trivial = the rule matched the construct it constrains (not a vacuous "
            "pass); distinct = distinct (rule, construct, instance) keys"
        ),
        "obligations": len(checked),
        "discharged": len(discharged),
        "unresolved": [o.sample() for o in obs if o.status == "unresolved"][:60],
        "notes": [o.sample() for o in obs if o.status == "note"][:40],
        "obligations_by_rule": by_rule,
        "samples": samples,
        "known_findings_matched": [
            {"key": o.key, "what": kf.get("what", "")} for o, kf in known
        ],
        "violations_reported": [o.sample() for o in violations],
        "analysis_errors": errors,
        "exhaustive": not errors,
        "files_analysed": len(ctx.repo.modules) if ctx else 0,
        "functions_analysed": len(ctx.repo.functions) if ctx else 0,
        "classes_analysed": len(ctx.repo.classes) if ctx else 0,
        "floors": spec.floors,
        "stats": dict(ctx.stats) if ctx else {},
    }
    if extra:
        coverage.update(extra)
    ev = {
        "property_id": pid,
        "tier": tier,
        "seed": seed,
        "level": "other",
        "coverage": coverage,
        "assumptions": list(spec.assumptions)
        + (ctx.assumptions if ctx else [])
        + [
            "Python semantics of the AST constructs modelled (assignment, attribute access, calls, "
            "if/for/while/try/with/return/raise)",
            "the repository is analysed as parsed from its working tree; dynamically generated "
            "code (none in cirkit) would not be seen",
        ],
        "wall_s": round(wall, 3),
        "violations": len(violations),
    }
    tmp = path + ".tmp"
    with open(tmp, "w", encoding="utf-8") as f:
        json.dump(ev, f, indent=1, sort_keys=False)
    os.replace(tmp, path)
    return path
