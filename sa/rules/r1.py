"""R1 -- registry exhaustiveness and carry (symbolic -> torch compile rules)."""

from __future__ import annotations

import ast
import re
from dataclasses import dataclass

from ..core import Ctx, Ob, note, ok, unres, viol
from ..flow import LocalDefs, maximal_chains
from ..model import (
    AnalysisError,
    ClassInfo,
    FuncInfo,
    ModuleInfo,
    bind_call,
    dotted,
    returns_of,
    unparse,
)

LAYER_REG = ("cirkit.backend.torch.rules.layers", "DEFAULT_LAYER_COMPILATION_RULES", "cirkit.symbolic.layers.Layer")
PARAM_REG = (
    "cirkit.backend.torch.rules.parameters",
    "DEFAULT_PARAMETER_COMPILATION_RULES",
    "cirkit.symbolic.parameters.ParameterNode",
)
INIT_REG = (
    "cirkit.backend.torch.rules.initializers",
    "DEFAULT_INITIALIZER_COMPILATION_RULES",
    "cirkit.symbolic.initializers.Initializer",
)

# single named exceptions (one symbol, one reason)
R1A_EXCEPTIONS = {
    "cirkit.symbolic.parameters.OuterParameterOp": "intermediate base of OuterProduct/OuterSum "
    "declared without ABC; never instantiated by the library",
}

# symbolic hyper-parameter name -> torch keyword name, where the two sides use different words
SYNONYMS = {"axis": "dim", "scope": "scope_idx", "stddev": "std", "value": "array"}


@dataclass
class Row:
    key: ClassInfo
    rule: FuncInfo
    loc: str
    regmod: ModuleInfo


def registry_rows(ctx: Ctx, reg: tuple[str, str, str]) -> list[Row]:
    def build() -> list[Row]:
        m, d = ctx.repo.registry_dict(reg[0], reg[1])
        rows = []
        for k, v in zip(d.keys, d.values):
            if k is None:
                raise AnalysisError(f"{reg[1]}: dict unpacking in registry literal not understood")
            kc = ctx.repo.get_class(m, k)
            f = ctx.repo.get_function(m, v)
            if kc is None or f is None:
                raise AnalysisError(
                    f"{reg[1]}: cannot resolve row {unparse(k)}: {unparse(v)} (line {k.lineno})"
                )
            rows.append(Row(kc, f, f"{m.relpath}:{k.lineno}", m))
        return rows

    return ctx.memo("rows:" + reg[1], build)


# ------------------------------------------------------------------------------------------ R1a
def r1a(ctx: Ctx, reg: tuple[str, str, str]) -> list[Ob]:
    rows = registry_rows(ctx, reg)
    keys = {r.key.qualname for r in rows}
    base = ctx.repo.cls(reg[2])
    out: list[Ob] = []
    for c in ctx.repo.subclasses(base):
        if not ctx.repo.is_concrete(c):
            continue
        if c.qualname in R1A_EXCEPTIONS:
            out.append(note("R1a", c.qualname, "registry-row", "exception: " + R1A_EXCEPTIONS[c.qualname], c.loc))
            continue
        if c.qualname in keys:
            out.append(ok("R1a", c.qualname, "registry-row", f"has a rule in {reg[1]}", c.loc))
        else:
            out.append(
                viol(
                    "R1a",
                    c.qualname,
                    "registry-row",
                    f"concrete symbolic class without a compilation rule in {reg[1]} "
                    "(compiling any circuit that contains it fails / falls back to a base rule)",
                    c.loc,
                )
            )
    # duplicate keys silently shadow each other in a dict literal
    seen: dict[str, str] = {}
    for r in rows:
        if r.key.qualname in seen:
            out.append(viol("R1a", r.key.qualname, "duplicate-row", f"registered twice ({seen[r.key.qualname]}, {r.loc})", r.loc))
        seen[r.key.qualname] = r.loc
    return out


# ---------------------------------------------------------------------------------- constructor
def constructed(ctx: Ctx, f: FuncInfo) -> list[tuple[ast.Call, ClassInfo | None, LocalDefs]]:
    """Constructor calls returned by rule *f* (one per return path, expanded through locals)."""
    ld = LocalDefs(f.node)
    out = []
    for r in returns_of(f.node):
        if r.value is None:
            continue
        found = False
        for e in ld.expand(r.value):
            if isinstance(e, ast.Call):
                # cast(T, x) wrappers are transparent
                c = ctx.repo.get_class(f.module, e.func)
                if c is not None:
                    out.append((e, c, ld))
                    found = True
        if not found:
            out.append((r.value, None, ld))  # type: ignore[arg-type]
    return out


def sym_param_name(f: FuncInfo) -> str | None:
    ps = [p for p in f.params if p.kind == "pos"]
    return ps[1].name if len(ps) >= 2 else None


def arg_sources(ld: LocalDefs, expr: ast.AST, root: str) -> set[tuple[str, int | None]]:
    """(attribute, constant index or None) pairs of reads ``root.attr[...]`` that *expr* may
    derive from."""
    out: set[tuple[str, int | None]] = set()
    for e in ld.expand(expr):
        for n in ast.walk(e):
            if isinstance(n, ast.Subscript):
                d = dotted(n.value)
                if d and d.split(".")[0] == root and len(d.split(".")) >= 2:
                    idx = n.slice.value if isinstance(n.slice, ast.Constant) and isinstance(n.slice.value, int) else None
                    out.add((d.split(".")[1], idx))
        for ch in maximal_chains(e):
            if ch[0] == root and len(ch) >= 2:
                out.add((ch[1], None))
    # an indexed read supersedes the plain one of the same attribute
    indexed = {a for a, i in out if i is not None}
    return {(a, i) for a, i in out if not (i is None and a in indexed)} | {
        (a, None) for a, i in out if i is None and a in indexed and _plain_read(ld, expr, root, a)
    }


def _plain_read(ld: LocalDefs, expr: ast.AST, root: str, attr: str) -> bool:
    """True if ``root.attr`` is read somewhere *not* under a constant subscript."""
    for e in ld.expand(expr):
        parents: dict[int, ast.AST] = {}
        for n in ast.walk(e):
            for c in ast.iter_child_nodes(n):
                parents[id(c)] = n
        for n in ast.walk(e):
            if isinstance(n, ast.Attribute) and dotted(n) == f"{root}.{attr}":
                p = parents.get(id(n))
                if not (isinstance(p, ast.Subscript) and p.value is n and isinstance(p.slice, ast.Constant)):
                    return True
    return False


# ------------------------------------------------------------------------------------------ R1b
def r1b(ctx: Ctx, reg: tuple[str, str, str]) -> list[Ob]:
    """Each rule builds, on every return path, an object of one torch class; distinct symbolic
    kinds (not related by subclassing) are not compiled to the same torch class with the same
    literal arguments."""
    rows = registry_rows(ctx, reg)
    out: list[Ob] = []
    sig_owner: dict[tuple, Row] = {}
    for r in rows:
        cons = constructed(ctx, r.rule)
        classes = {c.qualname for _, c, _ in cons if c is not None}
        if not cons or any(c is None for _, c, _ in cons):
            out.append(unres("R1b", r.rule.qualname, f"key={r.key.name}", "return value is not a resolvable constructor call", r.rule.loc))
            continue
        # a reference to an already compiled counterpart (TorchPointerParameter) is the same parameter, not another class
        POINTER = "cirkit.backend.torch.parameters.nodes.TorchPointerParameter"
        if len(classes) == 2 and POINTER in classes:
            cons = [x for x in cons if x[1] is None or x[1].qualname != POINTER]
            classes = classes - {POINTER}
        if len(classes) != 1:
            out.append(viol("R1b", r.rule.qualname, f"key={r.key.name}", f"return paths construct different classes {sorted(classes)}", r.rule.loc))
            continue
        call, tc, _ = cons[0]
        assert tc is not None
        # the rule function must take the registry key (or a base of it) -- note only
        lits = tuple(sorted((k.arg, unparse(k.value)) for k in call.keywords if k.arg and isinstance(k.value, ast.Constant)))
        sig = (tc.qualname, lits)
        prev = sig_owner.get(sig)
        if prev is not None and not (
            ctx.repo.is_subclass(r.key, prev.key) or ctx.repo.is_subclass(prev.key, r.key)
        ):
            out.append(
                viol(
                    "R1b",
                    r.rule.qualname,
                    f"key={r.key.name}",
                    f"compiles to {tc.name}, which is already the counterpart of the unrelated symbolic "
                    f"class {prev.key.name} ({prev.loc}): two different node kinds would compute the same function",
                    r.loc,
                )
            )
        else:
            sig_owner.setdefault(sig, r)
            out.append(ok("R1b", r.rule.qualname, f"key={r.key.name}", f"constructs {tc.name}", r.loc))
        # the annotated symbolic class of the rule should be the key or a base of it
        sp = [p for p in r.rule.params if p.kind == "pos"]
        if len(sp) >= 2 and sp[1].annotation is not None:
            ac = ctx.repo.get_class(r.rule.module, sp[1].annotation)
            if ac is not None and not ctx.repo.is_subclass(r.key, ac):
                out.append(note("R1b", r.rule.qualname, "annotation", f"rule registered for {r.key.name} is annotated with sibling class {ac.name} (harmless: registration is by explicit key)", r.rule.loc))
    return out


# ------------------------------------------------------------------------------------------ R1c
def symbolic_keys(ctx: Ctx, c: ClassInfo, with_params: bool) -> dict[str, frozenset[str]]:
    """hyper-parameter / parameter name -> storage attributes behind it."""
    out: dict[str, frozenset[str]] = {}
    for prop in ("config", "params") if with_params else ("config",):
        dv = ctx.cf.dict_property(c, prop)
        if dv.opaque:
            raise AnalysisError(f"{c.qualname}.{prop}: cannot interpret {dv.opaque}")
        for k, (v, owner) in dv.items.items():
            out[k] = frozenset(ctx.cf.storage_of_expr(c, v))
    return out


def r1c(ctx: Ctx, reg: tuple[str, str, str], with_params: bool) -> list[Ob]:
    rows = registry_rows(ctx, reg)
    out: list[Ob] = []
    for r in rows:
        root = sym_param_name(r.rule)
        cons = constructed(ctx, r.rule)
        if root is None or not cons or any(c is None for _, c, _ in cons):
            out.append(unres("R1c", r.rule.qualname, f"key={r.key.name}", "cannot resolve constructor call", r.rule.loc))
            continue
        keys = symbolic_keys(ctx, r.key, with_params)
        all_storage_of_keys = set().union(*keys.values()) if keys else set()
        for call, tc, ld in cons:
            assert tc is not None
            init = ctx.repo.lookup(tc, "__init__")
            if init is None:
                out.append(unres("R1c", r.rule.qualname, f"ctor={tc.name}", "no __init__ found", r.rule.loc))
                continue
            binding, problems = bind_call(call, init.call_params)
            for pb in problems:
                out.append(viol("R1c", r.rule.qualname, f"ctor={tc.name}", f"constructor call does not match {tc.name}.__init__: {pb}", f"{r.rule.module.relpath}:{call.lineno}"))
            # storage read per constructor parameter
            reads_per_param: dict[str, set[tuple[str, int | None]]] = {}
            for pn, arg in binding.items():
                reads_per_param[pn] = arg_sources(ld, arg, root)
            all_reads: set[str] = set()
            for srcs in reads_per_param.values():
                for a, _ in srcs:
                    all_reads |= ctx.cf.storage_of_member(r.key, a)
            site = f"{r.rule.module.relpath}:{call.lineno}"
            # (1) every symbolic hyper-parameter is carried
            for k, st in keys.items():
                if st & all_reads:
                    out.append(ok("R1c", r.rule.qualname, f"carry:{k}", f"{r.key.name}.{k} reaches {tc.name}(..)", site))
                    continue
                derived = ctx.cf.init_param_storage(r.key, k) - st - (all_storage_of_keys - st)
                if derived and derived <= all_reads:
                    out.append(ok("R1c", r.rule.qualname, f"carry:{k}", f"{r.key.name}.{k} carried through the attributes derived from it in __init__: {sorted(derived)}", site))
                    continue
                out.append(
                    viol(
                        "R1c",
                        r.rule.qualname,
                        f"carry:{k}",
                        f"hyper-parameter/parameter '{k}' of {r.key.name} (storage {sorted(st)}) never reaches the "
                        f"{tc.name}(..) constructor call: the compiled node silently uses a default",
                        site,
                    )
                )
            # (2) same-named (or synonym) keywords are fed by the same-named attribute
            for k, st in keys.items():
                for tn in (k, SYNONYMS.get(k)):
                    if tn is None or tn not in reads_per_param:
                        continue
                    srcs = reads_per_param[tn]
                    rd: set[str] = set()
                    for a, _ in srcs:
                        rd |= ctx.cf.storage_of_member(r.key, a)
                    if not srcs:
                        # fed by a constant: only a violation if the symbolic side stores something
                        out.append(viol("R1c", r.rule.qualname, f"feed:{tn}", f"{tc.name}({tn}=..) is fed by {unparse(binding[tn])}, not by {root}.{k}", site))
                    elif st & rd:
                        out.append(ok("R1c", r.rule.qualname, f"feed:{tn}", f"{tc.name}({tn}=..) fed by {root}.{k}", site))
                    else:
                        out.append(viol("R1c", r.rule.qualname, f"feed:{tn}", f"{tc.name}({tn}=..) is fed by {sorted(a for a, _ in srcs)} instead of {root}.{k}", site))
            # (3) positional shape order: in_shape<n> <- in_shapes[n-1] / in_shape<n>
            for pn, srcs in reads_per_param.items():
                m = re.fullmatch(r"in_shape(\d)", pn)
                if not m:
                    continue
                want = int(m.group(1))
                bad = []
                good = False
                for a, i in srcs:
                    m2 = re.fullmatch(r"in_shape(\d)", a)
                    if m2:
                        good |= int(m2.group(1)) == want
                        if int(m2.group(1)) != want:
                            bad.append(a)
                    elif a == "in_shapes" and i is not None:
                        good |= i == want - 1
                        if i != want - 1:
                            bad.append(f"in_shapes[{i}]")
                if bad and not good:
                    out.append(viol("R1c", r.rule.qualname, f"order:{pn}", f"{tc.name}({pn}=..) is fed by {bad}: input shapes swapped", site))
                elif good:
                    out.append(ok("R1c", r.rule.qualname, f"order:{pn}", "input shape order preserved", site))
    return out


# ------------------------------------------------------------------------------------------ R1d
def r1d(ctx: Ctx) -> list[Ob]:
    out: list[Ob] = []
    for r in registry_rows(ctx, LAYER_REG):
        comp = [p for p in r.rule.params if p.kind == "pos"]
        cname = comp[0].name if comp else "compiler"
        for call, tc, ld in constructed(ctx, r.rule):
            if tc is None:
                continue
            site = f"{r.rule.module.relpath}:{call.lineno}"
            kw = {k.arg: k.value for k in call.keywords if k.arg}
            v = kw.get("semiring")
            if v is None:
                out.append(viol("R1d", r.rule.qualname, "semiring", f"{tc.name}(..) built without semiring=: it evaluates in the default sum-product semiring whatever the compiler's semiring", site))
                continue
            srcs = {".".join(ch) for e in ld.expand(v) for ch in maximal_chains(e)}
            if f"{cname}.semiring" in srcs:
                out.append(ok("R1d", r.rule.qualname, "semiring", "semiring=compiler.semiring", site))
            else:
                out.append(viol("R1d", r.rule.qualname, "semiring", f"semiring is {unparse(v)}, not the compiler's semiring", site))
    return out


def r1d_sweep(ctx: Ctx) -> list[Ob]:
    """R1d over the optimiser: every construction of a concrete TorchLayer class in the fuse / shatter
    apply functions passes ``semiring=`` taken from ``<something>.semiring`` (the compiler's or that
    of a matched layer).  A layer built without it evaluates in the default sum-product semiring."""
    out: list[Ob] = []
    repo = ctx.repo
    layer = repo.cls("cirkit.backend.torch.layers.base.TorchLayer")
    for f in repo.iter_functions():
        if not f.module.name.startswith("cirkit.backend.torch.optimization"):
            continue
        ld = None
        for n in ast.walk(f.node):
            if not isinstance(n, ast.Call):
                continue
            try:
                tc = repo.get_class(f.module, n.func)
            except Exception:
                tc = None
            if tc is None or not repo.is_subclass(tc, layer):
                continue
            ld = ld or LocalDefs(f.node)
            site = f"{f.module.relpath}:{n.lineno}"
            inst = f"semiring@{tc.name}#{sum(1 for o in out if o.construct == f.qualname)}"
            kw = {k.arg: k.value for k in n.keywords if k.arg}
            v = kw.get("semiring")
            if v is None:
                stars = [k.value for k in n.keywords if k.arg is None]
                from_config = all(isinstance(s, ast.Attribute) and s.attr == "config" for s in stars)
                if stars and not from_config:
                    out.append(unres("R1d", f.qualname, inst, "constructed with ** of an unknown mapping", site))
                else:
                    out.append(viol("R1d", f.qualname, inst, f"{tc.name}(..) built without semiring= (a layer's config never contains it): the fused layer evaluates in the default sum-product semiring whatever semiring the circuit is compiled in", site))
                continue
            srcs = {ch[-1] for e in ld.expand(v) for ch in maximal_chains(e)}
            if "semiring" in srcs:
                out.append(ok("R1d", f.qualname, inst, f"semiring={unparse(v)}", site))
            else:
                out.append(viol("R1d", f.qualname, inst, f"semiring is {unparse(v)}, not the semiring of the compiler / of a matched layer", site))
    return out


# ----------------------------------------------------------------------------- initialiser rules
INIT_TARGETS = {
    # symbolic initialiser -> admissible torch in-place initialisers (by last name component)
    "ConstantTensorInitializer": {"fill_", "copy_from_ndarray_"},
    "UniformInitializer": {"uniform_"},
    "NormalInitializer": {"normal_"},
    "DirichletInitializer": {"dirichlet_"},
}


def r1_init(ctx: Ctx) -> list[Ob]:
    """Initialiser rules return functools.partial(<torch init>, kw=init.attr, ..)."""
    out: list[Ob] = []
    for r in registry_rows(ctx, INIT_REG):
        root = sym_param_name(r.rule)
        ld = LocalDefs(r.rule.node)
        keys = symbolic_keys(ctx, r.key, False) if ctx.repo.lookup(r.key, "config") else {}
        if not keys:
            # initialisers have no config property: use the __init__ parameters
            init = ctx.repo.lookup(r.key, "__init__")
            if init is not None:
                for p in init.call_params:
                    keys[p.name] = frozenset(ctx.cf.init_param_storage(r.key, p.name))
        rets = returns_of(r.rule.node)
        carried: set[str] = set()
        for ret in rets:
            site = f"{r.rule.module.relpath}:{ret.lineno}"
            partials = [e for e in ld.expand(ret.value) if isinstance(e, ast.Call) and (dotted(e.func) or "").split(".")[-1] == "partial"] if ret.value else []
            if not partials:
                out.append(unres("R1c", r.rule.qualname, "init-partial", f"return {unparse(ret.value)} is not functools.partial(..)", site))
                continue
            for pc in partials:
                target = (dotted(pc.args[0]) or "?").split(".")[-1] if pc.args else "?"
                allowed = INIT_TARGETS.get(r.key.name)
                if allowed is not None:
                    if target in allowed:
                        out.append(ok("R1b", r.rule.qualname, f"init-target:{target}", f"{r.key.name} -> {target}", site))
                    else:
                        out.append(viol("R1b", r.rule.qualname, f"init-target:{target}", f"{r.key.name} compiled to {target}, expected one of {sorted(allowed)}", site))
                for kw in pc.keywords:
                    if kw.arg is None:
                        continue
                    srcs = arg_sources(ld, kw.value, root or "init")
                    attrs = {a for a, _ in srcs}
                    carried |= attrs
                    # name agreement modulo the synonyms
                    want = [k for k in keys if k == kw.arg or SYNONYMS.get(k) == kw.arg]
                    if want:
                        if want[0] in attrs:
                            out.append(ok("R1c", r.rule.qualname, f"feed:{kw.arg}", f"{target}({kw.arg}=..) fed by {root}.{want[0]}", site))
                        else:
                            out.append(viol("R1c", r.rule.qualname, f"feed:{kw.arg}", f"{target}({kw.arg}=..) fed by {sorted(attrs) or unparse(kw.value)} instead of {root}.{want[0]}", site))
        for k in keys:
            if k in carried:
                out.append(ok("R1c", r.rule.qualname, f"carry:{k}", f"{r.key.name}.{k} reaches the compiled initialiser", r.rule.loc))
            else:
                out.append(viol("R1c", r.rule.qualname, f"carry:{k}", f"argument '{k}' of {r.key.name} never reaches the compiled initialiser", r.rule.loc))
    return out


# ------------------------------------------------------------------------------------------ R1e
def _check_atoms(fn: ast.FunctionDef) -> set[str]:
    """the atomic comparisons a constructor insists on (asserts, and negated refusing guards), chains
    split: `0 <= a < b` -> {`0 <= a`, `a < b`}"""
    out: set[str] = set()
    for n in ast.walk(fn):
        tests: list[ast.AST] = []
        if isinstance(n, ast.Assert):
            tests.append(n.test)
        for t in tests:
            stack = [t]
            while stack:
                e = stack.pop()
                if isinstance(e, ast.BoolOp) and isinstance(e.op, ast.And):
                    stack += e.values
                elif isinstance(e, ast.Compare):
                    items = [e.left, *e.comparators]
                    for a, op, b in zip(items, e.ops, items[1:]):
                        out.add(ast.unparse(ast.Compare(left=a, ops=[op], comparators=[b])))
    return out


def r1e(ctx: Ctx, pairs_prefix: tuple[str, str] = ("cirkit.symbolic.parameters", "cirkit.backend.torch.parameters.nodes")) -> list[Ob]:
    """R1e -- the torch node is not pickier than the symbolic node it is compiled from.

    For every symbolic parameter node class ``X`` with a torch counterpart ``TorchX``: the atomic
    comparisons the torch constructor asserts about hyper-parameters *both* constructors take under
    the same name (numeric literals allowed on the other side) are among those the symbolic
    constructor asserts.  An extra one means a symbolic node that is valid by its own checks cannot
    be compiled (``ScaledSigmoid`` onto [-1, 1] with a torch-side ``0 <= vmin``)."""
    out: list[Ob] = []
    sym_mod, torch_mod = pairs_prefix
    n_pairs = 0
    for tc in ctx.repo.classes.values():
        if tc.module.name != torch_mod or not tc.name.startswith("Torch"):
            continue
        sc = next((c for c in ctx.repo.classes.values() if c.module.name == sym_mod and c.name == tc.name[len("Torch"):]), None)
        if sc is None:
            continue
        ti, si = tc.methods.get("__init__"), sc.methods.get("__init__")
        if ti is None or si is None:
            continue
        common = {p.name for p in ti.params} & {p.name for p in si.params} - {"self", "in_shape", "in_shape1", "in_shape2"}
        if not common:
            continue
        n_pairs += 1

        def relevant(atom: str) -> bool:
            names = {x.id for x in ast.walk(ast.parse(atom, mode="eval")) if isinstance(x, ast.Name)}
            return bool(names) and names <= common

        ta = {a for a in _check_atoms(ti.node) if relevant(a)}
        sa_ = {a for a in _check_atoms(si.node) if relevant(a)}
        extra = sorted(ta - sa_)
        if extra:
            out.append(viol("R1e", tc.qualname, "checks<=symbolic", f"the torch constructor asserts {extra} on hyper-parameters the symbolic {sc.name} accepts without that check ({sorted(sa_) or 'no check'}): a node that is valid symbolically raises at compile time", ti.loc))
        else:
            out.append(ok("R1e", tc.qualname, "checks<=symbolic", f"torch-side checks on {sorted(common)} are among the symbolic ones", ti.loc))
    if n_pairs == 0:
        raise AnalysisError("R1e: no (symbolic, torch) parameter node pair with a common hyper-parameter (anchor vanished)")
    return out
