"""R4 -- symbolic tensor-shape contracts of the torch backend (abstract interpretation, no execution).

The fold-dimension convention of cirkit's torch backend is a typing discipline:

    every parameter node   forward(x_i : (F, *in_shape_i))           ->  (F, *self.shape)
    every inner layer      forward(x : (F, H, B, Ki))                ->  (F, B, Ko)
    every input layer      forward(x : (F, B, D))                    ->  (F, B, Ko)
    every constant layer   forward(batch_size)                       ->  (F, B, Ko)
    exp-family layers      log_partition_function() / integrate()    ->  (F, 1, Ko)
    input layers           sample(N)                                 ->  (F, Ko, N)
    inner layers           sample(x : (F, H, Ki, N, D))              ->  ((F, Ko, N, D), mixing | None)

``sa.shapes`` interprets the *source* of each concrete class -- constructor first (so that every
attribute, validated parameter shape and constructor guard is taken from the code, not from a
table), then the method -- over symbolic sizes, and this module compares the result with the
contract.  Sizes are symbols (F, B, Ki, Ko, D, N, a0, a1, ...); the small structural integers a shape
type is indexed by (rank of ``in_shape``, ``dim``, ``arity``, ``order``) are enumerated over a small
range because the rank of the result depends on them.

A violation is reported only from a fully resolved result: a ``ShapeError`` raised by an operator
model on resolved operands, or a resolved result shape that differs (as a polynomial, i.e. for some
sizes) from the contract.  ``Unknown`` anywhere -> *unresolved*.
"""

from __future__ import annotations

import ast
import itertools
from typing import Any, Iterator

from ..core import Ctx, Ob, ok, unres, viol
from ..dims import Dim, fmt_shape
from ..model import ClassInfo, FuncInfo
from ..shapes import (
    NONE, BoolV, ClassV, FloatV, Frame, Interp, IntV, NoneV, ObjV, ParamV, PathLimit, SemiringV, ShapeError, State, TensorV, TupleV,
    Unknown, V, fresh_tensor, mkint, new_param,
)
from ..layout import fmt_all

NODES = "cirkit.backend.torch.parameters.nodes"
PARAM_OP = NODES + ".TorchParameterOp"
LAYER = "cirkit.backend.torch.layers.base.TorchLayer"
INNER = "cirkit.backend.torch.layers.inner.TorchInnerLayer"
INPUT = "cirkit.backend.torch.layers.input.TorchInputLayer"
INPUT_FN = "cirkit.backend.torch.layers.input.TorchInputFunctionLayer"
CONST = "cirkit.backend.torch.layers.input.TorchConstantLayer"
EXPFAM = "cirkit.backend.torch.layers.input.TorchExpFamilyLayer"

F, B, H, KI, KO, D, N, DV = (Dim.sym(s) for s in ("F", "B", "H", "Ki", "Ko", "D", "N", "Dv"))

# rank domains of parameter operators whose documented inputs have a fixed rank (the constructor
# does not check it; the symbolic layer rules only ever build them at that rank)
RANK_DOMAIN = {
    "TorchGaussianProductMean": (1,),  # mean / stddev of a Gaussian layer are (K,)
    "TorchGaussianProductStddev": (1,),
    "TorchGaussianProductLogPartition": (1,),
    "TorchPolynomialProduct": (2,),  # coefficients are (K, degree + 1)
    "TorchPolynomialDifferential": (2,),
}


def ranks_of(ctx: Ctx) -> tuple[int, ...]:
    return (1, 2, 3, 4) if ctx.tier == "thorough" else (1, 2, 3)


def arities_of(ctx: Ctx) -> tuple[int, ...]:
    return (1, 2, 3, 4) if ctx.tier == "thorough" else (1, 2, 3)


def orders_of(ctx: Ctx) -> tuple[int, ...]:
    return (1, 2, 3) if ctx.tier == "thorough" else (1, 2)


def _where(fi: FuncInfo | None, c: ClassInfo) -> str:
    return fi.loc if fi is not None else c.loc


def _fmt(v: V, st: State) -> str:
    if isinstance(v, TensorV):
        return fmt_shape(st.norm_shape(v.shape))
    if isinstance(v, TupleV):
        return "(" + ", ".join(_fmt(x, st) for x in v.items) + ")"
    return repr(v)


# ------------------------------------------------------------------------------- parameter operators


def _param_op_configs(ctx: Ctx, c: ClassInfo) -> Iterator[tuple[str, dict[str, V]]]:
    init = ctx.repo.lookup(c, "__init__")
    assert init is not None
    names = [p.name for p in init.params if p.name != "self"]
    shape_params = [n for n in names if "shape" in n and n != "in_shapes"]
    if not shape_params:
        return
    for r in RANK_DOMAIN.get(c.name, ranks_of(ctx)):
        base: dict[str, V] = {"num_folds": IntV(F)}
        for i, n in enumerate(shape_params):
            base[n] = TupleV(tuple(IntV(Dim.sym(f"{'abcd'[i]}{k}")) for k in range(r)))
        variants: list[tuple[str, dict[str, V]]] = [(f"rank={r}", {})]
        if "dim" in names:
            variants = [(f"rank={r},dim={d}", {"dim": mkint(d)}) for d in list(range(r)) + [-1]]
        if "order" in names:
            variants = [(f"{t},order={o}", {**kv, "order": mkint(o)}) for t, kv in variants for o in orders_of(ctx)]
        if "indices" in names:
            variants = [(t, {**kv, "indices": TupleV((mkint(0), mkint(0)), "list")}) for t, kv in variants]
        if "vmin" in names:
            variants = [(t, {**kv, "vmin": FloatV(0.0), "vmax": FloatV(1.0)}) for t, kv in variants]
        if "start_dim" in names:
            variants = [
                (f"rank={r},start={a},end={b}", {"start_dim": mkint(a), "end_dim": mkint(b)})
                for a in range(r)
                for b in range(a + 1, r)
            ]
        for tag, kv in variants:
            yield tag, {**base, **kv}


def param_op_contracts(ctx: Ctx) -> list[Ob]:
    """R4a: forward of every concrete parameter operator returns (F, *self.shape)."""
    repo = ctx.repo
    obs: list[Ob] = []
    base = repo.cls(PARAM_OP)
    for c in repo.subclasses(base):
        if not repo.is_concrete(c):
            continue
        fwd = repo.lookup(c, "forward")
        init = repo.lookup(c, "__init__")
        if fwd is None or init is None:
            continue
        cfgs = list(_param_op_configs(ctx, c))
        if not cfgs:
            obs.append(unres("R4a", c.qualname, "forward", "constructor signature outside the enumerated forms", c.loc))
            continue
        for tag, kwargs in cfgs:
            ctx.count("R4.configs")
            obs.extend(_one_param_op(ctx, c, init, fwd, tag, kwargs))
    return obs


def _one_param_op(ctx: Ctx, c: ClassInfo, init: FuncInfo, fwd: FuncInfo, tag: str, kwargs: dict[str, V]) -> list[Ob]:
    it = Interp(ctx.repo)
    st = State()
    fr = Frame(init, 0)
    inst = f"forward[{tag}]"
    try:
        built = list(it.construct(ClassV(c), [], kwargs, st, fr))
        if not built:
            return []  # the constructor refuses this configuration: outside the domain
        out: list[Ob] = []
        for obj, s2 in built:
            in_shapes = s2.heap[obj.oid].get("_in_shapes")
            if not (isinstance(in_shapes, TupleV) and all(isinstance(x, TupleV) and all(isinstance(y, IntV) for y in x.items) for x in in_shapes.items)):
                out.append(unres("R4a", c.qualname, inst, "in_shapes not resolved after the constructor", fwd.loc))
                continue
            ins: list[V] = [fresh_tensor(s2.norm_shape((F,) + tuple(y.d for y in x.items))) for x in in_shapes.items]  # type: ignore[union-attr]
            try:
                shapes = list(it.getattr(obj, "shape", s2, fr))
            except ShapeError:
                continue  # the declared shape itself is undefined at this rank: outside the domain
            for sv, s3 in shapes:
                if not (isinstance(sv, TupleV) and all(isinstance(x, IntV) for x in sv.items)):
                    out.append(unres("R4a", c.qualname, inst, f"declared shape not resolved: {sv!r}", fwd.loc))
                    continue
                for rv, s4 in it.call(fwd, ins, {}, s3, selfv=obj):
                    want = s4.norm_shape((F,) + tuple(x.d for x in sv.items))  # type: ignore[union-attr]
                    if not isinstance(rv, TensorV):
                        out.append(unres("R4a", c.qualname, inst, f"result not resolved: {rv!r}", fwd.loc))
                        continue
                    got = s4.norm_shape(rv.shape)
                    cond = ("; under " + " and ".join(s4.assumed)) if s4.assumed else ""
                    if got == want or (len(got) == len(want) and all(s4.decide(a - b, "==") is True for a, b in zip(got, want))):
                        out.append(ok("R4a", c.qualname, inst, f"{fmt_shape(got)}{cond}", fwd.loc))
                        out.append(_layout_ob(c, inst, rv, fwd.loc))
                    else:
                        out.append(viol("R4a", c.qualname, inst, f"forward returns {fmt_shape(got)} but the declared shape is (F, *shape) = {fmt_shape(want)}{cond}", fwd.loc))
        return _dedup(out)
    except ShapeError as e:
        return [viol("R4a", c.qualname, inst, f"{e.msg} [{e.where}]" + (("; under " + " and ".join(e.lits)) if e.lits else ""), fwd.loc)]
    except PathLimit:
        return [unres("R4a", c.qualname, inst, "path limit", fwd.loc)]
    except RecursionError:
        return [unres("R4a", c.qualname, inst, "recursion limit", fwd.loc)]


# element order of the axes a parameter operator creates.  Cross-operand rule (no table): wherever an
# axis combines units of several operands, the earlier operand is major -- this is the "Kronecker
# order" every consumer assumes (OuterProduct / OuterSum / Kronecker / PolynomialProduct / the three
# GaussianProduct statistics must agree with each other, they are combined in one layer).
# Same-operand orders are operator specific:
UNARY_LAYOUT = {
    "TorchFlattenParameter": "increasing",  # torch.flatten semantics: (.., d_s, .., d_e, ..) -> d_s major
    "TorchMixingWeightParameter": "arity-major",  # (K, H) -> (K, H*K) laid out [H, K]: TorchSumLayer flattens its input (H, Ki) H major
}


def _layout_ob(c: ClassInfo, inst: str, rv: TensorV, loc: str) -> Ob:
    linst = inst.replace("forward[", "layout[")
    if rv.lay is None:
        return unres("R4l", c.qualname, linst, "element order of the result not derived", loc)
    bad = None
    unknown = False
    from ..layout import is_misaligned

    for k, lay in enumerate(rv.lay):
        if is_misaligned(lay):
            bad = f"axis {k} combines operands element-wise across different factorisations of the axis ({lay[0][0][1:-1]}): entry j pairs (j div n, j mod n) of one with (j div m, j mod m) of the other"  # type: ignore[index]
            break
        if lay is None:
            d = rv.shape[k]
            if len(d.t) == 1 and sum(e for m in d.t for _, e in m) > 1:  # a product of sizes: its order matters
                unknown = True
            continue
        labels = [l.split("|")[0].split(".")[0] for l, _ in lay]
        ops = ["abcd".index(l[0]) if l and l[0] in "abcd" and l[1:].isdigit() else None for l in labels]
        if None in ops or len(labels) < 2:
            continue
        # the Gaussian statistics take (mean1, stddev1, mean2, stddev2): operands 0,1 belong to the first layer
        grp = [o // 2 if c.name.startswith("TorchGaussianProduct") and c.name != "TorchGaussianProductStddev" else o for o in ops]
        if grp != sorted(grp):
            bad = f"axis {k} is laid out {fmt_all([lay])[1:-1]}: the units of a later operand are major"
        elif len(set(grp)) == 1:
            idx = [int(l[1:]) for l in labels]
            conv = UNARY_LAYOUT.get(c.name)
            if conv == "increasing" and idx != sorted(idx):
                bad = f"axis {k} is laid out {fmt_all([lay])[1:-1]}, not in increasing axis order"
            elif conv == "arity-major" and idx != sorted(idx, reverse=True):
                bad = f"axis {k} is laid out {fmt_all([lay])[1:-1]}: the sum layer reads its weight columns arity-major ([a1, a0])"
    if bad:
        return viol("R4l", c.qualname, linst, bad + f"; result layout {fmt_all(rv.lay)}", loc)
    if unknown:
        return unres("R4l", c.qualname, linst, f"element order of a product axis not derived: {fmt_all(rv.lay)}", loc)
    return ok("R4l", c.qualname, linst, fmt_all(rv.lay), loc)


def _axis_identity_obs(c: ClassInfo, inst: str, rv: TensorV, f_d: Dim, loc: str) -> list[Ob]:
    """R4x: axis 0 of a layer's (F, B, Ko) / (F, 1, Ko) result *is* the fold axis and axis 1 the batch
    axis -- not merely axes of those sizes.  Decided only where the element order was derived: a
    result axis that a view re-read across atom boundaries (``<misaligned ..>``), a fold axis that
    carries anything but the fold atom, or a batch axis that carries the fold atom, is reported."""
    from ..layout import base_label, is_misaligned, single_symbol

    if rv.lay is None or len(rv.lay) < 2:
        return []
    xinst = inst.replace("[", "-axes[", 1) if "[" in inst else inst + "-axes"
    fsym = single_symbol(f_d)
    l0, l1 = rv.lay[0], rv.lay[1]
    bad = None
    if is_misaligned(l0) or is_misaligned(l1):
        which = l0 if is_misaligned(l0) else l1
        bad = f"the result is a {which[0][0][1:-1]} whose axis boundaries fall inside the source axes: entry (f, b) holds the value of another fold / batch row whenever both sizes exceed 1"  # type: ignore[index]
    elif fsym is not None and l0 is not None and l0 != () and [base_label(l) for l, _ in l0] != [fsym]:
        bad = f"axis 0 is laid out {fmt_all([l0])[1:-1]}, not as the fold axis [{fsym}]"
    elif fsym is not None and l1 is not None and any(base_label(l) == fsym for l, _ in l1):
        bad = f"axis 1 (batch) is laid out {fmt_all([l1])[1:-1]}: it contains the fold axis"
    if bad:
        return [viol("R4x", c.qualname, xinst, bad + f"; result layout {fmt_all(rv.lay)}", loc)]
    if l0 is None and l1 is None:
        return []
    return [ok("R4x", c.qualname, xinst, f"fold / batch axes keep their identity: {fmt_all(rv.lay[:2])}", loc)]


def _inner_layout_obs(c: ClassInfo, inst: str, rv: TensorV, pairings: list, ar: Dim, loc: str, has_params: bool = True) -> list[Ob]:
    """element-order contracts of inner layers (arity > 1):
    * the unit axis of a layer that combines the units of its inputs lists input 0 major
      ([Ki|H=0, Ki|H=1, ..]) -- the order the Tucker / sampling / multiplication code assume;
    * a weight whose columns range over (input, unit) is contracted arity-major ([H, Ki]) -- the order
      TorchMixingWeightParameter produces and TorchSumLayer.sample flattens."""
    out: list[Ob] = []
    n = ar.as_int()
    if n is None or n < 2:
        return out
    linst = inst.replace("forward", "layout")
    if rv.lay is not None and len(rv.lay) == 3 and rv.lay[2] is not None and len(rv.lay[2]) > 1:
        tags = []
        for l, _ in rv.lay[2]:
            t = [x for x in l.split("|")[1:] if x.startswith("H=")]
            tags.append(int(t[0][2:]) if t else None)
        if None not in tags:
            if tags == sorted(tags):
                out.append(ok("R4l", c.qualname, linst + ":units", f"output units laid out {fmt_all([rv.lay[2]])[1:-1]} (input 0 major)", loc))
            else:
                out.append(viol("R4l", c.qualname, linst + ":units", f"output units laid out {fmt_all([rv.lay[2]])[1:-1]}: a later input is major, the Kronecker order every consumer assumes is input 0 major", loc))
    for _letter, cands in pairings:
        known = [x for x in cands if x is not None]
        if len(known) != 2:
            continue
        a, b = known
        pa = len(a) == 1 and a[0][0].startswith("<")
        pb = len(b) == 1 and b[0][0].startswith("<")
        if pa == pb:
            continue
        data = b if pa else a
        labels = [l.split("|")[0] for l, _ in data]
        if "H" in labels and len(labels) == 2:
            if labels[0] == "H":
                out.append(ok("R4l", c.qualname, linst + ":weight-columns", f"weight columns contracted against {fmt_all([data])[1:-1]} (arity major)", loc))
            else:
                out.append(viol("R4l", c.qualname, linst + ":weight-columns", f"weight columns contracted against {fmt_all([data])[1:-1]}: the mixing-weight parameter and sampling lay the columns out arity major ([H, Ki])", loc))
    if has_params and not out and not [p for p in pairings if len([x for x in p[1] if x is not None]) == 2]:
        out.append(unres("R4l", c.qualname, linst + ":element-order", "no element order derived for this forward (a reshaping outside the layout vocabulary)", loc))
    return out


def _dedup(obs: list[Ob]) -> list[Ob]:
    """one obligation per (rule, construct, instance): a violation wins, then unresolved, then ok"""
    best: dict[str, Ob] = {}
    rank = {"violation": 0, "unresolved": 1, "ok": 2, "note": 3}
    for o in obs:
        b = best.get(o.key)
        if b is None or rank[o.status] < rank[b.status]:
            best[o.key] = o
    return list(best.values())


# ------------------------------------------------------------------------------- layers


def _candidates(ctx: Ctx, c: ClassInfo, pname: str, ann: str, st_factory: Any) -> list[tuple[str, Any]]:
    """abstract candidates for one constructor parameter: (tag, factory(st) -> V)"""
    a = ann.replace(" ", "")
    if pname == "arity":
        return [(f"arity={h}", lambda st, h=h: mkint(h)) for h in arities_of(ctx)]
    if pname == "num_input_units":
        return [("", lambda st: IntV(KI))]
    if pname == "num_output_units":
        return [("", lambda st: IntV(KO))]
    if pname == "num_folds":
        return [("", lambda st: IntV(F))]
    if pname == "scope_idx":
        return [("", lambda st: TensorV((F, DV), "int"))]
    if "Semiring" in a:
        return [("", lambda st: SemiringV("S"))]
    if "TorchParameter" in a:
        c1 = [(pname, lambda st, n=pname: new_param(st, n))]
        if "None" in a:
            return [("", lambda st: NONE)] + c1
        return [("", c1[0][1])]
    if a == "bool":
        return [(f"{pname}=True", lambda st: BoolV(True)), (f"{pname}=False", lambda st: BoolV(False))]
    if a == "int":
        if pname == "degree":
            return [("", lambda st, n=pname: IntV(Dim.sym("nn:" + n)))]  # a degree may be 0: constant polynomials
        return [("", lambda st, n=pname: IntV(Dim.sym(n)))]
    if "TorchInputLayer" in a or "TorchLayer" in a:
        return [("sub=" + k.name, ("layer", k)) for k in _sub_layer_classes(ctx)]
    return [("", lambda st, n=pname: Unknown(f"constructor parameter {n}: {ann}"))]


def _sub_layer_classes(ctx: Ctx) -> list[ClassInfo]:
    out = []
    for k in ctx.repo.subclasses(ctx.repo.cls(INPUT_FN)):
        if ctx.repo.is_concrete(k):
            out.append(k)
    return out


def _build_layer(ctx: Ctx, it: Interp, c: ClassInfo, st: State, choice: dict[str, Any], depth: int = 0) -> Iterator[tuple[ObjV, State]]:
    init = ctx.repo.lookup(c, "__init__")
    assert init is not None
    kwargs: dict[str, V] = {}
    subs: list[tuple[str, ClassInfo]] = []
    for n, fac in choice.items():
        if isinstance(fac, tuple) and fac[0] == "layer":
            subs.append((n, fac[1]))
        else:
            kwargs[n] = fac(st)
    fr = Frame(init, 0)
    if not subs:
        yield from it.construct(ClassV(c), [], kwargs, st, fr)  # type: ignore[misc]
        return
    (n, k), = subs
    # the wrapped layer: its first admissible configuration
    for _, subchoice in _layer_choices(ctx, k):
        got = False
        for sub, s2 in _build_layer(ctx, it, k, st, subchoice, depth + 1):
            got = True
            yield from it.construct(ClassV(c), [], {**kwargs, n: sub}, s2, fr)  # type: ignore[misc]
        if got:
            return


def _layer_choices(ctx: Ctx, c: ClassInfo) -> Iterator[tuple[str, dict[str, Any]]]:
    init = ctx.repo.lookup(c, "__init__")
    assert init is not None
    names, cands = [], []
    for p in init.params:
        if p.name == "self":
            continue
        ann = ast.unparse(p.annotation) if getattr(p, "annotation", None) is not None else ""
        names.append(p.name)
        cands.append(_candidates(ctx, c, p.name, ann, None))
    for combo in itertools.product(*cands):
        tag = ",".join(t for t, _ in combo if t)
        yield tag, {n: f for n, (_, f) in zip(names, combo)}


def _layer_methods(ctx: Ctx, c: ClassInfo) -> list[tuple[str, str]]:
    """(method, contract kind) pairs that apply to class c"""
    repo = ctx.repo
    out: list[tuple[str, str]] = []
    is_inner = repo.is_subclass(c, repo.cls(INNER))
    is_const = repo.is_subclass(c, repo.cls(CONST))
    is_expf = repo.is_subclass(c, repo.cls(EXPFAM))
    out.append(("forward", "inner" if is_inner else ("const" if is_const else "input")))
    if is_expf:
        out.append(("log_partition_function", "partition"))
        out.append(("integrate", "partition"))
        out.append(("log_unnormalized_likelihood", "input"))
    f = repo.lookup(c, "sample")
    if f is not None and f.cls is not None and f.cls.qualname not in (INNER, INPUT):
        out.append(("sample", "sample_inner" if is_inner else "sample_input"))
    return out


def layer_contracts(ctx: Ctx, kinds: set[str] | None = None) -> list[Ob]:
    """R4b (forward), R4c (log-partition / integrate), R4s (sample) of every concrete torch layer"""
    repo = ctx.repo
    obs: list[Ob] = []
    for c in repo.subclasses(repo.cls(LAYER)):
        if not repo.is_concrete(c):
            continue
        methods = _layer_methods(ctx, c)
        seen_any = False
        for tag, choice in _layer_choices(ctx, c):
            it = Interp(repo)
            st = State()
            try:
                built = list(_build_layer(ctx, it, c, st, choice))
            except ShapeError as e:
                obs.append(viol("R4b", c.qualname, f"__init__[{tag}]", f"{e.msg} [{e.where}]", c.loc))
                continue
            except (PathLimit, RecursionError):
                obs.append(unres("R4b", c.qualname, f"__init__[{tag}]", "path limit in the constructor", c.loc))
                continue
            if not built:
                continue  # refused by the constructor guards
            seen_any = True
            ctx.count("R4.configs")
            for obj, s2 in built:
                for meth, kind in methods:
                    rule = {"inner": "R4b", "input": "R4b", "const": "R4b", "partition": "R4c"}.get(kind, "R4s")
                    if kinds is not None and rule not in kinds:
                        continue
                    obs.extend(_one_layer_method(ctx, c, obj, s2, meth, kind, rule, tag))
        if not seen_any:
            obs.append(unres("R4b", c.qualname, "__init__", "no admissible abstract configuration of the constructor", c.loc))
    return _dedup(obs)


def _one_layer_method(ctx: Ctx, c: ClassInfo, obj: ObjV, st0: State, meth: str, kind: str, rule: str, tag: str) -> list[Ob]:
    repo = ctx.repo
    fi = repo.lookup(c, meth)
    if fi is None or fi.is_abstract:
        return []
    it = Interp(repo)
    st = st0.copy()
    fr = Frame(fi, 0)
    h = st.heap[obj.oid]
    ko = h.get("num_output_units")
    ki = h.get("num_input_units")
    ar = h.get("arity")
    nf = h.get("_num_folds")
    if not all(isinstance(x, IntV) for x in (ko, ki, ar, nf)):
        return [unres(rule, c.qualname, f"{meth}[{tag}]", "layer attributes not resolved after the constructor", fi.loc)]
    ko_d, ki_d, ar_d, f_d = (st.norm(x.d) for x in (ko, ki, ar, nf))  # type: ignore[union-attr]
    inst = f"{meth}[{tag}]" if tag else meth
    it.pairings = []  # type: ignore[attr-defined]
    it.selected = set()  # type: ignore[attr-defined]
    it.random_sources = []  # type: ignore[attr-defined]
    if kind == "inner":
        x_in = fresh_tensor((f_d, ar_d, B, ki_d))
        if x_in.lay is not None and ar_d.as_int() is not None and ar_d.as_int() > 1:
            x_in = TensorV(x_in.shape, x_in.dtype, (x_in.lay[0], (("H", ar_d),), x_in.lay[2], x_in.lay[3]))
        args: list[V] = [x_in]
        want: Any = (f_d, B, ko_d)
    elif kind == "input":
        args = [fresh_tensor((f_d, B, ki_d))]  # num_input_units == number of variables of an input layer
        want = (f_d, B, ko_d)
    elif kind == "const":
        args = [IntV(B)]
        want = (f_d, B, ko_d)
    elif kind == "partition":
        args = []
        want = (f_d, Dim.const(1), ko_d)
    elif kind == "sample_input":
        args = [IntV(N)]
        want = (f_d, ko_d, N)
    else:  # sample_inner
        x_in = fresh_tensor((f_d, ar_d, ki_d, N, D))
        if x_in.lay is not None and ar_d.as_int() is not None and ar_d.as_int() > 1:
            x_in = TensorV(x_in.shape, x_in.dtype, (x_in.lay[0], (("H", ar_d),)) + tuple(x_in.lay[2:]))
        args = [x_in]
        want = ("tuple", (f_d, ko_d, N, D))
    out: list[Ob] = []
    try:
        results = list(it.call(fi, args, {}, st, selfv=obj))
        if not results:
            # every path raises: an explicit refusal (e.g. sampling not supported) -- not a shape fact
            return [ok(rule, c.qualname, inst, "refuses on every path (raises)", fi.loc, nontrivial=False)]
        for rv, s2 in results:
            cond = ("; under " + " and ".join(s2.assumed[-4:])) if s2.assumed else ""
            if isinstance(want, tuple) and want and want[0] == "tuple":
                w = s2.norm_shape(want[1])
                if isinstance(rv, TupleV) and len(rv.items) == 2 and isinstance(rv.items[0], TensorV):
                    got = s2.norm_shape(rv.items[0].shape)
                    if got == w:
                        out.append(ok(rule, c.qualname, inst, f"{fmt_shape(got)}{cond}", fi.loc))
                        t0 = rv.items[0]
                        out.extend(o for o in _inner_layout_obs(c, inst.replace("sample", "forward-sample"), TensorV(()), it.pairings, ar_d, fi.loc, False) if ":weight-columns" in o.instance)  # type: ignore[attr-defined]
                        if t0.lay is not None and t0.lay[1] is not None and len(t0.lay[1]) > 1:
                            tags = [[int(x[2:]) for x in l.split("|")[1:] if x.startswith("H=")] for l, _ in t0.lay[1]]
                            if all(len(t) == 1 for t in tags):
                                flat = [t[0] for t in tags]
                                linst = inst.replace("sample", "layout-sample") + ":units"
                                if flat == sorted(flat):
                                    out.append(ok("R4l", c.qualname, linst, "sampled units laid out input 0 major, as forward", fi.loc))
                                else:
                                    out.append(viol("R4l", c.qualname, linst, f"sample() lays the combined units out {fmt_all([t0.lay[1]])[1:-1]}, forward lays them out input 0 major: the mixture index drawn by the next sum layer addresses another component", fi.loc))
                    else:
                        out.append(viol(rule, c.qualname, inst, f"returns samples of shape {fmt_shape(got)}, the sampling chain expects (F, Ko, N, D) = {fmt_shape(w)}{cond}", fi.loc))
                else:
                    out.append(unres(rule, c.qualname, inst, f"result not resolved: {_fmt(rv, s2)}", fi.loc))
                continue
            w = s2.norm_shape(want)
            if not isinstance(rv, TensorV):
                out.append(unres(rule, c.qualname, inst, f"result not resolved: {_fmt(rv, s2)}", fi.loc))
                continue
            got = s2.norm_shape(rv.shape)
            if got == w:
                out.append(ok(rule, c.qualname, inst, f"{fmt_shape(got)}{cond}", fi.loc))
                out.extend(_axis_identity_obs(c, inst, rv, f_d, fi.loc))
                if kind == "inner" and meth == "forward":
                    out.extend(_inner_layout_obs(c, inst, rv, it.pairings, ar_d, fi.loc, any(isinstance(v, ParamV) for v in h.values())))  # type: ignore[attr-defined]
            else:
                out.append(viol(rule, c.qualname, inst, f"returns {fmt_shape(got)}, contract {fmt_shape(w)}{cond}", fi.loc))
    except ShapeError as e:
        return [viol(rule, c.qualname, inst, f"{e.msg} [{e.where}]" + (("; under " + " and ".join(e.lits[-4:])) if e.lits else ""), fi.loc)]
    except PathLimit:
        return [unres(rule, c.qualname, inst, "path limit", fi.loc)]
    except RecursionError:
        return [unres(rule, c.qualname, inst, "recursion limit", fi.loc)]
    # R4s-rand: an input layer draws one independent random number per returned sample entry
    if kind == "sample_input" and any(o.status == "ok" and o.nontrivial for o in out):
        from ..dims import Dim as _D

        need = State().norm(_D.const(1))
        for d in (f_d, ko_d, N):
            need = need * d
        srcs = it.random_sources  # type: ignore[attr-defined]
        rinst = inst.replace(meth, meth + "-randomness", 1)
        if not srcs:
            out.append(unres("R4s", c.qualname, rinst, "no random source recognised in sample()", fi.loc))
        else:
            def numel(shape: Any) -> Any:
                r = _D.const(1)
                for d in shape:
                    r = r * d
                return r

            best = [(op, shp) for op, shp, _ in srcs if (numel(shp) - need).as_int() == 0 or numel(shp).divide(need) is not None]
            if best:
                out.append(ok("R4s", c.qualname, rinst, f"{best[0][0]} draws {fmt_shape(best[0][1])}: one independent draw per (fold, unit, sample)", fi.loc))
            else:
                op, shp, nd = srcs[-1]
                out.append(viol("R4s", c.qualname, rinst, f"the only randomness of sample() is {op} of shape {fmt_shape(shp)} for a result of shape (F, Ko, N): the same draws are broadcast over folds / units, so the variables of one sample (which sit in different folds of a folded input layer) share their noise and the joint distribution is wrong while every marginal looks right", f"{fi.module.relpath}:{getattr(nd, 'lineno', fi.node.lineno)}"))
    # R4u: every input of an inner layer is consumed (forward and sample)
    n_in = ar_d.as_int()
    if kind in ("inner", "sample_inner") and n_in is not None and n_in >= 2 and any(o.status == "ok" and o.nontrivial for o in out):
        sel = {i for lab, i in it.selected if lab == "H"}  # type: ignore[attr-defined]
        uinst = inst.replace(meth, meth + "-inputs", 1)
        if "all" in sel or set(range(n_in)) <= sel:
            out.append(ok("R4u", c.qualname, uinst, f"all {n_in} inputs are read", fi.loc))
        elif sel:
            missing = sorted(set(range(n_in)) - {i for i in sel if isinstance(i, int)})
            out.append(viol("R4u", c.qualname, uinst, f"only the inputs {sorted(i for i in sel if isinstance(i, int))} of {n_in} are read: input(s) {missing} never reach the result (their variables are dropped from every product / sample)", fi.loc))
        else:
            out.append(unres("R4u", c.qualname, uinst, "how the arity axis is consumed was not derived", fi.loc))
    return _dedup(out)


# ------------------------------------------------------------------------------- queries

QUERIES = "cirkit.backend.torch.queries"
CIRCUIT = "cirkit.backend.torch.circuits.TorchCircuit"
DC, BM, NV = Dim.sym("Dc"), Dim.sym("Bm"), Dim.sym("Nv")
MAXV = Dim.sym("nn:maxvar[Dc]")  # the largest variable id of the abstract circuit scope (tensor_ops: max(ScopeV))


def _abstract_query(ctx: Ctx, st: State, qcls: str) -> ObjV:
    """a query object whose circuit has a scope of symbolic size Dc (fields set by fiat: the
    constructor only stores the circuit)"""
    from ..shapes import ScopeV, new_obj

    circ = new_obj(st, ctx.repo.cls(CIRCUIT))
    st.heap[circ.oid]["_scope"] = ScopeV(DC)
    q = new_obj(st, ctx.repo.cls(qcls))
    st.heap[q.oid]["_circuit"] = circ
    return q


def query_contracts(ctx: Ctx, which: set[str]) -> list[Ob]:
    """R4q: the per-layer functions of the queries keep the layer contracts:
    SamplingQuery._pad_samples((F, Ko, N), scope_idx (F, 1)) -> (F, Ko, N, max(scope) + 1);
    IntegrateQuery._layer_fn(layer, x (F, B, D), mask (1 | B, Nv)) -> (F, B, Ko) for every input layer."""
    repo = ctx.repo
    obs: list[Ob] = []
    if "pad" in which:
        fi = repo.func(QUERIES + ".SamplingQuery._pad_samples")
        it = Interp(repo)
        st = State()
        q = _abstract_query(ctx, st, QUERIES + ".SamplingQuery")
        try:
            res = list(it.call(fi, [TensorV((F, KO, N)), TensorV((F, DV), "int")], {}, st, selfv=q))
            if not res:
                obs.append(unres("R4q", fi.qualname, "pad", "every path raises", fi.loc))
            for rv, s2 in res:
                # the variable axis is addressed by variable id (scope_idx holds ids), as the D axis of
                # the circuit input is: it has max(scope) + 1 columns.  len(scope) columns are too few
                # for every scope that is not 0..n-1 (a marginalised / conditioned circuit): D30
                want = s2.norm_shape((F, KO, N, MAXV + 1))
                if not isinstance(rv, TensorV):
                    obs.append(unres("R4q", fi.qualname, "pad", f"result not resolved: {_fmt(rv, s2)}", fi.loc))
                elif s2.norm_shape(rv.shape) == want:
                    obs.append(ok("R4q", fi.qualname, "pad", fmt_shape(want), fi.loc))
                else:
                    obs.append(viol("R4q", fi.qualname, "pad", f"returns {fmt_shape(s2.norm_shape(rv.shape))}, the sampling chain expects (F, Ko, N, max(scope) + 1) = {fmt_shape(want)}: the last axis is indexed by the variable ids in scope_idx, and a scope need not be 0..n-1", fi.loc))
        except ShapeError as e:
            obs.append(viol("R4q", fi.qualname, "pad", f"{e.msg} [{e.where}]", fi.loc))
        except (PathLimit, RecursionError):
            obs.append(unres("R4q", fi.qualname, "pad", "path limit", fi.loc))
    if "sample-call" in which:
        from ..shapes import BuiltinV

        fi = repo.func(QUERIES + ".SamplingQuery.__call__")
        it = Interp(repo)
        st = State()
        q = _abstract_query(ctx, st, QUERIES + ".SamplingQuery")
        O_, K_ = Dim.sym("O"), Dim.sym("K")
        it.consts["evaluate"] = fresh_tensor((O_, K_, N, DC))
        circ = st.heap[q.oid]["_circuit"]
        st.heap[circ.oid]["evaluate"] = BuiltinV("const.evaluate")
        try:
            res = list(it.call(fi, [IntV(N)], {}, st, selfv=q))
            if not res:
                obs.append(unres("R4q", fi.qualname, "sample-call", "every path raises", fi.loc))
            for rv, s2 in res:
                first = rv.items[0] if isinstance(rv, TupleV) and rv.items else rv
                want = s2.norm_shape((N, DC))
                if not isinstance(first, TensorV):
                    obs.append(unres("R4q", fi.qualname, "sample-call", f"result not resolved: {_fmt(rv, s2)}", fi.loc))
                elif s2.norm_shape(first.shape) != want:
                    obs.append(viol("R4q", fi.qualname, "sample-call", f"returns samples of shape {fmt_shape(s2.norm_shape(first.shape))} from the (O, K, N, D) result of the sampling pass; documented (num_samples, num_variables) = {fmt_shape(want)}", fi.loc))
                elif first.lay is not None and first.lay[0] is not None and first.lay[1] is not None and [l.split("|")[0] for l, _ in first.lay[0]] + [l.split("|")[0] for l, _ in first.lay[1]] != ["N", "Dc"]:
                    obs.append(viol("R4q", fi.qualname, "sample-call", f"the returned (N, D) tensor is laid out {fmt_all(first.lay)}: rows are not the samples / columns not the variables", fi.loc))
                else:
                    obs.append(ok("R4q", fi.qualname, "sample-call", f"{fmt_shape(want)} laid out {fmt_all(first.lay)}", fi.loc))
        except ShapeError as e:
            obs.append(viol("R4q", fi.qualname, "sample-call", f"{e.msg} [{e.where}]", fi.loc))
        except (PathLimit, RecursionError):
            obs.append(unres("R4q", fi.qualname, "sample-call", "path limit", fi.loc))
    if "integrate" in which:
        fi = repo.func(QUERIES + ".IntegrateQuery._layer_fn")
        const_cls = repo.cls(CONST)
        for c in list(repo.subclasses(repo.cls(INPUT_FN))) + [k for k in repo.subclasses(const_cls) if k.name == "TorchConstantValueLayer"]:
            if not repo.is_concrete(c):
                continue
            is_const = repo.is_subclass(c, const_cls)
            for tag, choice in _layer_choices(ctx, c):
                it = Interp(repo)
                st = State()
                try:
                    built = list(_build_layer(ctx, it, c, st, choice))
                except (ShapeError, PathLimit, RecursionError):
                    continue
                for obj, s2 in built:
                    for bm_tag, bm in (("mask-batch=1", Dim.const(1)), ("mask-batch=B", B)):
                        inst = f"{c.name}[{tag}]{bm_tag}" if tag else f"{c.name}{bm_tag}"
                        s3 = s2.copy()
                        h = s3.heap[obj.oid]
                        ko, nv = h.get("num_output_units"), h.get("num_input_units")
                        if not (isinstance(ko, IntV) and isinstance(nv, IntV)):
                            continue
                        it2 = Interp(repo)
                        try:
                            # a constant layer (the integral of an input layer, an evidence layer) is over no variable:
                            # its scope index is (F, 0) and the circuit hands it the batch size
                            x_arg: V = IntV(B) if is_const else TensorV((F, B, s3.norm(nv.d)))
                            res = list(it2.call(fi, [obj, x_arg], {"integrate_vars_mask": TensorV((bm, NV), "bool")}, s3))
                            for rv, s4 in res:
                                want = s4.norm_shape((F, B, ko.d))
                                if not isinstance(rv, TensorV):
                                    obs.append(unres("R4q", fi.qualname, inst, f"result not resolved: {_fmt(rv, s4)}", fi.loc))
                                elif s4.norm_shape(rv.shape) == want:
                                    obs.append(ok("R4q", fi.qualname, inst, fmt_shape(want), fi.loc))
                                else:
                                    obs.append(viol("R4q", fi.qualname, inst, f"returns {fmt_shape(s4.norm_shape(rv.shape))}, contract (F, B, Ko) = {fmt_shape(want)}", fi.loc))
                        except ShapeError as e:
                            obs.append(viol("R4q", fi.qualname, inst, f"{e.msg} [{e.where}]", fi.loc))
                        except (PathLimit, RecursionError):
                            obs.append(unres("R4q", fi.qualname, inst, "path limit", fi.loc))
    return _dedup(obs)


if __name__ == "__main__":  # debugging aid:  python -m sa.rules.r4 [root]
    import sys

    roots = [a for a in sys.argv[1:] if not a.startswith("-")]
    cx = Ctx(roots[0] if roots else None)
    for o in param_op_contracts(cx) + layer_contracts(cx) + query_contracts(cx, {'pad', 'integrate'}):
        if o.status != "ok" or "-v" in sys.argv:
            print(o.status.upper(), o.line())
    print(cx.stats)


# ------------------------------------------------------------------------------- address book gathers
LOOKUP = "cirkit.backend.torch.circuits.LayerAddressBook.lookup"
PLOOKUP = "cirkit.backend.torch.parameters.parameter.ParameterAddressBook.lookup"
ENTRY = "cirkit.backend.torch.graph.modules.AddressBookEntry"


def gather_contracts(ctx: Ctx) -> list[Ob]:
    """R4g -- the gathers of ``LayerAddressBook.lookup`` (one iteration of its loop, interpreted on an
    abstract entry) hand every layer the tensor its forward contract expects:
      inner layer, inputs from one or two modules with (F1|F2, B, K) outputs and a fold index (F, H)
                                                      ->  (F, H, B, K)
      input layer with scope index (F, D) and circuit input (B, Dt)   ->  (F, B, D)
      output entry with fold index (O,)                                ->  (O, B, K)  (then transposed to (B, O, K))"""
    from ..shapes import new_obj, ClassV

    repo = ctx.repo
    f = repo.func(LOOKUP)
    loops = [n for n in ast.walk(f.node) if isinstance(n, ast.For) and isinstance(n.iter, ast.Name) and n.iter.id == "self"]
    if not loops:
        return [unres("R4g", f.qualname, "loop", "no `for entry in self` loop: another formulation, no verdict", f.loc)]
    loop = loops[0]
    tgt = loop.target.id if isinstance(loop.target, ast.Name) else "entry"
    F1, F2, K, DT, O = (Dim.sym(s) for s in ("F1", "F2", "K", "Dt", "O"))
    obs: list[Ob] = []

    def run(tag: str, entry_fields: dict[str, V], extra_env: dict[str, V], want: tuple[Dim, ...], module: V) -> None:
        it = Interp(repo)
        st = State()
        ent = new_obj(st, repo.cls(ENTRY))
        st.heap[ent.oid].update({"module": module, **entry_fields})
        st.env.update({"self": Unknown("address book"), tgt: ent, **extra_env})
        fr = Frame(f, 0)
        try:
            for _ in it.block(loop.body, st, fr):
                pass
        except ShapeError as e:
            obs.append(viol("R4g", f.qualname, tag, f"{e.msg} [{e.where}]", f.loc))
            return
        except (PathLimit, RecursionError):
            obs.append(unres("R4g", f.qualname, tag, "path limit", f.loc))
            return
        got = []
        for v, s2 in fr.yields:
            if isinstance(v, TupleV) and len(v.items) == 2 and isinstance(v.items[1], TupleV) and len(v.items[1].items) == 1:
                x = v.items[1].items[0]
                if isinstance(x, TensorV):
                    got.append((s2.norm_shape(x.shape), s2))
                elif isinstance(x, Unknown):
                    got.append((None, s2))
        if not got:
            obs.append(unres("R4g", f.qualname, tag, "no gathered input yielded for this entry", f.loc))
            return
        for shp, s2 in got:
            w = s2.norm_shape(want)
            if shp is None:
                obs.append(unres("R4g", f.qualname, tag, "gathered tensor not resolved", f.loc))
            elif shp == w:
                obs.append(ok("R4g", f.qualname, tag, fmt_shape(w), f.loc))
            else:
                obs.append(viol("R4g", f.qualname, tag, f"the layer is handed a tensor of shape {fmt_shape(shp)}, its forward contract expects {fmt_shape(w)}", f.loc))

    inner = repo.cls(INNER)
    st0 = State()
    for n_mod, outs, ft in ((1, [TensorV((F1, B, K))], F1), (2, [TensorV((F1, B, K)), TensorV((F2, B, K))], F1 + F2)):
        layer = ObjV(10_000 + n_mod, inner)
        ids = TupleV((TupleV(tuple(mkint(i) for i in range(n_mod)), "list"),), "list")
        run(f"inner[{n_mod} source module(s)]", {"in_module_ids": ids, "in_fold_idx": TupleV((TensorV((F, H), "int"),), "list")}, {"module_outputs": TupleV(tuple(outs), "list"), "in_graph": TensorV((B, DT))}, (F, H, B, K), layer)
    # input layer: needs num_variables and scope_idx
    inp = repo.cls(INPUT)
    it0 = Interp(repo)
    for tag, in_graph in (("input", TensorV((B, DT))),):
        it = Interp(repo)
        st = State()
        lay = new_obj(st, inp)
        st.heap[lay.oid].update({"num_input_units": IntV(D), "_scope_idx": TensorV((F, D), "int")})
        ent = new_obj(st, repo.cls(ENTRY))
        st.heap[ent.oid].update({"module": lay, "in_module_ids": TupleV((), "list"), "in_fold_idx": TupleV((), "list")})
        st.env.update({"self": Unknown("address book"), tgt: ent, "module_outputs": TupleV((), "list"), "in_graph": in_graph})
        fr = Frame(f, 0)
        try:
            for _ in it.block(loop.body, st, fr):
                pass
            ys = [(v.items[1].items[0], s2) for v, s2 in fr.yields if isinstance(v, TupleV) and len(v.items) == 2 and isinstance(v.items[1], TupleV) and len(v.items[1].items) == 1]
            ts = [(x, s2) for x, s2 in ys if isinstance(x, TensorV)]
            if not ts:
                obs.append(unres("R4g", f.qualname, "input", "no gathered input yielded for an input layer", f.loc))
            for x, s2 in ts:
                got, w = s2.norm_shape(x.shape), s2.norm_shape((F, B, D))
                if got == w:
                    obs.append(ok("R4g", f.qualname, "input", fmt_shape(w), f.loc))
                else:
                    obs.append(viol("R4g", f.qualname, "input", f"an input layer is handed {fmt_shape(got)}, its forward contract expects (F, B, D) = {fmt_shape(w)}", f.loc))
        except ShapeError as e:
            obs.append(viol("R4g", f.qualname, "input", f"{e.msg} [{e.where}]", f.loc))
        except (PathLimit, RecursionError):
            obs.append(unres("R4g", f.qualname, "input", "path limit", f.loc))
    # output entry
    run("output", {"in_module_ids": TupleV((TupleV((mkint(0),), "list"),), "list"), "in_fold_idx": TupleV((TensorV((O,), "int"),), "list")}, {"module_outputs": TupleV((TensorV((F1, B, K)),), "list"), "in_graph": TensorV((B, DT))}, (O, B, K), NONE)
    return _dedup(obs)


def output_contract(ctx: Ctx) -> list[Ob]:
    """R4g -- ``TorchCircuit._evaluate_layers`` turns the stacked outputs (O, B, K) of ``evaluate`` into
    (B, O, K) -- 'the result has shape (batch, outputs, units)' -- and, for a circuit over no
    variables (batch of one), into (O, K)."""
    from ..shapes import BuiltinV, ScopeV, new_obj

    repo = ctx.repo
    f = repo.func("cirkit.backend.torch.circuits.TorchCircuit._evaluate_layers")
    O, K = Dim.sym("O"), Dim.sym("K")
    obs: list[Ob] = []
    for tag, scope, b, want in (("scope non-empty", ScopeV(Dim.sym("Dc")), B, (B, O, K)), ("scope empty", ScopeV(Dim.const(0)), Dim.const(1), (O, K))):
        it = Interp(repo)
        st = State()
        circ = new_obj(st, repo.cls("cirkit.backend.torch.circuits.TorchCircuit"))
        it.consts["evaluate"] = TensorV((O, b, K))
        st.heap[circ.oid].update({"_scope": scope, "evaluate": BuiltinV("const.evaluate")})
        try:
            res = list(it.call(f, [TensorV((b, Dim.sym("Dt")))], {}, st, selfv=circ))
            for rv, s2 in res:
                if not isinstance(rv, TensorV):
                    obs.append(unres("R4g", f.qualname, f"outputs[{tag}]", f"result not resolved: {rv!r}", f.loc))
                elif s2.norm_shape(rv.shape) == s2.norm_shape(want):
                    obs.append(ok("R4g", f.qualname, f"outputs[{tag}]", fmt_shape(want), f.loc))
                else:
                    obs.append(viol("R4g", f.qualname, f"outputs[{tag}]", f"returns {fmt_shape(s2.norm_shape(rv.shape))}, the documented result is (batch, outputs, units) = {fmt_shape(want)}", f.loc))
            if not res:
                obs.append(unres("R4g", f.qualname, f"outputs[{tag}]", "every path raises", f.loc))
        except ShapeError as e:
            obs.append(viol("R4g", f.qualname, f"outputs[{tag}]", f"{e.msg} [{e.where}]", f.loc))
        except (PathLimit, RecursionError):
            obs.append(unres("R4g", f.qualname, f"outputs[{tag}]", "path limit", f.loc))
    return _dedup(obs)


def param_gather_contracts(ctx: Ctx) -> list[Ob]:
    """R4g -- one iteration of ``ParameterAddressBook.lookup`` on an abstract entry: a parameter node
    with one or two operands, each gathered from one or two source nodes with (F1|F2, *s) outputs by a
    fold index (F,) -- or taken whole through the index-free form ``()`` -- receives (F, *s) / (F1, *s)."""
    from ..shapes import new_obj

    repo = ctx.repo
    f = repo.func(PLOOKUP)
    loops = [n for n in ast.walk(f.node) if isinstance(n, ast.For) and isinstance(n.iter, ast.Name) and n.iter.id == "self"]
    if not loops:
        return [unres("R4g", f.qualname, "loop", "no `for entry in self` loop: another formulation, no verdict", f.loc)]
    loop = loops[0]
    tgt = loop.target.id if isinstance(loop.target, ast.Name) else "entry"
    F1, F2, S0, S1 = (Dim.sym(s) for s in ("F1", "F2", "s0", "s1"))
    obs: list[Ob] = []
    node = ObjV(20_000, repo.cls(NODES + ".TorchParameterNode"))
    cases = [
        ("gathered, 1 source", [TensorV((F1, S0, S1))], TupleV((TupleV((mkint(0),), "list"),), "list"), TupleV((TensorV((F,), "int"),), "list"), (F, S0, S1)),
        ("gathered, 2 sources", [TensorV((F1, S0, S1)), TensorV((F2, S0, S1))], TupleV((TupleV((mkint(0), mkint(1)), "list"),), "list"), TupleV((TensorV((F,), "int"),), "list"), (F, S0, S1)),
        ("index-free", [TensorV((F1, S0, S1))], TupleV((TupleV((mkint(0),), "list"),), "list"), TupleV((TupleV(()),), "list"), (F1, S0, S1)),
    ]
    for tag, outs, ids, idxs, want in cases:
        it = Interp(repo)
        st = State()
        ent = new_obj(st, repo.cls(ENTRY))
        st.heap[ent.oid].update({"module": node, "in_module_ids": ids, "in_fold_idx": idxs})
        st.env.update({"self": Unknown("address book"), tgt: ent, "module_outputs": TupleV(tuple(outs), "list"), "in_graph": NONE})
        fr = Frame(f, 0)
        try:
            # nested helper definitions of the function body come first
            pre = [s_ for s_ in f.node.body if isinstance(s_, ast.FunctionDef)]
            for s_ in pre:
                for _ in it.stmt(s_, st, fr):
                    pass
            for _ in it.block(loop.body, st, fr):
                pass
        except ShapeError as e:
            obs.append(viol("R4g", f.qualname, tag, f"{e.msg} [{e.where}]", f.loc))
            continue
        except (PathLimit, RecursionError):
            obs.append(unres("R4g", f.qualname, tag, "path limit", f.loc))
            continue
        got = []
        for v, s2 in fr.yields:
            if isinstance(v, TupleV) and len(v.items) == 2 and isinstance(v.items[1], TupleV) and len(v.items[1].items) >= 1:
                x = v.items[1].items[0]
                got.append((s2.norm_shape(x.shape) if isinstance(x, TensorV) else None, s2))
        if not got:
            obs.append(unres("R4g", f.qualname, tag, "no gathered operand yielded", f.loc))
        for shp, s2 in got:
            w = s2.norm_shape(want)
            if shp is None:
                obs.append(unres("R4g", f.qualname, tag, "gathered operand not resolved", f.loc))
            elif shp == w:
                obs.append(ok("R4g", f.qualname, tag, fmt_shape(w), f.loc))
            else:
                obs.append(viol("R4g", f.qualname, tag, f"the node is handed an operand of shape {fmt_shape(shp)}, its forward contract expects {fmt_shape(w)}", f.loc))
    return _dedup(obs)


def initializer_contracts(ctx: Ctx) -> list[Ob]:
    """R4i -- the Dirichlet initialiser, interpreted on tensors of rank 2..4 (fold axis included) and
    every ``dim``: it writes a tensor of exactly the destination's shape (for all sizes) whose simplex
    axis -- the one the samples sum to one along -- sits at ``dim``."""
    repo = ctx.repo
    f = repo.func("cirkit.backend.torch.initializers.dirichlet_")
    obs: list[Ob] = []
    ranks = (2, 3, 4, 5) if ctx.tier == "thorough" else (2, 3, 4)
    from ..shapes import SeqV

    for r in ranks:
      for alpha_kind in ("scalar", "list"):
        for dim in list(range(1, r)) + [-1]:
            shape = tuple(Dim.sym(f"d{i}") for i in range(r))
            inst = f"dirichlet[rank={r},dim={dim}]" + ("" if alpha_kind == "scalar" else "[alpha=list]")
            it = Interp(repo)
            st = State()
            alpha: V = FloatV(1.0) if alpha_kind == "scalar" else SeqV(FloatV(None), Dim.sym("A"))
            try:
                it.copies = []  # type: ignore[attr-defined]
                res = list(it.call(f, [fresh_tensor(shape), alpha], {"dim": mkint(dim)}, st))
                if not res:
                    obs.append(unres("R4i", f.qualname, inst, "every path raises", f.loc))
                for rv, s2 in res:
                    if not isinstance(rv, TensorV):
                        obs.append(unres("R4i", f.qualname, inst, f"result not resolved: {rv!r}", f.loc))
                        continue
                    k = dim % r
                    src = it.copies[-1][1] if it.copies else None  # type: ignore[attr-defined]
                    lay = src.lay[k] if src is not None and src.lay is not None and len(src.lay) == r else None
                    if s2.norm_shape(rv.shape) != s2.norm_shape(shape):
                        obs.append(viol("R4i", f.qualname, inst, f"writes {fmt_shape(s2.norm_shape(rv.shape))} into a tensor of shape {fmt_shape(shape)}", f.loc))
                    elif lay is not None and [l for l, _ in lay] != ["simplex"]:
                        obs.append(viol("R4i", f.qualname, inst, f"the axis the samples sum to one along ends up elsewhere: axis {k} holds {fmt_all([lay])[1:-1]}", f.loc))
                    elif lay is None:
                        obs.append(unres("R4i", f.qualname, inst, "position of the simplex axis not derived", f.loc))
                    else:
                        obs.append(ok("R4i", f.qualname, inst, f"{fmt_shape(shape)} with the simplex axis at {k}", f.loc))
            except ShapeError as e:
                obs.append(viol("R4i", f.qualname, inst, f"{e.msg} [{e.where}]", f.loc))
            except (PathLimit, RecursionError):
                obs.append(unres("R4i", f.qualname, inst, "path limit", f.loc))
    return _dedup(obs)
