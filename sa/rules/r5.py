"""R5 -- fold-dimension shift and dead hyper-parameters (torch parameter operators)."""

from __future__ import annotations

import ast

from ..cfg import build_cfg
from ..flow import LocalDefs
from ..core import Ctx, Ob, note, ok, unres, viol
from ..model import ClassInfo, dotted, is_self_attr, unparse, walk_no_nested
from .r2 import parent_map

T_POP = "cirkit.backend.torch.parameters.nodes.TorchParameterOp"


def normalised_axis_attrs(ctx: Ctx, c: ClassInfo) -> dict[str, str]:
    """``self`` attributes assigned in ``__init__`` (anywhere in the MRO) from a local that was
    normalised with the repo's idiom ``d = d if d >= 0 else d + len(shape)``: these are axes
    *relative to the un-folded shape*.  Returns attr -> owner class name."""
    out: dict[str, str] = {}
    for k in ctx.repo.mro(c):
        init = k.methods.get("__init__")
        if init is None:
            continue
        normalised: set[str] = set()
        for n in walk_no_nested(init.node):
            if isinstance(n, ast.Assign) and len(n.targets) == 1 and isinstance(n.targets[0], ast.Name) and isinstance(n.value, ast.IfExp):
                t = n.targets[0].id
                v = n.value
                # d if d >= 0 else d + len(..)
                if (
                    isinstance(v.body, ast.Name)
                    and v.body.id == t
                    and isinstance(v.test, ast.Compare)
                    and unparse(v.test.left) == t
                    and isinstance(v.orelse, ast.BinOp)
                    and isinstance(v.orelse.op, ast.Add)
                    and "len(" in unparse(v.orelse)
                ):
                    normalised.add(t)
        for n in walk_no_nested(init.node):
            if isinstance(n, ast.Assign) and isinstance(n.value, ast.Name) and n.value.id in normalised:
                for t in n.targets:
                    a = is_self_attr(t)
                    if a is not None:
                        out.setdefault(a, k.name)
    return out


def _forward_methods(ctx: Ctx, c: ClassInfo) -> list:
    """forward and the helper methods it calls through self./cls./ClassName."""
    res = []
    seen: set[str] = set()
    stack = ["forward"]
    while stack:
        name = stack.pop()
        if name in seen:
            continue
        seen.add(name)
        f = ctx.repo.lookup(c, name)
        if f is None or f.is_property:
            continue
        res.append(f)
        for n in walk_no_nested(f.node):
            if isinstance(n, ast.Call) and isinstance(n.func, ast.Attribute) and isinstance(n.func.value, ast.Name) and n.func.value.id in ("self", "cls", c.name):
                stack.append(n.func.attr)
    return res


def r5a(ctx: Ctx) -> list[Ob]:
    out: list[Ob] = []
    base = ctx.repo.cls(T_POP)
    for c in ctx.repo.subclasses(base):
        if not ctx.repo.is_concrete(c):
            continue
        axes = normalised_axis_attrs(ctx, c)
        if not axes:
            continue
        for f in _forward_methods(ctx, c):
            parents = parent_map(f.node)
            k = 0
            for n in walk_no_nested(f.node):
                a = is_self_attr(n)
                if a is None or a not in axes:
                    continue
                p = parents.get(id(n))
                site = f"{f.module.relpath}:{n.lineno}"
                inst = f"{f.name}:self.{a}#{k}"
                k += 1
                if isinstance(p, ast.BinOp) and isinstance(p.op, ast.Add):
                    other = p.right if p.left is n else p.left
                    if isinstance(other, ast.Constant) and isinstance(other.value, int) and other.value >= 1:
                        out.append(ok("R5a", c.qualname, inst, f"axis used as self.{a} + {other.value} (fold dimension skipped)", site))
                        continue
                # slicing the *un-folded* shape tuples with the raw axis is fine
                q = p
                in_shape_ctx = False
                while q is not None and not isinstance(q, ast.stmt):
                    if isinstance(q, ast.Subscript) and "shape" in unparse(q.value) and "x" not in {x.id for x in ast.walk(q.value) if isinstance(x, ast.Name)}:
                        in_shape_ctx = True
                    q = parents.get(id(q))
                if in_shape_ctx:
                    out.append(ok("R5a", c.qualname, inst, "axis indexes an un-folded shape tuple", site, nontrivial=False))
                    continue
                out.append(
                    viol(
                        "R5a",
                        c.qualname,
                        inst,
                        f"self.{a} is an axis of the un-folded shape (normalised in {axes[a]}.__init__) but is used in forward as `{unparse(p) if p is not None else unparse(n)}` "
                        "without the +1 shift for the leading fold dimension: the operator acts on the wrong axis",
                        site,
                    )
                )
    return out


def r5b(ctx: Ctx) -> list[Ob]:
    out: list[Ob] = []
    base = ctx.repo.cls(T_POP)
    for c in ctx.repo.subclasses(base):
        if not ctx.repo.is_concrete(c):
            continue
        cfg = ctx.cf.dict_property(c, "config")
        if ctx.repo.lookup(c, "forward") is None:
            continue
        reads = ctx.cf.reachable_self_reads(c, "forward")
        for k, (v, _) in cfg.items.items():
            if "shape" in k:
                continue  # input shapes only determine the output shape
            st = set(ctx.cf.storage_of_expr(c, v)) | ctx.cf.init_param_storage(c, k)
            if st & reads:
                out.append(ok("R5b", c.qualname, f"used:{k}", f"forward depends on {sorted(st & reads)}", c.loc))
            else:
                out.append(
                    viol(
                        "R5b",
                        c.qualname,
                        f"used:{k}",
                        f"hyper-parameter '{k}' (storage {sorted(st)}) determines the declared output shape but is never read on any path from forward "
                        f"(forward reads {sorted(reads)}): the computed tensor cannot depend on it",
                        c.loc,
                    )
                )
    return out


def _lossless_shortcut(c: ClassInfo, init, fwd, ret: ast.Return) -> bool:
    """the bypassing return is a plain pass-through of the input, or is guarded by an attribute the
    constructor only sets after comparing the *whole* index list with ``range(..)`` / ``list(range(..))``"""
    params = [a.arg for a in fwd.node.args.args if a.arg != "self"]
    if isinstance(ret.value, ast.Name) and ret.value.id in params:
        return True
    # attributes read by the conditions dominating the return
    attrs: set[str] = set()
    cur_tests = [n.test for n in ast.walk(fwd.node) if isinstance(n, ast.If) and any(x is ret for b in [n.body] for s_ in b for x in ast.walk(s_))]
    for t in cur_tests:
        attrs |= {x.attr for x in ast.walk(t) if isinstance(x, ast.Attribute) and isinstance(x.value, ast.Name) and x.value.id == "self"}
    if not attrs:
        return False
    for n in ast.walk(init.node):
        if isinstance(n, ast.If) and any(isinstance(s_, ast.Assign) and any(is_self_attr(t) in attrs for t in s_.targets) for s_ in ast.walk(n) if isinstance(s_, ast.Assign)):
            for cmp_ in ast.walk(n.test):
                if isinstance(cmp_, ast.Compare) and len(cmp_.ops) == 1 and isinstance(cmp_.ops[0], ast.Eq):
                    sides = [cmp_.left, cmp_.comparators[0]]
                    whole = [s_ for s_ in sides if isinstance(s_, ast.Name) or (isinstance(s_, ast.Call) and isinstance(s_.func, ast.Name) and s_.func.id in ("list", "tuple") and s_.args and isinstance(s_.args[0], ast.Name))]
                    rng = [s_ for s_ in sides if "range(" in unparse(s_)]
                    if whole and rng:
                        return True
    return False


# ------------------------------------------------------------------------------- R5c: registered index tensors
def r5c(ctx: Ctx) -> list[Ob]:
    """R5c: an index tensor a parameter node registers as a buffer in its constructor (the indices
    of an index parameter, the fold index of a pointer) *is* the node's function: every return path
    of ``forward`` reads it (a ``.. is None`` test counts).  A path that answers from something
    derived once in the constructor (a ``(start, length)`` summary of the indices) computes another
    selection whenever the summary loses information (unsorted or repeated indices)."""
    out: list[Ob] = []
    base = ctx.repo.cls("cirkit.backend.torch.parameters.nodes.TorchParameterNode")
    for c in ctx.repo.subclasses(base):
        init = c.methods.get("__init__")
        fwd = ctx.repo.lookup(c, "forward")
        if init is None or fwd is None or fwd.is_abstract:
            continue
        bufs = []
        for n in walk_no_nested(init.node):
            if isinstance(n, ast.Call) and isinstance(n.func, ast.Attribute) and n.func.attr == "register_buffer" and n.args and isinstance(n.args[0], ast.Constant):
                bufs.append(n.args[0].value)
        for b in bufs:
            rets = [r for r in walk_no_nested(fwd.node) if isinstance(r, ast.Return) and r.value is not None]
            ld = LocalDefs(fwd.node)
            cfg = build_cfg(fwd.node)
            bad = None
            for r in rets:
                # reads on the return expression itself (through locals) or in a dominating condition
                names = {x.attr for e in ld.expand(r.value) for x in ast.walk(e) if isinstance(x, ast.Attribute) and isinstance(x.value, ast.Name) and x.value.id == "self"}
                if b in names:
                    continue
                rn = cfg.node_of(r)
                dom = cfg.dominators().get(rn, set()) if rn is not None else set()
                cond_reads = False
                for d in dom:
                    st_ = cfg.stmts.get(d)
                    if isinstance(st_, (ast.If, ast.While)) and any(isinstance(x, ast.Attribute) and x.attr == b for x in ast.walk(st_.test)):
                        cond_reads = True
                if not cond_reads:
                    bad = r
                    break
            inst = f"buffer:{b}"
            if bad is not None and _lossless_shortcut(c, init, fwd, bad):
                out.append(ok("R5c", c.qualname, inst, f"a return path of forward bypasses self.{b}, guarded by a constructor test that compares the whole index list with a range (lossless)", fwd.loc, nontrivial=False))
                continue
            if bad is None:
                out.append(ok("R5c", c.qualname, inst, f"every return path of forward reads self.{b}", fwd.loc))
            else:
                out.append(viol("R5c", c.qualname, inst, f"`{unparse(bad)[:70]}` answers without reading the registered index tensor self.{b}: whatever it uses instead was derived once in the constructor and cannot stand for arbitrary (unsorted, repeated) indices", f"{fwd.module.relpath}:{bad.lineno}"))
    return out


# ------------------------------------------------------------------------------------------ R5d
POLYDIFF = "cirkit.backend.torch.parameters.nodes.TorchPolynomialDifferential"


def r5d(ctx: Ctx) -> list[Ob]:
    """R5d -- each differentiation step multiplies the coefficient of x^n by n.

    ``TorchPolynomialDifferential.forward`` is interpreted for order 1, 2 (3 in the thorough tier) on
    an abstract coefficient tensor (F, K, dp1), with two value abstractions switched on: an integer
    *ramp* (``arange(a, b)`` has first value a; a slice ``r[s:]`` of a ramp has first value a + s, a
    negative s counted from the ramp's length) and the *origin* of a slice (``x[..., s:]`` starts at
    exponent s of x).  Every product ``slice * ramp`` met on the way must pair exponent n with the
    multiplier n (origin == first value, equal lengths), the result of a step is the coefficient vector
    of the derivative (exponents from 0 again), and the number of such steps is the order.  A hoisted
    ramp sliced by the loop counter (``arange[i:]``) multiplies the second step's coefficients by
    2, 3, .. instead of 1, 2, .. -- same shapes, other numbers -- and is reported with the step."""
    from ..dims import Dim
    from ..shapes import ClassV, Frame, IntV, Interp, PathLimit, ShapeError, State, TensorV, TupleV, fresh_tensor, mkint
    from .r4 import F, orders_of

    out: list[Ob] = []
    c = ctx.repo.cls(POLYDIFF)
    fwd = ctx.repo.lookup(c, "forward")
    init = ctx.repo.lookup(c, "__init__")
    if fwd is None or init is None:
        from ..model import AnalysisError

        raise AnalysisError(f"vanished anchor: {POLYDIFF}.forward")
    K, DP1 = Dim.sym("a0"), Dim.sym("a1")
    for order in orders_of(ctx):
        inst = f"exponent-ramp[order={order}]"
        it = Interp(ctx.repo)
        it.ramp_products = []  # type: ignore[attr-defined]
        zero_bad: list[str] = []
        nonzero_bad: list[str] = []
        st = State()
        try:
            built = list(it.construct(ClassV(c), [], {"in_shape": TupleV((IntV(K), IntV(DP1))), "num_folds": IntV(F), "order": mkint(order)}, st, Frame(init, 0)))
            n_paths = 0
            for obj, s2 in built:
                x = fresh_tensor(s2.norm_shape((F, K, DP1)))
                for rv, s3 in it.call(fwd, [x], {}, s2, selfv=obj):
                    # R5e: the constant-zero answer is for degree < order only (dp1 <= order), the case the declared shape's else-branch covers
                    if isinstance(rv, TensorV) and rv.val is not None and rv.val[0][0] == "zeros@":
                        s_try = s3.copy()
                        if s_try.assume(("cmp", DP1 - Dim.const(order), ">")):  # the path admits dp1 > order
                            zero_bad.append(" and ".join(s3.assumed[-3:]))
                        continue
                    # the converse: where the polynomial has degree < order the derivative is identically zero
                    if s3.decide(DP1 - Dim.const(order), "<=") is True and not (isinstance(rv, TensorV) and rv.val is not None and rv.val[0][0] == "zeros@"):
                        nonzero_bad.append(" and ".join(s3.assumed[-3:]))
                        continue
                    if not isinstance(rv, TensorV):
                        continue
                    n_paths += 1
            prods = list(it.ramp_products)  # type: ignore[attr-defined]
        except ShapeError as e:
            out.append(unres("R5d", c.qualname, inst, f"forward not interpretable: {e.msg}", fwd.loc))
            continue
        except (PathLimit, RecursionError):
            out.append(unres("R5d", c.qualname, inst, "path limit", fwd.loc))
            continue
        zinst = f"zero-branch[order={order}]"
        if zero_bad:
            out.append(viol("R5d", c.qualname, zinst, f"forward returns the constant zero on a path where the polynomial has degree >= order (dp1 > order; path: {zero_bad[0]}): the derivative of order k of a degree-k polynomial is the constant k!*a_k, not 0", fwd.loc))
        elif nonzero_bad:
            out.append(viol("R5d", c.qualname, zinst, f"on a path with dp1 <= order (degree < order; path: {nonzero_bad[0]}) forward does not return the constant zero: the derivative of order k of a polynomial of degree < k is identically 0, not its last non-zero derivative", fwd.loc))
        else:
            out.append(ok("R5d", c.qualname, zinst, "the constant zero is returned exactly when dp1 <= order", fwd.loc))
        if not prods:
            out.append(unres("R5d", c.qualname, inst, "no product of a coefficient slice with an integer ramp was met (another formulation of the derivative): no verdict", fwd.loc))
            continue
        bad = None
        for k, (so, ro, node, la, lb) in enumerate(prods):
            if so is None:
                continue
            if (so - ro).as_int() != 0:
                bad = (k, so, ro, node)
                break
        loc = fwd.loc
        if bad is not None:
            k, so, ro, node = bad
            ln = getattr(node, "lineno", None)
            loc = f"{fwd.module.relpath}:{ln}" if ln else fwd.loc
            out.append(
                viol(
                    "R5d",
                    c.qualname,
                    inst,
                    f"multiplication #{k + 1} pairs the coefficients starting at exponent {so!r} with multipliers starting at {ro!r}: "
                    f"d/dx a_n x^n = n a_n x^(n-1) needs the coefficient of x^n multiplied by n (the derivative of order {order} gets other numbers of the right shape)",
                    loc,
                )
            )
        elif len(prods) < order:
            out.append(unres("R5d", c.qualname, inst, f"{len(prods)} exponent multiplications for order {order}: the formulation is not step-wise, no verdict", loc))
        else:
            out.append(ok("R5d", c.qualname, inst, f"{len(prods)} step(s): every coefficient of x^n is multiplied by n", loc))
    return out


# ------------------------------------------------------------------------------------------ R5f
def r5f(ctx: Ctx) -> list[Ob]:
    """R5f -- a scaled sigmoid maps onto (vmin, vmax).

    ``ScaledSigmoidParameter(vmin, vmax)`` documents 'minimum / maximum output value'.  The torch
    forward is an affine function ``a * sigmoid(x) + b`` of a quantity in (0, 1): evaluated as a
    polynomial in the symbols ``vmin``, ``vmax`` and ``S = sigmoid(x)``, it must be affine in S with
    ``b == vmin`` and ``a + b == vmax`` (the two ends of the range).  ``sigmoid(x) * vmax + vmin``
    has the range (vmin, vmin + vmax): same shape, same monotonicity, other numbers whenever
    ``vmin`` is not negligible."""
    from ..dims import Dim

    q = "cirkit.backend.torch.parameters.nodes.TorchScaledSigmoidParameter"
    c = ctx.repo.cls(q)
    fwd = ctx.repo.lookup(c, "forward")
    if fwd is None:
        return [unres("R5f", q, "range", "no forward", c.loc)]
    rets = [r.value for r in walk_no_nested(fwd.node) if isinstance(r, ast.Return) and r.value is not None]
    ld = LocalDefs(fwd.node)
    S, VMIN, VMAX = Dim.sym("S"), Dim.sym("vmin"), Dim.sym("vmax")

    def ev(e: ast.AST, depth: int = 0) -> Dim | None:
        if depth > 8:
            return None
        if isinstance(e, ast.Constant) and isinstance(e.value, int):
            return Dim.const(e.value)
        if isinstance(e, ast.Constant) and isinstance(e.value, float) and float(e.value).is_integer():
            return Dim.const(int(e.value))
        a = is_self_attr(e)
        if a in ("vmin", "_vmin"):
            return VMIN
        if a in ("vmax", "_vmax"):
            return VMAX
        if isinstance(e, ast.Call) and (dotted(e.func) or "").split(".")[-1] == "sigmoid":
            return S
        if isinstance(e, ast.Name):
            ds = ld.defs.get(e.id, [])
            if len(ds) == 1:
                return ev(ds[0], depth + 1)
            return None
        if isinstance(e, ast.BinOp):
            l, r = ev(e.left, depth + 1), ev(e.right, depth + 1)
            if l is None or r is None:
                return None
            if isinstance(e.op, ast.Add):
                return l + r
            if isinstance(e.op, ast.Sub):
                return l - r
            if isinstance(e.op, ast.Mult):
                return l * r
            return None
        if isinstance(e, ast.UnaryOp) and isinstance(e.op, ast.USub):
            v = ev(e.operand, depth + 1)
            return None if v is None else Dim.const(0) - v
        if isinstance(e, ast.Call) and (dotted(e.func) or "").split(".")[-1] in ("addcmul", "add", "mul") :
            return None
        return None

    out: list[Ob] = []
    for r in rets:
        p = ev(r)
        if p is None:
            out.append(unres("R5f", q, "range", f"forward returns `{unparse(r)[:60]}`: not an affine expression of sigmoid(x), vmin, vmax the rule can evaluate", fwd.loc))
            continue
        lo = p.subst({"S": Dim.const(0)}) if hasattr(p, "subst") else None
        hi = p.subst({"S": Dim.const(1)}) if hasattr(p, "subst") else None
        quad = p.subst({"S": Dim.const(2)}) if hasattr(p, "subst") else None
        if lo is None or hi is None or quad is None:
            out.append(unres("R5f", q, "range", "polynomial substitution unavailable", fwd.loc))
            continue
        affine = (quad - hi) == (hi - lo)
        if not affine:
            out.append(unres("R5f", q, "range", f"forward is not affine in sigmoid(x): {p!r}", fwd.loc))
        elif lo == VMIN and hi == VMAX:
            out.append(ok("R5f", q, "range", f"{p!r}: sigmoid 0 -> vmin, sigmoid 1 -> vmax", fwd.loc))
        else:
            out.append(viol("R5f", q, "range", f"forward computes {p!r} (S = sigmoid(x)): its range runs from {lo!r} to {hi!r}, not from vmin to vmax as the symbolic operator documents", fwd.loc))
    return out


# ------------------------------------------------------------------------------------------ R5g
STRICT_DTYPE_OPS = {"matmul", "mm", "bmm", "einsum", "tensordot", "dot", "mv", "baddbmm", "addmm"}
PROMOTERS = {"promote_types", "result_type"}
CASTS = {"to", "type", "type_as"}


def r5g(ctx: Ctx) -> list[Ob]:
    """R5g -- a parameter operator that contracts several parameter tensors promotes them first.

    ``torch.matmul`` / ``einsum`` (with a contracted index) / ``tensordot`` raise when their operands
    differ in dtype; the element-wise operators and ``kron`` promote.  The parameter graph of a
    circuit may mix real and complex tensors (a real permutation matrix and a conjugated complex
    weight, a real and a complex embedding of a product): un-optimized compilation evaluates them with
    promoting operations (and the semirings cast), while the optimizer's rewrites (sum-collapse:
    MatMul; ReduceSum(OuterProduct): Einsum) go through the strict ones -- the same circuit then raises
    under optimize=True only.  Every ``forward`` of a parameter operator with two or more tensor
    inputs that calls a strict contraction has to feed it operands cast to a common dtype
    (``promote_types`` / ``result_type`` + ``.to``, or ``.to(other.dtype)`` / ``type_as``)."""
    out: list[Ob] = []
    base = ctx.repo.cls(T_POP)
    for c in ctx.repo.subclasses(base):
        f = c.methods.get("forward")
        if f is None:
            continue
        ps = [p for p in f.call_params if p.kind in ("pos", "vararg")]
        if len(ps) < 2 and not any(p.kind == "vararg" for p in ps):
            continue
        ld = LocalDefs(f.node)
        for n in walk_no_nested(f.node):
            strict = None
            args: list[ast.AST] = []
            if isinstance(n, ast.Call):
                nm = n.func.attr if isinstance(n.func, ast.Attribute) else (n.func.id if isinstance(n.func, ast.Name) else "")
                if nm in STRICT_DTYPE_OPS:
                    strict = nm
                    args = list(n.args) + ([n.func.value] if isinstance(n.func, ast.Attribute) and (dotted(n.func.value) or "") not in ("torch", "F", "torch.linalg") else [])
            elif isinstance(n, ast.BinOp) and isinstance(n.op, ast.MatMult):
                strict = "@"
                args = [n.left, n.right]
            if strict is None:
                continue
            loc = f"{f.module.relpath}:{n.lineno}"
            inst = f"promote:{strict}"
            seen_names = {x.id for a in args for ex in [a, *ld.expand(a)] for x in ast.walk(ex) if isinstance(x, ast.Name)}
            # how many of the tensor inputs reach the contraction
            reach = [p.name for p in ps if p.name in seen_names]
            if len(reach) < 2 and not any(p.kind == "vararg" and p.name in seen_names for p in ps):
                out.append(ok("R5g", c.qualname, inst, "a single tensor input reaches the contraction (nothing to promote)", loc, nontrivial=False))
                continue
            calls = {
                (k.func.attr if isinstance(k.func, ast.Attribute) else getattr(k.func, "id", ""))
                for a in args
                for ex in [a, *ld.expand(a)]
                for k in ast.walk(ex)
                if isinstance(k, ast.Call)
            }
            if calls & CASTS or calls & PROMOTERS:
                out.append(ok("R5g", c.qualname, inst, f"operands of `{strict}` are cast to a common dtype ({sorted(calls & (CASTS | PROMOTERS))})", loc))
            else:
                out.append(viol("R5g", c.qualname, inst, f"`{unparse(n)[:70]}` contracts several parameter tensors without promoting them to a common dtype: {strict} raises for a real and a complex operand, which the un-optimized graph (element-wise / kron / semiring casts) evaluates -- the optimizer's rewrite then makes the circuit raise under optimize=True only", loc))
    return out


# ------------------------------------------------------------------------------------------ R5h
def r5h(ctx: Ctx, modules: tuple[str, ...] = ("cirkit.backend.torch",)) -> list[Ob]:
    """R5h -- the two axis idioms put axis 0 on the right side.

    ``d if d >= 0 else d + len(shape)`` normalises a possibly negative axis: axis 0 must stay 0.
    ``a if a < 0 else a + 1`` shifts an axis of the un-folded shape past the fold dimension: negative
    axes count from the end and stay, *non-negative* axes -- 0 included -- move by one.  For every
    conditional expression whose branches are ``X`` and ``X + E`` under a comparison of ``X`` with 0
    the branch taken at ``X == 0`` is derived from the comparison operator: it has to be ``X + 1`` for
    the fold shift and ``X`` for the normalisation.  (`a + 1 if a > 0 else a` leaves axis 0 on the
    fold dimension: a Dirichlet initialiser along axis 0 then normalises across folds.)"""
    out: list[Ob] = []
    for f in ctx.repo.iter_functions():
        if not f.module.name.startswith(modules):
            continue
        for n in walk_no_nested(f.node):
            if not isinstance(n, ast.IfExp):
                continue
            t = n.test
            if not (isinstance(t, ast.Compare) and len(t.ops) == 1):
                continue
            l, r = t.left, t.comparators[0]
            op = t.ops[0]
            zero_right = isinstance(r, ast.Constant) and r.value == 0 and not isinstance(r.value, bool)
            zero_left = isinstance(l, ast.Constant) and l.value == 0 and not isinstance(l.value, bool)
            if zero_right == zero_left:
                continue
            x = l if zero_right else r
            xt = unparse(x)
            # truth of the test at x == 0
            if isinstance(op, (ast.GtE, ast.LtE, ast.Eq)):
                at0 = True
            elif isinstance(op, (ast.Gt, ast.Lt, ast.NotEq)):
                at0 = False
            else:
                continue
            br0, other = (n.body, n.orelse) if at0 else (n.orelse, n.body)

            def plus(e: ast.AST) -> ast.AST | None:
                if isinstance(e, ast.BinOp) and isinstance(e.op, ast.Add):
                    if unparse(e.left) == xt:
                        return e.right
                    if unparse(e.right) == xt:
                        return e.left
                return None

            incs = [(b, plus(b)) for b in (n.body, n.orelse)]
            plain = [b for b, p in incs if unparse(b) == xt]
            shifted = [(b, p) for b, p in incs if p is not None]
            if len(plain) != 1 or len(shifted) != 1:
                continue
            inc = shifted[0][1]
            loc = f"{f.module.relpath}:{n.lineno}"
            if isinstance(inc, ast.Constant) and inc.value == 1:
                kind, want_shifted = "fold-shift", True
            elif "len(" in unparse(inc) or "ndim" in unparse(inc) or ".dim()" in unparse(inc):
                kind, want_shifted = "normalise", False
            else:
                continue
            inst = f"axis-zero:{kind}:{xt[:24]}"
            taken_shifted = br0 is shifted[0][0]
            if taken_shifted == want_shifted:
                out.append(ok("R5h", f.qualname, inst, f"at {xt} == 0 the expression is `{unparse(br0)[:30]}`", loc))
            elif kind == "fold-shift":
                out.append(viol("R5h", f.qualname, inst, f"`{unparse(n)[:70]}` leaves axis 0 where it is: every non-negative axis of the un-folded shape, 0 included, lies one position further in the folded tensor -- axis 0 is then the fold dimension (the operation acts across folds)", loc))
            else:
                out.append(viol("R5h", f.qualname, inst, f"`{unparse(n)[:70]}` adds the rank to axis 0: a valid axis becomes out of range", loc))
    return out


# ------------------------------------------------------------------------------------------ R5i
def r5i(ctx: Ctx, modules: tuple[str, ...] = ("cirkit.symbolic", "cirkit.backend.torch")) -> list[Ob]:
    """R5i -- a normalised axis is range-checked at both ends.

    After ``a = a + len(shape) if a < 0 else a`` (either spelling of the idiom) the value can still be
    negative (``a = -3`` on a rank-2 shape gives ``-1``), and a negative index into ``shape`` silently
    selects from the end.  A refusing / returning guard that compares the normalised axis with
    ``len(..)`` at the upper end only (``if a >= len(shape): ..``) admits those values: the operation is
    then applied along another axis than the declared one (a Dirichlet initialiser along the fold
    axis).  The check has to bound both ends (``0 <= a < len(..)``), as the torch-side constructors do."""
    out: list[Ob] = []
    for f in ctx.repo.iter_functions():
        if not f.module.name.startswith(modules):
            continue
        normalised: dict[str, int] = {}
        for n in walk_no_nested(f.node):
            if isinstance(n, ast.Assign) and len(n.targets) == 1 and isinstance(n.targets[0], ast.Name) and isinstance(n.value, ast.IfExp):
                v = n.value
                t = n.targets[0].id
                txt = unparse(v)
                if "len(" in txt and isinstance(v.test, ast.Compare) and isinstance(v.test.comparators[0], ast.Constant) and v.test.comparators[0].value == 0:
                    normalised[t] = n.lineno
        if not normalised:
            continue
        for n in walk_no_nested(f.node):
            tests: list[ast.AST] = []
            if isinstance(n, ast.If):
                tests.append(n.test)
            elif isinstance(n, ast.Assert):
                tests.append(n.test)
            for t in tests:
                for c in ast.walk(t):
                    if not isinstance(c, ast.Compare):
                        continue
                    items = [c.left, *c.comparators]
                    # the axis itself is compared (a bare name), not something indexed by it (`shape[a] != len(..)`)
                    names = {it.id for it in items if isinstance(it, ast.Name)} & set(normalised)
                    if not names or not any(isinstance(x, ast.Call) and isinstance(x.func, ast.Name) and x.func.id == "len" for it in items for x in ast.walk(it)):
                        continue
                    a = sorted(names)[0]
                    loc = f"{f.module.relpath}:{c.lineno}"
                    lower = any(
                        isinstance(k, ast.Compare) and any(isinstance(x, ast.Constant) and x.value == 0 for x in [k.left, *k.comparators]) and any(isinstance(x, ast.Name) and x.id == a for it in [k.left, *k.comparators] for x in ast.walk(it))
                        for k in ast.walk(t)
                    )
                    inst = f"both-ends:{a}"
                    if lower:
                        out.append(ok("R5i", f.qualname, inst, f"`{unparse(t)[:50]}` bounds the normalised axis at both ends", loc))
                    else:
                        out.append(viol("R5i", f.qualname, inst, f"`{unparse(t)[:50]}` bounds the normalised axis `{a}` only from above: an axis below -rank stays negative after `{a} + len(..)` and passes, and indexing with it selects from the end -- the operation then runs along another axis than the declared one", loc))
    if not out:
        out.append(unres("R5i", modules[0], "both-ends", "no range check of a normalised axis against len(..) (another formulation): no verdict", ""))
    return out
