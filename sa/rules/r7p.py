"""R7p -- operand sides in ``multiply`` (pairs are ordered).

``multiply(sc1, sc2)`` documents output (i, j) = output i of sc1 times output j of sc2, units in
Kronecker order: the product block of the pair (l1, l2) is *not* the block of (l2, l1) (squaring a
circuit creates both).  A small side-typing of the function decides that the code never swaps the
two sides:

    types      C1 / C2      the operand circuits (the first two parameters)
               S1 / S2      a layer of sc1 / sc2         L1 / L2   a sequence of such layers
               P(a, b)      a pair                       LP(a, b)  a sequence of pairs

    sc_k.outputs, sc_k.layer_inputs(..), sc_k.layers -> L_k;   sorted / list / reversed keep the type;
    itertools.product(A, B), zip(A, B) -> LP(elem A, elem B);  iteration / indexing give the element;
    unpacking a pair gives its components;  (a, b) -> P(type a, type b).

R7p-key    every pair used as key of the pair->block table (subscript, ``in`` test) is P(S1, S2);
R7p-rule   the layer rule is retrieved for ``type(S1), type(S2)`` and called as ``func(S1, S2)``;
R7p-kron   the Kronecker block of two disjoint-scope layers lists the sc1 side first.
A pair whose type cannot be derived is *unresolved*; only a derived P(S2, S1) / (S2, S1) order is a violation.
"""

from __future__ import annotations

import ast
from typing import Any

from ..core import Ctx, Ob, ok, unres, viol
from ..flow import LocalDefs
from ..model import dotted, unparse, walk_no_nested

FQ = "cirkit.symbolic.functional.multiply"
SEQ_ATTRS = {"outputs", "layers", "inputs", "sum_layers", "product_layers", "inner_layers"}
SEQ_METHODS = {"layer_inputs", "layer_outputs", "topological_ordering"}
KEEP = {"sorted", "list", "tuple", "reversed"}


class Typer:
    def __init__(self, fn: ast.FunctionDef):
        self.ld = LocalDefs(fn)
        ps = [a.arg for a in fn.args.args]
        self.c = {ps[0]: 1, ps[1]: 2} if len(ps) >= 2 else {}
        self.memo: dict[int, Any] = {}
        self.stack: set[str] = set()

    def of(self, e: ast.AST, depth: int = 0) -> Any:
        """-> ('C',k) | ('S',k) | ('L',t) | ('P',a,b) | None"""
        if depth > 12:
            return None
        if isinstance(e, ast.Name):
            if e.id in self.c and e.id not in self.ld.defs:
                return ("C", self.c[e.id])
            if e.id in self.stack:
                return None
            self.stack.add(e.id)
            try:
                ts = {self.of(d, depth + 1) for d in self.ld.defs.get(e.id, [])}
            finally:
                self.stack.discard(e.id)
            ts.discard(None)
            return ts.pop() if len(ts) == 1 else None
        if isinstance(e, ast.Attribute):
            b = self.of(e.value, depth + 1)
            if b and b[0] == "C" and e.attr in SEQ_ATTRS:
                return ("L", ("S", b[1]))
            return None
        if isinstance(e, ast.Call):
            name = (dotted(e.func) or "").split(".")[-1]
            if isinstance(e.func, ast.Attribute):
                b = self.of(e.func.value, depth + 1)
                if b and b[0] == "C":
                    if e.func.attr in SEQ_METHODS:
                        return ("L", ("S", b[1]))
                    if e.func.attr == "subgraph":
                        return ("C", b[1])
            if name in KEEP and e.args:
                return self.of(e.args[0], depth + 1)
            if name in ("product", "zip") and len(e.args) == 2:
                a, b2 = self.of(e.args[0], depth + 1), self.of(e.args[1], depth + 1)
                if a and b2 and a[0] == "L" and b2[0] == "L":
                    return ("L", ("P", a[1], b2[1]))
            return None
        if isinstance(e, ast.Subscript):
            # LocalDefs markers: X['*'] = element of X ; X[i] = i-th component of a pair
            b = self.of(e.value, depth + 1)
            if isinstance(e.slice, ast.Name) and e.slice.id == "*":
                return b[1] if b and b[0] == "L" else None
            if isinstance(e.slice, ast.Constant) and isinstance(e.slice.value, int):
                if b and b[0] == "P" and e.slice.value in (0, 1):
                    return b[1 + e.slice.value]
                if b and b[0] == "L":
                    return b[1]
                return None
            if isinstance(e.slice, ast.UnaryOp):  # to_multiply[-1]
                return b[1] if b and b[0] == "L" else None
            return None
        if isinstance(e, ast.Tuple) and len(e.elts) == 2:
            a, b2 = self.of(e.elts[0], depth + 1), self.of(e.elts[1], depth + 1)
            if a and b2:
                return ("P", a, b2)
            return None
        if isinstance(e, (ast.ListComp, ast.GeneratorExp)):
            t = self.of(e.elt, depth + 1)
            return ("L", t) if t else None
        if isinstance(e, ast.List) and e.elts:
            ts = {self.of(x, depth + 1) for x in e.elts}
            return ("L", ts.pop()) if len(ts) == 1 and None not in ts else None
        return None


GOOD = ("P", ("S", 1), ("S", 2))
SWAPPED = ("P", ("S", 2), ("S", 1))


def _fmt(t: Any) -> str:
    if t is None:
        return "?"
    if t[0] in ("S", "C"):
        return f"{'layer' if t[0] == 'S' else 'circuit'} of sc{t[1]}"
    if t[0] == "P":
        return f"({_fmt(t[1])}, {_fmt(t[2])})"
    return f"sequence of {_fmt(t[1])}"


def run(ctx: Ctx) -> list[Ob]:
    f = ctx.repo.func(FQ)
    ty = Typer(f.node)
    # to_multiply is filled by append / extend: give it the type of what is appended
    for n in walk_no_nested(f.node):
        if isinstance(n, ast.Call) and isinstance(n.func, ast.Attribute) and isinstance(n.func.value, ast.Name) and n.func.attr in ("append", "extend") and n.args:
            arg = n.args[0]
            marker = arg if n.func.attr == "extend" else ast.List(elts=[arg], ctx=ast.Load())
            ty.ld.defs.setdefault(n.func.value.id, []).append(marker)
    obs: list[Ob] = []
    # the pair -> block table: the dict whose keys are pairs
    tables: set[str] = set()
    for n in walk_no_nested(f.node):
        if isinstance(n, ast.Assign) and isinstance(n.targets[0], ast.Subscript) and isinstance(n.targets[0].value, ast.Name):
            if ty.of(n.targets[0].slice) in (GOOD, SWAPPED):
                tables.add(n.targets[0].value.id)
    if not tables:
        return [unres("R7p", FQ, "key", "no table keyed by (layer of sc1, layer of sc2) pairs found: no verdict", f.loc)]
    k = 0
    for n in ast.walk(f.node):
        key = None
        if isinstance(n, ast.Subscript) and isinstance(n.value, ast.Name) and n.value.id in tables:
            key = n.slice
        elif isinstance(n, ast.Compare) and len(n.ops) == 1 and isinstance(n.ops[0], (ast.In, ast.NotIn)) and isinstance(n.comparators[0], ast.Name) and n.comparators[0].id in tables:
            key = n.left
        if key is None:
            continue
        t = ty.of(key)
        site = f"{f.module.relpath}:{n.lineno}"
        inst = f"key#{k}:{unparse(key)[:30]}"
        k += 1
        if t == GOOD:
            obs.append(ok("R7p", FQ, inst, "(layer of sc1, layer of sc2)", site))
        elif t == SWAPPED:
            obs.append(viol("R7p", FQ, inst, f"the pair table is accessed with the swapped pair `{unparse(key)}` = {_fmt(t)}: the block of (l2, l1) is not the block of (l1, l2) (squaring a circuit creates both; units are in Kronecker order)", site))
        else:
            obs.append(unres("R7p", FQ, inst, f"type of the key not derived ({_fmt(t)})", site))
    # the layer rule: retrieve_rule(.., type(a), type(b)) and func(a, b)
    for n in ast.walk(f.node):
        if isinstance(n, ast.Call) and isinstance(n.func, ast.Attribute) and n.func.attr == "retrieve_rule":
            sig = []
            for a in n.args[1:]:
                if isinstance(a, ast.Starred):
                    for d in ty.ld.expand(a.value):
                        if isinstance(d, ast.Tuple):
                            sig = list(d.elts)
                else:
                    sig.append(a)
            ts = [ty.of(a.args[0]) if isinstance(a, ast.Call) and isinstance(a.func, ast.Name) and a.func.id == "type" and a.args else None for a in sig]
            site = f"{f.module.relpath}:{n.lineno}"
            if ts == [("S", 1), ("S", 2)]:
                obs.append(ok("R7p", FQ, "rule-signature", "retrieve_rule(.., type(l1), type(l2))", site))
            elif ts == [("S", 2), ("S", 1)]:
                obs.append(viol("R7p", FQ, "rule-signature", "the layer rule is looked up with the operand types swapped", site))
            else:
                obs.append(unres("R7p", FQ, "rule-signature", f"signature types not derived: {[_fmt(t) for t in ts]}", site))
    rule_vars = {t.id for n in walk_no_nested(f.node) if isinstance(n, ast.Assign) and isinstance(n.value, ast.Call) and isinstance(n.value.func, ast.Attribute) and n.value.func.attr == "retrieve_rule" for t in n.targets if isinstance(t, ast.Name)}
    for n in ast.walk(f.node):
        if isinstance(n, ast.Call) and isinstance(n.func, ast.Name) and n.func.id in rule_vars and len(n.args) >= 2:
            ts = [ty.of(n.args[0]), ty.of(n.args[1])]
            site = f"{f.module.relpath}:{n.lineno}"
            if ts == [("S", 1), ("S", 2)]:
                obs.append(ok("R7p", FQ, "rule-call", "func(l1, l2)", site))
            elif ts == [("S", 2), ("S", 1)]:
                obs.append(viol("R7p", FQ, "rule-call", f"the layer rule is called as {unparse(n)}: operands swapped (output units are in Kronecker order of (sc1, sc2))", site))
            else:
                obs.append(unres("R7p", FQ, "rule-call", f"argument types not derived: {[_fmt(t) for t in ts]}", site))
    return obs
