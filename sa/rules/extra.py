"""Structural clauses about single functions (operator drivers, small torch classes)."""

from __future__ import annotations

import ast

from ..boolexpr import ALWAYS, NEVER, fires
from ..cfg import build_cfg, stmt_calls
from ..core import Ctx, Ob, note, ok, unres, viol
from ..flow import LocalDefs
from ..model import AnalysisError, FuncInfo, dotted, is_self_attr, unparse, walk_no_nested
from . import r8

FUNC = "cirkit.symbolic.functional."


# ----------------------------------------------------------------------------------- helpers
def order_preserving_over(e: ast.AST, source: str, ld: LocalDefs | None = None) -> bool:
    """*e* builds a sequence whose order is the order of ``source`` (text): a comprehension /
    generator with a single ``for`` over it and no filter, ``list(..)``/``tuple(..)`` of such."""
    cands = ld.expand(e) if ld is not None else [e]
    for x in cands:
        if isinstance(x, ast.Call) and dotted(x.func) in ("list", "tuple") and x.args:
            if order_preserving_over(x.args[0], source, None):
                return True
        if isinstance(x, (ast.ListComp, ast.GeneratorExp)):
            gens = x.generators
            if len(gens) == 1 and not gens[0].ifs and unparse(gens[0].iter) == source:
                return True
        if unparse(x) == source:
            return True
    return False


def find_loop(f: FuncInfo, iter_text: str) -> ast.For | None:
    for n in walk_no_nested(f.node):
        if isinstance(n, ast.For) and iter_text in unparse(n.iter):
            return n
    return None


def _assign_to(stmts, target_text: str) -> list[ast.Assign]:
    res = []
    for s in stmts:
        for n in ast.walk(s):
            if isinstance(n, ast.Assign) and any(unparse(t) == target_text for t in n.targets):
                res.append(n)
    return res


def _returns_from_operation(ctx: Ctx, f: FuncInfo, operator: str, operands: str, out: list[Ob], metadata_key: str | None = None, metadata_src: str | None = None) -> None:
    rets = [r for r in walk_no_nested(f.node) if isinstance(r, ast.Return)]
    good = bool(rets)
    for r in rets:
        v = r.value
        if not (isinstance(v, ast.Call) and (dotted(v.func) or "").endswith("Circuit.from_operation")):
            good = False
            continue
        kw = {k.arg: k.value for k in v.keywords if k.arg}
        op = kw.get("operation")
        if not (isinstance(op, ast.Call) and (dotted(op.func) or "").endswith("CircuitOperation")):
            good = False
            continue
        okw = {k.arg: k.value for k in op.keywords if k.arg}
        if (dotted(okw.get("operator")) or "").split(".")[-1] != operator:
            out.append(viol("X1", f.qualname, "operation.operator", f"result is labelled {unparse(okw.get('operator'))}, not CircuitOperator.{operator}: pipeline compilation and derived-circuit bookkeeping use this label", f.loc))
        else:
            out.append(ok("X1", f.qualname, "operation.operator", f"CircuitOperator.{operator}", f.loc))
        if unparse(okw.get("operands")) != operands:
            out.append(viol("X1", f.qualname, "operation.operands", f"operands recorded as {unparse(okw.get('operands'))} instead of {operands}: operands would not be compiled before the derived circuit", f.loc))
        else:
            out.append(ok("X1", f.qualname, "operation.operands", operands, f.loc))
        if metadata_key is not None:
            md = okw.get("metadata")
            found = isinstance(md, ast.Dict) and any(isinstance(k, ast.Constant) and k.value == metadata_key and unparse(v2) == metadata_src for k, v2 in zip(md.keys, md.values))
            if found:
                out.append(ok("X1", f.qualname, f"metadata:{metadata_key}", f"{metadata_key}={metadata_src}", f.loc))
            else:
                out.append(viol("X1", f.qualname, f"metadata:{metadata_key}", f"operation metadata does not record {metadata_key}={metadata_src}", f.loc))
    if good:
        out.append(ok("X1", f.qualname, "returns-from_operation", "every return goes through Circuit.from_operation (re-validated result)", f.loc))
    else:
        out.append(viol("X1", f.qualname, "returns-from_operation", "a return path does not build the result through Circuit.from_operation: the result is not re-validated", f.loc))


def _outputs_in_order(f: FuncInfo, out: list[Ob], var: str = "output_blocks", source: str = "sc.outputs") -> None:
    ld = LocalDefs(f.node)
    defs = ld.defs.get(var, [])
    if defs and all(order_preserving_over(d, source) for d in defs):
        out.append(ok("R7e", f.qualname, f"{var}<-{source}", "outputs collected by an order-preserving comprehension", f.loc))
    elif not defs:
        out.append(unres("R7e", f.qualname, f"{var}<-{source}", "output list not found", f.loc))
    else:
        out.append(viol("R7e", f.qualname, f"{var}<-{source}", f"the output list is built as {[unparse(d) for d in defs]}: the declared output order of the operand is not preserved", f.loc))


def _inputs_rewired_in_order(f: FuncInfo, loop: ast.For, out: list[Ob], label: str) -> None:
    """in_blocks[<block>] = [layers_to_block[x] for x in sc.layer_inputs(sl)]"""
    hits = []
    for n in ast.walk(loop):
        if isinstance(n, ast.Assign) and isinstance(n.targets[0], ast.Subscript) and unparse(n.targets[0].value) == "in_blocks":
            hits.append(n)
    if not hits:
        out.append(viol("R7e", f.qualname, f"{label}:inputs-rewired", "copied layers are no longer connected to their inputs", f.loc))
        return
    for k, n in enumerate(hits):
        v = n.value
        site = f"{f.module.relpath}:{n.lineno}"
        if isinstance(v, ast.ListComp) and len(v.generators) == 1 and not v.generators[0].ifs and "layer_inputs(sl)" in unparse(v.generators[0].iter) and "layers_to_block" in unparse(v.elt):
            out.append(ok("R7e", f.qualname, f"{label}:inputs-rewired#{k}", "inputs re-wired in the operand's input order", site))
        else:
            out.append(viol("R7e", f.qualname, f"{label}:inputs-rewired#{k}", f"inputs re-wired as {unparse(v)}: not an order-preserving map over sc.layer_inputs(sl)", site))


# ------------------------------------------------------------------------------- integrate
def integrate_structure(ctx: Ctx) -> list[Ob]:
    out: list[Ob] = []
    f = ctx.repo.func(FUNC + "integrate")
    loop = find_loop(f, "topological_ordering")
    if loop is None:
        raise AnalysisError("vanished anchor: topological loop of functional.integrate")
    conds = [s for s in loop.body if isinstance(s, ast.If)]
    sel = next((s for s in conds if "InputLayer" in unparse(s.test)), None)
    if sel is None:
        out.append(viol("X1", f.qualname, "replacement-condition", "no branch selects the input layers to integrate", f.loc))
    else:
        site = f"{f.module.relpath}:{sel.lineno}"
        a_inst, a_ovl = "isinstance(sl, InputLayer)", "sl.scope & scope"
        v1, fr1 = fires(sel.test, {a_inst: True, a_ovl: True})
        v2, _ = fires(sel.test, {a_inst: False, a_ovl: True})
        v3, _ = fires(sel.test, {a_inst: True, a_ovl: False})
        if (v1, v2, v3) == (ALWAYS, NEVER, NEVER):
            out.append(ok("X1", f.qualname, "replacement-condition", "a layer is replaced by its integral iff it is an input layer whose scope meets the integration scope", site))
        elif fr1 and not (set(fr1) <= {a_inst, a_ovl}):
            out.append(unres("X1", f.qualname, "replacement-condition", f"condition `{unparse(sel.test)}` not in the recognised form", site))
        else:
            out.append(viol("X1", f.qualname, "replacement-condition", f"`{unparse(sel.test)}` is not equivalent to (input layer AND scope overlaps the integration scope): some input layers are wrongly integrated / wrongly kept", site))
        # true branch: block produced by the rule is mapped for sl, and the branch ends the iteration
        maps = _assign_to(sel.body, "layers_to_block[sl]")
        ends = isinstance(sel.body[-1], ast.Continue)
        if maps and ends:
            out.append(ok("X1", f.qualname, "replacement-mapped", "integrated block registered for the layer and the copy branch skipped", site))
        else:
            out.append(viol("X1", f.qualname, "replacement-mapped", "the integrated block is not registered for the layer (or the layer is also copied)", site))
    _inputs_rewired_in_order(f, loop, out, "integrate")
    _outputs_in_order(f, out)
    _returns_from_operation(ctx, f, "INTEGRATION", "(sc,)", out, "scope", "scope")
    return out


def constant_value_layer(ctx: Ctx) -> list[Ob]:
    out: list[Ob] = []
    c = ctx.repo.cls("cirkit.backend.torch.layers.input.TorchConstantValueLayer")
    init = c.methods.get("__init__")
    fwd = c.methods.get("forward")
    if init is None or fwd is None:
        raise AnalysisError("vanished anchor: TorchConstantValueLayer.__init__/forward")
    src_attr = None
    for n in walk_no_nested(init.node):
        if isinstance(n, ast.Assign) and isinstance(n.value, ast.IfExp):
            a = is_self_attr(n.targets[0])
            v = n.value
            if a and unparse(v.test) == "log_space":
                src_attr = a
                b, o = (dotted(v.body) or "").split(".")[-1], (dotted(v.orelse) or "").split(".")[-1]
                if (b, o) == ("LSESumSemiring", "SumProductSemiring"):
                    out.append(ok("X2", c.qualname, "source-semiring", "log_space -> LSESumSemiring, else SumProductSemiring", c.loc))
                else:
                    out.append(viol("X2", c.qualname, "source-semiring", f"log_space selects {b} / {o}: constants given in log space are interpreted in the wrong space", c.loc))
    if src_attr is None:
        out.append(unres("X2", c.qualname, "source-semiring", "selection of the source semiring not found in __init__", c.loc))
        return out
    rets = [r for r in walk_no_nested(fwd.node) if isinstance(r, ast.Return) and r.value is not None]
    good = all(
        isinstance(r.value, ast.Call) and unparse(r.value.func) == "self.semiring.map_from" and len(r.value.args) == 2 and is_self_attr(r.value.args[1]) == src_attr
        for r in rets
    )
    if rets and good:
        out.append(ok("X2", c.qualname, "map_from", f"forward maps the value from self.{src_attr} into the evaluation semiring", fwd.loc))
    else:
        out.append(viol("X2", c.qualname, "map_from", "forward does not map the value from the semiring selected by log_space", fwd.loc))
    return out


# ------------------------------------------------------------------------------- conjugate
def conjugate_dispatch(ctx: Ctx) -> list[Ob]:
    out: list[Ob] = []
    f = ctx.repo.func(FUNC + "conjugate")
    loop = find_loop(f, "topological_ordering")
    if loop is None:
        raise AnalysisError("vanished anchor: topological loop of functional.conjugate")
    ld = LocalDefs(f.node)
    # the non-product path applies the registry rule for CONJUGATION to sl
    rule_calls = []
    for n in ast.walk(loop):
        if isinstance(n, ast.Call) and isinstance(n.func, ast.Name):
            defs = ld.defs.get(n.func.id, [])
            if any(isinstance(d, ast.Call) and (dotted(d.func) or "").endswith("retrieve_rule") for d in defs):
                rule_calls.append((n, defs))
    if not rule_calls:
        out.append(viol("X1", f.qualname, "dispatch", "non-product layers are not dispatched to a conjugation rule", f.loc))
    for n, defs in rule_calls:
        d = next(d for d in defs if isinstance(d, ast.Call))
        site = f"{f.module.relpath}:{n.lineno}"
        if "CONJUGATION" in unparse(d.args[0]) and "type(sl)" in unparse(d):
            out.append(ok("X1", f.qualname, "dispatch", "rule retrieved for (CONJUGATION, type(sl))", site))
        else:
            out.append(viol("X1", f.qualname, "dispatch", f"rule retrieved with {unparse(d)}: not the conjugation rule of the layer's type", site))
        if [unparse(a) for a in n.args] == ["sl"]:
            out.append(ok("X1", f.qualname, "rule-applied-to-layer", "func(sl)", site))
        else:
            out.append(viol("X1", f.qualname, "rule-applied-to-layer", f"rule applied to {[unparse(a) for a in n.args]}", site))
    # every layer kind is covered: product layers pass through, everything else goes to the rule
    branches = [s for s in loop.body if isinstance(s, ast.If) and "ProductLayer" in unparse(s.test)]
    if branches and isinstance(branches[0].body[-1], ast.Continue):
        out.append(ok("X1", f.qualname, "product-pass-through", "product layers are passed through and skip the rule", f.loc))
    else:
        out.append(viol("X1", f.qualname, "product-pass-through", "product layers are no longer passed through separately", f.loc))
    _inputs_rewired_in_order(f, loop, out, "conjugate")
    _outputs_in_order(f, out)
    _returns_from_operation(ctx, f, "CONJUGATION", "(sc,)", out)
    return out


# ---------------------------------------------------------------------------- C09 extras
def from_operation_revalidates(ctx: Ctx) -> list[Ob]:
    out: list[Ob] = []
    f = ctx.repo.func("cirkit.symbolic.circuit.Circuit.from_operation")
    rets = [r for r in walk_no_nested(f.node) if isinstance(r, ast.Return)]
    good = rets and all(isinstance(r.value, ast.Call) and unparse(r.value.func) == "cls" and any(k.arg == "operation" and unparse(k.value) == "operation" for k in r.value.keywords) for r in rets)
    if good:
        out.append(ok("X1", f.qualname, "ends-in-cls", "builds the result with cls(.., operation=operation): Circuit.__init__ re-validates arity / units / scopes", f.loc))
    else:
        out.append(viol("X1", f.qualname, "ends-in-cls", "from_operation does not end in cls(.., operation=operation): operator results escape re-validation or lose their operation record", f.loc))
    for op in ("concatenate", "evidence", "integrate", "multiply", "differentiate", "conjugate"):
        g = ctx.repo.func(FUNC + op)
        rs = [r for r in walk_no_nested(g.node) if isinstance(r, ast.Return)]
        if rs and all(isinstance(r.value, ast.Call) and (dotted(r.value.func) or "").endswith("Circuit.from_operation") for r in rs):
            out.append(ok("X1", g.qualname, "returns-from_operation", "result built through Circuit.from_operation", g.loc))
        else:
            out.append(viol("X1", g.qualname, "returns-from_operation", "a return path bypasses Circuit.from_operation", g.loc))
    # the validation loop of Circuit.__init__ is unconditional
    init = ctx.repo.func("cirkit.symbolic.circuit.Circuit.__init__")
    loop = find_loop(init, "topological_ordering")
    top_level = loop is not None and any(s is loop for s in init.node.body)
    if top_level:
        out.append(ok("X1", init.qualname, "validation-unconditional", "the validation loop is a top-level statement of __init__ (not under a flag)", init.loc))
    else:
        out.append(viol("X1", init.qualname, "validation-unconditional", "the per-layer validation loop is missing or conditional", init.loc))
    return out


def multiply_refusals(ctx: Ctx) -> list[Ob]:
    q = FUNC + "multiply"
    return [
        r8.dominates_call(
            ctx,
            q,
            {"sc1.scope != sc2.scope": False, "are_compatible(sc1, sc2)": True, "pair in layers_to_block": False,
             "sc1.layer_scope(l1) & sc2.layer_scope(l2)": False, "l1.num_output_units != l2.num_output_units": True},
            "KroneckerLayer",
            "disjoint-different-size",
            "layers over disjoint scopes with different sizes must be refused, not multiplied",
        ),
        r8.dominates_call(
            ctx,
            q,
            {"sc1.scope != sc2.scope": False, "are_compatible(sc1, sc2)": True, "pair in layers_to_block": False,
             "sc1.layer_scope(l1) & sc2.layer_scope(l2)": True, "sc1.layer_scope(l1) != sc2.layer_scope(l2)": True},
            "func",
            "overlap-different-scope",
            "a pair of layers whose scopes overlap without being equal (outputs of multi-output operands over different scopes) has no product rule: "
            "multiplying their inputs pairwise yields a product layer with overlapping inputs, i.e. a result that is not decomposable -- the pair must be refused",
        ),
    ]


# ------------------------------------------------------------------------------- differentiate outputs
def differentiate_outputs(ctx: Ctx) -> list[Ob]:
    """R7e (differentiate) -- the derived circuit lists, for each output of the operand in declared
    order, that output's differentials followed by its copy: the outputs argument of
    ``Circuit.from_operation`` is one flattening of ``layers_to_blocks[sl] for sl in sc.outputs`` --
    the whole per-layer list (no slice), one traversal of ``sc.outputs``."""
    from ..canon import FlowCanon

    fq = FUNC + "differentiate"
    f = ctx.repo.func(fq)
    g = ctx.memo("cfg:" + fq, lambda: build_cfg(f.node))
    fc = ctx.memo("flowcanon:" + fq, lambda: FlowCanon(g))
    out: list[Ob] = []
    for n, st in g.stmts.items():
        if not isinstance(st, ast.Return) or not isinstance(st.value, ast.Call):
            continue
        c = st.value
        if not (dotted(c.func) or "").endswith("from_operation") or len(c.args) < 3:
            continue
        e = fc.expr(c.args[2], n)
        txt = unparse(e)
        site = f"{f.module.relpath}:{c.lineno}"
        gens = [x for x in ast.walk(e) if isinstance(x, (ast.GeneratorExp, ast.ListComp))]
        over_outputs = [x for x in gens if any(unparse(gn.iter).endswith(".outputs") for gn in x.generators)]
        sliced = any(isinstance(x, ast.Subscript) and isinstance(x.slice, ast.Slice) for x in ast.walk(e)) or any(isinstance(x, ast.Subscript) and isinstance(x.slice, (ast.Constant, ast.UnaryOp)) and "[ELEM(" in unparse(x.value) for x in ast.walk(e))
        if len(over_outputs) == 1 and not sliced and "PHI(" not in txt and ".extend(" not in txt:
            out.append(ok("R7e", fq, "outputs<-sc.outputs", "one traversal of sc.outputs, each output contributing its whole block list (differentials, then the copy)", site))
        elif not over_outputs:
            out.append(unres("R7e", fq, "outputs<-sc.outputs", f"the outputs argument `{txt[:60]}` does not iterate sc.outputs in a form the rule knows", site))
        else:
            out.append(viol("R7e", fq, "outputs<-sc.outputs", f"the outputs of the derived circuit are assembled as `{unparse(c.args[2])[:50]}` = {txt[:110]}: not one pass over sc.outputs with each output's whole list -- for a multi-output operand the differentials and the copies of different outputs are interleaved differently from [d o1.., o1, d o2.., o2]", site))
    if not out:
        out.append(unres("R7e", fq, "outputs<-sc.outputs", "no return through Circuit.from_operation found", f.loc))
    return out


# ------------------------------------------------------------------------------- multiply outputs
def multiply_outputs(ctx: Ctx) -> list[Ob]:
    """R7e (multiply) -- output (i, j) of the product is output i of the first operand times output j
    of the second: the outputs argument of ``Circuit.from_operation`` enumerates the pairs with the
    outputs of ``sc1`` as the *outer* and those of ``sc2`` as the *inner* index
    (``itertools.product(sc1.outputs, sc2.outputs)`` or two ``for`` clauses in that order)."""
    from ..canon import FlowCanon

    fq = FUNC + "multiply"
    f = ctx.repo.func(fq)
    g = ctx.memo("cfg:" + fq, lambda: build_cfg(f.node))
    fc = ctx.memo("flowcanon:" + fq, lambda: FlowCanon(g))
    p1, p2 = [p.name for p in f.params][:2]
    out: list[Ob] = []
    for n, st in g.stmts.items():
        if not isinstance(st, ast.Return) or not isinstance(st.value, ast.Call):
            continue
        c = st.value
        if not (dotted(c.func) or "").endswith("from_operation") or len(c.args) < 3:
            continue
        e = fc.expr(c.args[2], n)
        site = f"{f.module.relpath}:{c.lineno}"
        verdict = None
        for x in ast.walk(e):
            if isinstance(x, (ast.ListComp, ast.GeneratorExp)):
                its = [unparse(gn.iter) for gn in x.generators]
                outs = [t for t in its if t.endswith(".outputs") or ".outputs," in t or ".outputs)" in t]
                if len(x.generators) == 1 and "product(" in its[0]:
                    call = x.generators[0].iter
                    args = [unparse(a) for a in call.args] if isinstance(call, ast.Call) else []
                    if args == [f"{p1}.outputs", f"{p2}.outputs"]:
                        verdict = verdict or "ok"
                    elif args == [f"{p2}.outputs", f"{p1}.outputs"]:
                        verdict = "swapped"
                elif len(x.generators) == 2 and len(outs) == 2:
                    if its == [f"{p1}.outputs", f"{p2}.outputs"]:
                        verdict = verdict or "ok"
                    elif its == [f"{p2}.outputs", f"{p1}.outputs"]:
                        verdict = "swapped"
        if verdict == "ok":
            out.append(ok("R7e", fq, "outputs<-sc1.outputs x sc2.outputs", f"pairs enumerated with {p1}.outputs outer, {p2}.outputs inner", site))
        elif verdict == "swapped":
            out.append(viol("R7e", fq, "outputs<-sc1.outputs x sc2.outputs", f"the output pairs are enumerated with {p2}.outputs as the outer index: output i*n2+j of the product holds the pair (j, i) -- same number of outputs, same shapes, other functions whenever both operands have several outputs", site))
        else:
            out.append(unres("R7e", fq, "outputs<-sc1.outputs x sc2.outputs", f"the outputs argument `{unparse(e)[:70]}` is not in a recognised form", site))
    if not out:
        out.append(unres("R7e", fq, "outputs<-sc1.outputs x sc2.outputs", "no return through Circuit.from_operation found", f.loc))
    return out
