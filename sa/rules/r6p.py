"""R6p -- a tensor owned by another compiled circuit enters a parameter graph only behind a pointer.

A derived circuit (integrate / multiply / differentiate / conjugate of an already compiled circuit)
shares the tensors of its operands.  On the torch side the *only* object that may stand for such a
foreign tensor inside the derived circuit's parameter graphs is a ``TorchPointerParameter``: it does
not register the tensor a second time (so ``state_dict()`` lists it once, under the owner), and --
the clause that matters for reload -- ``reset_parameters()`` of the derived circuit, which
``_compile_circuit`` calls on every newly compiled circuit, does not descend through it.  Were the
foreign ``TorchTensorParameter`` itself made a node of the new graph, compiling a derived circuit
*after* ``load_state_dict`` (or after any optimiser step) would re-initialise the owner's values.

Sources of foreign tensors in the backend (enumerated from the code, floor = 2):

    X.deref()                                  the target of a torch pointer / symbolic reference
    compiler.state.retrieve_compiled_parameter(..)[0]   the compiled tensor of a symbolic one

Permitted uses of a value that derives from a source (closed list):

    TorchPointerParameter(<value>, ..)         first positional argument (or ``parameter=``)
    <value>.attr / <value>.method(..)          reading an attribute (num_folds, shape, ..) or calling an
                                               accessor; ``reset_parameters`` and torch's in-place
                                               ``name_`` methods are *not* accessors
    retrieve_compiled_parameter(<value>)       looking the symbolic tensor up
    comparisons / isinstance / len / type      inspections
    unpacking ``a, b = <tuple source>``        (the second element, the fold index, is not tainted)

Anything else -- returned, yielded, stored in a container or attribute, passed to another callable --
is reported with the statement.
"""

from __future__ import annotations

import ast

from ..core import Ctx, Ob, ok, unres, viol
from ..model import FuncInfo, dotted, unparse, walk_no_nested

POINTER = "cirkit.backend.torch.parameters.nodes.TorchPointerParameter"
LOOKUP = "retrieve_compiled_parameter"
INSPECT = {"isinstance", "len", "type", "id"}


def _is_deref(e: ast.AST) -> bool:
    return isinstance(e, ast.Call) and isinstance(e.func, ast.Attribute) and e.func.attr == "deref" and not e.args and not e.keywords


def _is_lookup(e: ast.AST) -> bool:
    return isinstance(e, ast.Call) and isinstance(e.func, ast.Attribute) and e.func.attr == LOOKUP


def _parents(fn: ast.AST) -> dict[int, ast.AST]:
    par: dict[int, ast.AST] = {}
    for n in ast.walk(fn):
        for c in ast.iter_child_nodes(n):
            par[id(c)] = n
    return par


def r6p(ctx: Ctx, modules: tuple[str, ...] = ("cirkit.backend.torch",)) -> list[Ob]:
    obs: list[Ob] = []
    for f in ctx.repo.iter_functions():
        if not f.module.name.startswith(modules):
            continue
        if f.cls is not None and f.name == "deref":
            continue  # the accessor itself
        srcs = [n for n in walk_no_nested(f.node) if _is_deref(n) or _is_lookup(n)]
        if not srcs:
            continue
        obs.extend(_check_function(ctx, f, srcs))
    obs.extend(_pointer_is_passive(ctx))
    return obs


def _pointer_is_passive(ctx: Ctx) -> list[Ob]:
    """The pointer class itself never re-initialises / writes the tensor it points to."""
    obs: list[Ob] = []
    pc = ctx.repo.cls(POINTER)
    store = ctx.cf.init_param_storage(pc, "parameter")
    if not store:
        return [unres("R6p", pc.qualname, "pointer:passive", "the attribute holding the target tensor was not identified", pc.loc)]
    for c in [pc] + [x for x in ctx.repo.subclasses(pc) if x is not pc]:
        for m in c.methods.values():
            par = _parents(m.node)
            for n in walk_no_nested(m.node):
                if not (isinstance(n, ast.Attribute) and isinstance(n.value, ast.Name) and n.value.id == "self" and n.attr in store):
                    continue
                if isinstance(n.ctx, ast.Store):
                    continue
                p = par.get(id(n))
                gp = par.get(id(p)) if p is not None else None
                loc = f"{c.module.relpath}:{n.lineno}"
                if isinstance(p, ast.Attribute) and isinstance(gp, ast.Call) and gp.func is p and (
                    p.attr == "reset_parameters" or (p.attr.endswith("_") and not p.attr.startswith("_"))
                ):
                    obs.append(
                        viol(
                            "R6p",
                            m.qualname,
                            "pointer:passive",
                            f"{c.name}.{m.name} calls .{p.attr}(..) on the tensor it points to: a derived circuit's reset_parameters() "
                            "(run at the end of its compilation) then re-initialises its operand's values",
                            loc,
                        )
                    )
                else:
                    obs.append(ok("R6p", m.qualname, "pointer:passive", f"{m.name} only reads the target", loc, nontrivial=False))
    return obs


def _check_function(ctx: Ctx, f: FuncInfo, srcs: list[ast.AST]) -> list[Ob]:
    obs: list[Ob] = []
    par = _parents(f.node)
    tainted_names: set[str] = set()
    # fixpoint over plain local bindings:  x = <tainted expr>  /  x, i = lookup(..)
    assigns = [n for n in walk_no_nested(f.node) if isinstance(n, (ast.Assign, ast.AnnAssign, ast.NamedExpr))]

    def tainted(e: ast.AST) -> bool:
        if _is_deref(e):
            return True
        if isinstance(e, ast.Name):
            return e.id in tainted_names
        if isinstance(e, ast.Subscript) and _is_lookup(e.value):
            return isinstance(e.slice, ast.Constant) and e.slice.value == 0
        if isinstance(e, ast.IfExp):
            return tainted(e.body) or tainted(e.orelse)
        if isinstance(e, ast.NamedExpr):
            return tainted(e.value)
        return False

    changed = True
    while changed:
        changed = False
        for a in assigns:
            val = a.value
            tgts = a.targets if isinstance(a, ast.Assign) else [a.target]
            if val is None:
                continue
            for t in tgts:
                if isinstance(t, ast.Name) and tainted(val) and t.id not in tainted_names:
                    tainted_names.add(t.id)
                    changed = True
                if isinstance(t, (ast.Tuple, ast.List)) and _is_lookup(val) and t.elts and isinstance(t.elts[0], ast.Name):
                    if t.elts[0].id not in tainted_names:
                        tainted_names.add(t.elts[0].id)
                        changed = True
    # flow-sensitive refinement: a load of a tainted *name* counts only if a tainted definition reaches it
    from ..canon import FlowCanon
    from ..cfg import build_cfg

    try:
        g = build_cfg(f.node)
        fc = FlowCanon(g)
        node_of: dict[int, int] = {}
        for nid, st in g.stmts.items():
            hdr = [st.test] if isinstance(st, (ast.If, ast.While)) else [st.iter] if isinstance(st, ast.For) else [i.context_expr for i in st.items] if isinstance(st, ast.With) else [] if isinstance(st, (ast.Try, ast.FunctionDef, ast.ClassDef)) else [st]
            for h in hdr:
                for x in ast.walk(h):
                    node_of[id(x)] = nid
        tainted_defs = set()
        ch = True
        while ch:
            ch = False
            for d in fc.defs:
                if d.uid in tainted_defs or d.expr is None:
                    continue
                e = d.expr
                t = _is_deref(e) or (isinstance(e, ast.Subscript) and _is_lookup(e.value) and isinstance(e.slice, ast.Constant) and e.slice.value == 0)
                if not t and isinstance(e, ast.Name):
                    t = any(u in tainted_defs for u in fc.IN[d.node].get(e.id, ()))
                if t:
                    tainted_defs.add(d.uid)
                    ch = True

        def reaches(n: ast.Name) -> bool:
            nid = node_of.get(id(n))
            if nid is None:
                return True
            return any(u in tainted_defs for u in fc.IN[nid].get(n.id, ()))
    except RecursionError:
        def reaches(n: ast.Name) -> bool:  # type: ignore[misc]
            return True

    # every occurrence of a tainted value
    occs: list[ast.AST] = []
    for n in walk_no_nested(f.node):
        if _is_deref(n):
            occs.append(n)
        elif isinstance(n, ast.Name) and isinstance(n.ctx, ast.Load) and n.id in tainted_names and reaches(n):
            occs.append(n)
        elif isinstance(n, ast.Subscript) and tainted(n):
            occs.append(n)
        elif _is_lookup(n):
            p = par.get(id(n))
            unpack = isinstance(p, ast.Assign) and p.value is n and all(isinstance(t, (ast.Tuple, ast.List)) for t in p.targets)
            sub = isinstance(p, ast.Subscript) and p.value is n
            if not (unpack or sub):
                occs.append(n)  # the whole (tensor, fold_idx) pair used as a value
    n_ok = 0
    for o in occs:
        p = par.get(id(o))
        loc = f"{f.module.relpath}:{getattr(o, 'lineno', f.node.lineno)}"
        verdict = None
        if isinstance(p, ast.Attribute) and p.value is o:
            # reading an attribute; but calling a *method* on it is another callable receiving it
            gp = par.get(id(p))
            if isinstance(gp, ast.Call) and gp.func is p and (p.attr == "reset_parameters" or (p.attr.endswith("_") and not p.attr.startswith("_"))):
                verdict = f"modified in place by .{p.attr}(..)"
            else:
                verdict = None
        elif isinstance(p, (ast.Assign, ast.AnnAssign, ast.NamedExpr)) and getattr(p, "value", None) is o:
            tgts = p.targets if isinstance(p, ast.Assign) else [p.target]
            bad = [t for t in tgts if not isinstance(t, (ast.Name, ast.Tuple, ast.List))]
            verdict = f"stored in {unparse(bad[0])}" if bad else None
        elif isinstance(p, ast.Call):
            callee = dotted(p.func) or ""
            if callee.split(".")[-1] == LOOKUP or callee in INSPECT:
                verdict = None
            else:
                c = None
                try:
                    c = ctx.repo.get_class(f.module, p.func)
                except Exception:
                    c = None
                is_ptr = c is not None and c.qualname == POINTER
                first = (p.args and p.args[0] is o) or any(kw.arg == "parameter" and kw.value is o for kw in p.keywords)
                if is_ptr and first:
                    verdict = None
                elif isinstance(p.func, ast.Attribute) and p.func.value is o:
                    verdict = None  # handled by the Attribute branch (o is the receiver)
                else:
                    verdict = f"passed to {callee or unparse(p.func)}(..)"
        elif isinstance(p, ast.Compare):
            verdict = None
        elif isinstance(p, ast.keyword):
            gp = par.get(id(p))
            c = None
            if isinstance(gp, ast.Call):
                try:
                    c = ctx.repo.get_class(f.module, gp.func)
                except Exception:
                    c = None
            if c is not None and c.qualname == POINTER and p.arg == "parameter":
                verdict = None
            else:
                verdict = f"passed as {p.arg}= to {unparse(gp.func) if isinstance(gp, ast.Call) else '?'}(..)"
        elif isinstance(p, ast.Return):
            verdict = "returned as a node of the new parameter graph"
        elif isinstance(p, (ast.Yield, ast.YieldFrom)):
            verdict = "yielded"
        elif isinstance(p, (ast.List, ast.Tuple, ast.Set, ast.Dict, ast.Starred)):
            verdict = "placed in a container"
        elif isinstance(p, ast.IfExp) and (p.body is o or p.orelse is o):
            # the conditional expression takes the taint; judged where *it* is used
            gp = par.get(id(p))
            if isinstance(gp, ast.Return):
                verdict = "returned as a node of the new parameter graph"
            elif isinstance(gp, (ast.Assign, ast.AnnAssign)):
                verdict = None
            else:
                verdict = f"used in {type(gp).__name__}"
        elif isinstance(p, ast.Subscript) and p.value is o:
            verdict = None  # lookup(..)[k]
        elif isinstance(p, ast.Expr):
            verdict = None
        else:
            verdict = f"used in a {type(p).__name__} context"
        key = f"foreign#{sum(1 for x in occs[: occs.index(o)])}"
        if verdict is None:
            n_ok += 1
            obs.append(ok("R6p", f.qualname, key, f"{unparse(o)[:60]} is only inspected / wrapped in a pointer", loc, nontrivial=True))
        else:
            obs.append(
                viol(
                    "R6p",
                    f.qualname,
                    key,
                    f"the tensor node owned by another compiled circuit ({unparse(o)[:60]}) is {verdict} instead of being wrapped in a "
                    "TorchPointerParameter: as a regular node of the derived circuit's parameter graph it is re-initialised by the "
                    "reset_parameters() that ends every compilation (values loaded / trained before the derived circuit is compiled "
                    "are overwritten) and registered twice in the module tree",
                    loc,
                )
            )
    if not occs:
        obs.append(unres("R6p", f.qualname, "foreign", "a source of foreign tensors whose uses could not be enumerated", f.loc))
    return obs


if __name__ == "__main__":
    import sys

    roots = [a for a in sys.argv[1:] if not a.startswith("-")]
    for o in r6p(Ctx(roots[0] if roots else None)):
        print(o.status.upper(), o.line()[:400])


# ------------------------------------------------------------------------------------------ R6q
TREE_WALKS = {"modules", "children", "named_modules", "named_children", "parameters", "named_parameters", "buffers", "named_buffers"}
WRITERS = {"reset_parameters", "copy_", "fill_", "zero_", "normal_", "uniform_", "set_", "requires_grad_"}


def r6q(ctx: Ctx, modules: tuple[str, ...] = ("cirkit.backend.torch",)) -> list[Ob]:
    """R6q -- tensors are (re-)initialised along parameter graphs, not along torch's module tree.

    A ``TorchPointerParameter`` stores its target as an attribute, so ``nn.Module`` registers the
    *referenced* tensor -- owned by another compiled circuit -- as a child of the pointer.
    ``.modules()`` / ``.children()`` / ``.parameters()`` therefore cross the pointer boundary that
    R6p guards: a reset or an initialiser applied to what such a traversal yields re-initialises the
    operand circuits' tensors (the layer wrapped by an evidence layer holds only pointers to them)
    every time a derived circuit is compiled.  No loop / comprehension over a module-tree traversal
    may call a writer (``reset_parameters``, an in-place ``name_``, ``nn.init.*``) on its elements."""
    out: list[Ob] = []
    n_fn = 0
    for f in ctx.repo.iter_functions():
        if not f.module.name.startswith(modules):
            continue
        n_fn += 1
        for lp in walk_no_nested(f.node):
            if not isinstance(lp, ast.For):
                continue
            walk = None
            for c in ast.walk(lp.iter):
                if isinstance(c, ast.Call) and isinstance(c.func, ast.Attribute) and c.func.attr in TREE_WALKS:
                    walk = c.func.attr
            if walk is None:
                continue
            tgt = {x.id for x in ast.walk(lp.target) if isinstance(x, ast.Name)}
            bad = None
            for n in ast.walk(lp):
                if isinstance(n, ast.Call) and isinstance(n.func, ast.Attribute):
                    recv_names = {x.id for x in ast.walk(n.func.value) if isinstance(x, ast.Name)}
                    if (n.func.attr in WRITERS or (n.func.attr.endswith("_") and not n.func.attr.startswith("_"))) and recv_names & tgt:
                        bad = n
                if isinstance(n, ast.Call) and (dotted(n.func) or "").startswith(("nn.init.", "torch.nn.init.", "init.")) and any(isinstance(a, ast.Name) and a.id in tgt or any(isinstance(x, ast.Name) and x.id in tgt for x in ast.walk(a)) for a in n.args):
                    bad = n
            site = f"{f.module.relpath}:{lp.lineno}"
            if bad is not None:
                out.append(viol("R6q", f.qualname, f"tree-walk:{walk}", f"`{unparse(bad)[:60]}` is applied to the elements of `{unparse(lp.iter)[:50]}`: torch's module tree contains the tensors that pointer nodes refer to (other circuits' tensors), so this re-initialises / overwrites the operands of a derived circuit -- e.g. values loaded before an evidence circuit is compiled", site))
            else:
                out.append(ok("R6q", f.qualname, f"tree-walk:{walk}", "a module-tree traversal that writes nothing", site))
    out.append(ok("R6q", "cirkit.backend.torch", "tree-walks", f"{n_fn} functions scanned", "", nontrivial=(n_fn > 0)))
    return out


# ------------------------------------------------------------------------------------------ R6r
def r6r(ctx: Ctx) -> list[Ob]:
    """R6r -- a symbolic tensor is compiled to one torch tensor per compiler.

    Two symbolic circuits may share symbolic layers (``Circuit.subgraph``, a hand-built evidence layer
    copied with ``copyref``, one TensorParameter object used by two layers).  The rule that compiles a
    symbolic tensor allocates a torch tensor *and registers it*: when the symbolic tensor has been
    compiled before, allocating again duplicates the parameter and overwrites the registry entry, so
    every circuit derived afterwards from the first circuit points at the tensors of the second.  The
    allocation in ``compile_tensor_parameter`` must be unreachable once
    ``has_compiled_parameter(p)`` holds (the already compiled tensor is then referenced)."""
    from ..cfg import ENTRY, build_cfg, stmt_calls
    from ..boolexpr import ALWAYS, NEVER, fires

    fq = "cirkit.backend.torch.rules.parameters.compile_tensor_parameter"
    f = ctx.repo.func(fq)
    g = build_cfg(f.node)
    allocs = [n for n in g.stmts if any((dotted(c.func) or "").split(".")[-1] == "TorchTensorParameter" for c in stmt_calls(g.stmts[n]))]
    if not allocs:
        return [unres("R6r", fq, "compile-once", "no TorchTensorParameter(..) allocation found", f.loc)]
    # prune the edges that contradict  has_compiled_parameter(p) == True
    seen = {ENTRY}
    stack = [ENTRY]
    while stack:
        a = stack.pop()
        for b, lab in g.succ.get(a, []):
            if lab is not None and lab[0] is not None:
                env = {unparse(x): True for x in ast.walk(lab[0]) if isinstance(x, ast.Call) and isinstance(x.func, ast.Attribute) and x.func.attr == "has_compiled_parameter"}
                if env:
                    verdict, _ = fires(lab[0], env)
                    if (verdict == ALWAYS and lab[1] is False) or (verdict == NEVER and lab[1] is True):
                        continue
            if b not in seen:
                seen.add(b)
                stack.append(b)
    hit = [n for n in allocs if n in seen]
    if hit:
        return [viol("R6r", fq, "compile-once", "a new TorchTensorParameter is allocated and registered also when the symbolic tensor has already been compiled (no has_compiled_parameter test guards it): a second circuit sharing the symbolic tensor (Circuit.subgraph, a copied evidence layer) gets its own copy and overwrites the registry entry, so circuits derived from the first one afterwards read the second one's tensors", f"{f.module.relpath}:{g.stmts[hit[0]].lineno}")]
    return [ok("R6r", fq, "compile-once", "the allocation is unreachable once the symbolic tensor has a compiled counterpart (it is referenced instead)", f.loc)]
