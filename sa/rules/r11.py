"""R11 -- semiring tables (sibling agreement between the implementations of one interface).

Every evaluation semiring implements the same six operations; the torch functions each one calls
place it in an algebra *family*:

    linear   sum -> sum          prod -> prod     add -> add         mul -> mul
    log      sum -> logsumexp    prod -> sum      add -> logaddexp   mul -> add

R11a  the four operators of one semiring are in one family, and ``sum`` / ``prod`` forward ``dim``
      and ``keepdim`` to the reducer they call (a reducer without ``dim`` collapses the fold / batch axes).
R11b  the registered morphisms agree with the families: linear <- log is ``exp``-like, log <- linear
      is ``log``-like, a morphism inside one family applies neither.
R11c  the stable reduce (``apply_reduce``) of a log-family semiring is a log-sum-exp with a shift:
      every input is shifted by its own maximum over ``dim`` (``keepdim=True``) before ``exp``; the
      shift is made finite first (clamp / nan_to_num / where) -- otherwise an all ``-inf`` row (log 0)
      gives ``-inf - -inf = nan``; every shift that was subtracted is added back to the logarithm of
      the reduced value; without ``keepdim`` the shift loses the reduced axis.  A linear semiring
      returns ``func(*xs)`` unshifted.
"""

from __future__ import annotations

import ast

from ..core import Ctx, Ob, ok, unres, viol
from ..flow import LocalDefs
from ..model import AnalysisError, ClassInfo, FuncInfo, dotted, is_self_attr, unparse, walk_no_nested

SEMIRING = "cirkit.backend.torch.semiring.SemiringImpl"

FAMILY = {
    "sum": {"sum": "linear", "nansum": "linear", "logsumexp": "log"},
    "prod": {"prod": "linear", "sum": "log"},
    "add": {"add": "linear", "logaddexp": "log"},
    "mul": {"mul": "linear", "add": "log"},
}
EXP_LIKE = {"exp"}
LOG_LIKE = {"log", "csafelog", "safelog"}
FINITE_GUARDS = {"clamp", "clip", "nan_to_num", "where", "masked_fill", "clamp_min", "clamp_max", "maximum", "minimum"}
MAX_FUNCS = {"amax", "max"}


def _called_names(fn: ast.AST) -> list[str]:
    out = []
    for n in walk_no_nested(fn):
        if isinstance(n, ast.Call):
            d = dotted(n.func)
            if d:
                out.append(d.split(".")[-1])
        elif isinstance(n, ast.Attribute) and isinstance(n.ctx, ast.Load):
            # torch.add handed to functools.reduce
            d = dotted(n)
            if d and d.split(".")[0] == "torch":
                out.append(d.split(".")[-1])
    return out


def semirings(ctx: Ctx) -> list[ClassInfo]:
    base = ctx.repo.cls(SEMIRING)
    return [c for c in ctx.repo.subclasses(base) if ctx.repo.is_concrete(c)]


def family_of(ctx: Ctx, c: ClassInfo) -> tuple[dict[str, str | None], str | None]:
    fams: dict[str, str | None] = {}
    for op, table in FAMILY.items():
        f = ctx.repo.lookup(c, op)
        if f is None or f.is_abstract:
            fams[op] = None
            continue
        hits = {table[n] for n in _called_names(f.node) if n in table}
        fams[op] = hits.pop() if len(hits) == 1 else None
    vals = {v for v in fams.values() if v}
    return fams, (vals.pop() if len(vals) == 1 and all(fams.values()) else None)


def r11a(ctx: Ctx) -> list[Ob]:
    obs: list[Ob] = []
    for c in semirings(ctx):
        fams, fam = family_of(ctx, c)
        if any(v is None for v in fams.values()):
            missing = [k for k, v in fams.items() if v is None]
            obs.append(unres("R11a", c.qualname, "family", f"operators {missing} call no / several of the classified torch functions", c.loc))
        elif fam is None:
            obs.append(viol("R11a", c.qualname, "family", f"operators of one semiring belong to different algebras: {fams}", c.loc))
        else:
            obs.append(ok("R11a", c.qualname, "family", f"{fam}: {fams}", c.loc))
        for op in ("sum", "prod"):
            f = ctx.repo.lookup(c, op)
            if f is None or f.is_abstract:
                continue
            params = [p.name for p in f.params]
            calls = [n for n in walk_no_nested(f.node) if isinstance(n, ast.Call) and (dotted(n.func) or "").split(".")[-1] in FAMILY[op]]
            if not calls:
                continue
            for kw in ("dim", "keepdim"):
                if kw not in params:
                    continue
                good = any(
                    any(k.arg == kw and isinstance(k.value, ast.Name) and k.value.id == kw for k in call.keywords)
                    or any(isinstance(a, ast.Name) and a.id == kw for a in call.args)
                    for call in calls
                )
                if good:
                    obs.append(ok("R11a", f.qualname, f"{op}:{kw}", f"{kw} forwarded to the reducer", f.loc))
                else:
                    obs.append(viol("R11a", f.qualname, f"{op}:{kw}", f"semiring.{op} does not forward its `{kw}` argument to the reducer it calls", f.loc))
    return obs


def _morphisms(ctx: Ctx) -> list[tuple[ClassInfo | None, ClassInfo | None, FuncInfo | ast.FunctionDef, str]]:
    """(src, dst, function node, loc) for every ``@Dst.register_map_from(Src)`` at module level"""
    out = []
    m = ctx.repo.module("cirkit.backend.torch.semiring")
    for s in m.tree.body:
        if not isinstance(s, ast.FunctionDef):
            continue
        for d in s.decorator_list:
            if isinstance(d, ast.Call) and isinstance(d.func, ast.Attribute) and d.func.attr == "register_map_from" and d.args:
                dst = ctx.repo.get_class(m, d.func.value)
                src = ctx.repo.get_class(m, d.args[0])
                out.append((src, dst, s, f"{m.relpath}:{s.lineno}"))
    return out


def r11b(ctx: Ctx) -> list[Ob]:
    obs: list[Ob] = []
    fam = {c.qualname: family_of(ctx, c)[1] for c in semirings(ctx)}
    rows = _morphisms(ctx)
    seen = set()
    for src, dst, fn, loc in rows:
        if src is None or dst is None:
            obs.append(unres("R11b", "cirkit.backend.torch.semiring", f"morphism@{loc}", "decorator operands not resolved", loc))
            continue
        inst = f"{src.name}->{dst.name}"
        seen.add((src.qualname, dst.qualname))
        fs, fd = fam.get(src.qualname), fam.get(dst.qualname)
        names = set(_called_names(fn))
        # only the value-producing returns count (raise paths are refusals)
        has_exp, has_log = bool(names & EXP_LIKE), bool(names & LOG_LIKE)
        if fs is None or fd is None:
            obs.append(unres("R11b", "cirkit.backend.torch.semiring", inst, "family of an endpoint not decided", loc))
        elif fs == "log" and fd == "linear":
            obs.append((ok if has_exp and not has_log else viol)("R11b", "cirkit.backend.torch.semiring", inst, f"log -> linear must exponentiate (calls {sorted(names & (EXP_LIKE | LOG_LIKE))})", loc))
        elif fs == "linear" and fd == "log":
            obs.append((ok if has_log and not has_exp else viol)("R11b", "cirkit.backend.torch.semiring", inst, f"linear -> log must take the logarithm (calls {sorted(names & (EXP_LIKE | LOG_LIKE))})", loc))
        else:
            obs.append((ok if not has_log and not has_exp else viol)("R11b", "cirkit.backend.torch.semiring", inst, f"a morphism inside the {fs} family applies neither exp nor log (calls {sorted(names & (EXP_LIKE | LOG_LIKE))})", loc))
    # completeness: every ordered pair of distinct semirings has a morphism (layers map between any two)
    cs = semirings(ctx)
    for a in cs:
        for b in cs:
            if a.qualname != b.qualname:
                inst = f"{a.name}->{b.name}"
                if (a.qualname, b.qualname) in seen:
                    obs.append(ok("R11b", "cirkit.backend.torch.semiring", inst + ":registered", "", a.loc))
                else:
                    obs.append(viol("R11b", "cirkit.backend.torch.semiring", inst + ":registered", "no morphism registered for this ordered pair: map_from raises NotImplementedError for layers evaluated in it", a.loc))
    return obs


def _derives_from_call(ld: LocalDefs, e: ast.AST, names: set[str]) -> list[ast.Call]:
    return [c for c in ld.calls(e) if (dotted(c.func) or "").split(".")[-1] in names]


def r11c(ctx: Ctx) -> list[Ob]:
    obs: list[Ob] = []
    for c in semirings(ctx):
        f = ctx.repo.lookup(c, "apply_reduce")
        if f is None or f.is_abstract:
            continue
        _, fam = family_of(ctx, c)
        ld = LocalDefs(f.node)
        rets = [r for r in walk_no_nested(f.node) if isinstance(r, ast.Return) and r.value is not None]
        if fam is None:
            obs.append(unres("R11c", f.qualname, "shape", "family not decided", f.loc))
            continue
        if fam == "linear":
            good = all(not _derives_from_call(ld, r.value, EXP_LIKE | LOG_LIKE | MAX_FUNCS) for r in rets) and bool(rets)
            obs.append((ok if good else viol)("R11c", f.qualname, "unshifted", "a linear semiring reduces without a shift / exp / log", f.loc))
            continue
        # log family ------------------------------------------------------------------
        subs = []  # (Sub node inside exp(...))
        for n in walk_no_nested(f.node):
            if isinstance(n, ast.Call) and (dotted(n.func) or "").split(".")[-1] in EXP_LIKE and n.args:
                for e in ld.expand(n.args[0]):
                    for s in ast.walk(e):
                        if isinstance(s, ast.BinOp) and isinstance(s.op, ast.Sub):
                            subs.append(s)
        if not subs:
            obs.append(viol("R11c", f.qualname, "shift", "no `exp(x - shift)` in the stable reduce of a log-space semiring: exponentiating un-shifted log values overflows / underflows", f.loc))
            continue
        for i, s in enumerate(subs):
            shift_calls = ld.calls(s.right)
            names = {(dotted(c_.func) or "").split(".")[-1] for c_ in shift_calls}
            maxes = [c_ for c_ in shift_calls if (dotted(c_.func) or "").split(".")[-1] in MAX_FUNCS]
            if not maxes:
                obs.append(unres("R11c", f.qualname, f"shift#{i}:max", "the subtracted shift does not derive from amax / max", f.loc))
                continue
            mx = maxes[0]
            kws = {k.arg: k.value for k in mx.keywords}
            dim_ok = ("dim" in kws and isinstance(kws["dim"], ast.Name) and kws["dim"].id == "dim") or any(isinstance(a, ast.Name) and a.id == "dim" for a in mx.args[1:])
            keep_ok = "keepdim" in kws and isinstance(kws["keepdim"], ast.Constant) and kws["keepdim"].value is True
            obs.append((ok if dim_ok else viol)("R11c", f.qualname, f"shift#{i}:dim", "the maximum is taken over the reduced axis `dim`", f.loc))
            obs.append((ok if keep_ok else viol)("R11c", f.qualname, f"shift#{i}:keepdim", "the maximum keeps the reduced axis (keepdim=True) so that it broadcasts against the input", f.loc))
            if names & FINITE_GUARDS:
                obs.append(ok("R11c", f.qualname, f"shift#{i}:finite", f"made finite by {sorted(names & FINITE_GUARDS)}", f.loc))
            else:
                obs.append(viol("R11c", f.qualname, f"shift#{i}:finite", "the shift max(x) is subtracted without being made finite (clamp / nan_to_num / where): an all -inf row (log 0) evaluates to nan instead of -inf", f.loc))
        # add-back: the returned value is log-like(func(..)) + shift
        good_ret = False
        for r in rets:
            tops = [e for e in ld.expand(r.value)]
            has_log = any((dotted(c_.func) or "").split(".")[-1] in LOG_LIKE for e in tops for c_ in ast.walk(e) if isinstance(c_, ast.Call))
            has_add = any(isinstance(e, ast.BinOp) and isinstance(e.op, ast.Add) for e in tops[:1]) or any(
                isinstance(x, ast.BinOp) and isinstance(x.op, ast.Add) for x in ast.walk(tops[0])
            )
            back = bool(_derives_from_call(ld, r.value, MAX_FUNCS))
            if has_log and has_add and back:
                good_ret = True
        obs.append((ok if good_ret else viol)("R11c", f.qualname, "add-back", "returns log(func(exp(x - shift))) + shift (the subtracted maxima are added back)", f.loc))
        # one shift per input is added back: func is multilinear in its (several) inputs, and exp(x_i - m)
        # is taken for every input, so log(func(..)) misses the sum of *all* the shifts
        per_input = any(
            isinstance(c_, (ast.ListComp, ast.GeneratorExp))
            and any(isinstance(x, ast.Call) and (dotted(x.func) or "").split(".")[-1] in EXP_LIKE for x in ast.walk(c_.elt))
            and any(isinstance(x, ast.Name) and x.id == "xs" for g in c_.generators for x in ast.walk(g.iter))
            for c_ in ast.walk(f.node)
        )
        if per_input:
            summed = False
            for r in rets:
                for e in [r.value, *ld.expand(r.value)]:
                    for c_ in ast.walk(e):
                        if isinstance(c_, ast.Call):
                            nm = (dotted(c_.func) or "").split(".")[-1]
                            if nm == "reduce" and c_.args and (dotted(c_.args[0]) or "").split(".")[-1] in ("add", "iadd", "__add__"):
                                summed = True
                            if nm == "sum" and c_.args and not isinstance(c_.args[0], ast.Constant):
                                summed = True
                        if isinstance(c_, ast.BinOp) and isinstance(c_.op, ast.Mult) and any(isinstance(x, ast.Call) and isinstance(x.func, ast.Name) and x.func.id == "len" for x in ast.walk(c_)):
                            summed = True
            if summed:
                obs.append(ok("R11c", f.qualname, "add-back:per-input", "the shifts of all inputs are summed before being added back", f.loc))
            else:
                obs.append(viol("R11c", f.qualname, "add-back:per-input", "every input is exponentiated after subtracting a shift, but what is added back is not the sum of the shifts over the inputs (reduce(add, ..) / sum / n * m): func multiplies its inputs, so with n >= 2 inputs the result is short of (n - 1) shifts -- wrong values for every product of log-space operands, and right for single-input reductions", f.loc))
        # every shift added back: the reduction over the list of maxima covers all inputs (reduce / sum over max_xs)
        sq = [n for n in walk_no_nested(f.node) if isinstance(n, ast.Call) and (dotted(n.func) or "").split(".")[-1] == "squeeze"]
        kd = [n for n in walk_no_nested(f.node) if isinstance(n, ast.If) and any(isinstance(x, ast.Name) and x.id == "keepdim" for x in ast.walk(n.test))]
        if kd and sq:
            obs.append(ok("R11c", f.qualname, "keepdim", "without keepdim the shift drops the reduced axis", f.loc))
        else:
            obs.append(viol("R11c", f.qualname, "keepdim", "the shift keeps the reduced axis although keepdim=False removes it from func's result: the sum broadcasts to a wrong shape", f.loc))
    return obs


def run(ctx: Ctx) -> list[Ob]:
    return r11a(ctx) + r11b(ctx) + r11c(ctx)


def r11d(ctx: Ctx) -> list[Ob]:
    """R11d -- every hand-written stable exponential in the torch backend, ``exp(x - m)`` with m derived
    from a maximum of x, takes that maximum *along an axis* (``dim=`` given, per row), never over the
    whole tensor: a global shift leaves rows far below the global maximum to underflow, and the
    normalisation that follows divides 0 by 0 (a softmax over parameters of very different scale
    yields nan instead of weights that sum to one)."""
    obs: list[Ob] = []
    for f in ctx.repo.iter_functions():
        if not f.module.name.startswith("cirkit.backend.torch"):
            continue
        ld = None
        k = 0
        for n in walk_no_nested(f.node):
            if not (isinstance(n, ast.Call) and (dotted(n.func) or "").split(".")[-1] in EXP_LIKE and n.args):
                continue
            ld = ld or LocalDefs(f.node)
            for e in ld.expand(n.args[0]):
                for s in ast.walk(e):
                    if not (isinstance(s, ast.BinOp) and isinstance(s.op, ast.Sub)):
                        continue
                    maxes = [c_ for c_ in ld.calls(s.right) if (dotted(c_.func) or "").split(".")[-1] in MAX_FUNCS]
                    if not maxes:
                        continue
                    k += 1
                    mx = maxes[0]
                    has_dim = any(kw.arg == "dim" for kw in mx.keywords) or len(mx.args) >= 2
                    inst = f"shift#{k}"
                    loc = f"{f.module.relpath}:{s.lineno}"
                    if has_dim:
                        obs.append(ok("R11d", f.qualname, inst, "the shift is a maximum along an axis", loc))
                    else:
                        obs.append(viol("R11d", f.qualname, inst, f"`{ast.unparse(s)[:60]}` shifts by the maximum of the *whole* tensor ({ast.unparse(mx)[:40]}): rows far below it underflow and the following normalisation is 0/0", loc))
    return obs


def r11e(ctx: Ctx) -> list[Ob]:
    """R11e -- the complex log-space semiring takes logarithms with the repository's safe complex
    logarithm (``csafelog``), in its stable reduce and in every morphism *into* it: the plain complex
    ``torch.log`` has the gradient 1/conj(z), which is nan/inf at an exactly-zero unit (a one-hot
    embedding row, a polynomial at a root) although the circuit output is finite and non-zero."""
    obs: list[Ob] = []
    cplx = None
    for c in semirings(ctx):
        if "Complex" in c.name:
            cplx = c
    if cplx is None:
        return [unres("R11e", "cirkit.backend.torch.semiring", "complex-semiring", "no complex semiring class found")]
    sites: list[tuple[str, str, ast.AST]] = []
    f = ctx.repo.lookup(cplx, "apply_reduce")
    if f is not None and not f.is_abstract:
        sites.append((f.qualname, f.loc, f.node))
    for src, dst, fn, loc in _morphisms(ctx):
        if dst is not None and dst.qualname == cplx.qualname and src is not None:
            fam_src = family_of(ctx, src)[1]
            if fam_src == "linear":
                sites.append((f"cirkit.backend.torch.semiring:{src.name}->{dst.name}", loc, fn))
    for q, loc, node in sites:
        names = _called_names(node)
        plain = [n for n in names if n == "log"]
        safe = [n for n in names if n in ("csafelog", "safelog")]
        if plain:
            obs.append(viol("R11e", q, "safe-log", "takes a plain (complex) logarithm where the complex semiring's other sites use csafelog: the gradient is nan at an exactly-zero unit", loc))
        elif safe:
            obs.append(ok("R11e", q, "safe-log", "logarithm taken with csafelog", loc))
        else:
            obs.append(unres("R11e", q, "safe-log", "no logarithm found at this site", loc))
    return obs


# ------------------------------------------------------------------------------------------ R11g / R11h
def r11g(ctx: Ctx, modules: tuple[str, ...] = ("cirkit.backend.torch",)) -> list[Ob]:
    """R11g -- a custom backward only repairs isolated singularities.

    A hand-written ``backward`` (``ComplexSafeLog``) may replace the non-finite value at an isolated
    point (``x == 0``: ``nan_to_num``, an equality mask) -- it must not *threshold*: an ordering
    comparison (``abs(x) < eps``) masks the gradient on a set with non-empty interior, and every
    parameter whose max-shifted value falls below the threshold (weights of 1e-9 in float32) gets the
    gradient 0 while finite differences and the other semirings see O(1) derivatives."""
    import ast as _ast

    out: list[Ob] = []
    for c in ctx.repo.classes.values():
        if not c.module.name.startswith(modules):
            continue
        b = c.methods.get("backward")
        if b is None:
            continue
        bad = None
        for n in _ast.walk(b.node):
            if isinstance(n, _ast.Compare) and any(isinstance(o, (_ast.Lt, _ast.LtE, _ast.Gt, _ast.GtE)) for o in n.ops):
                bad = n
        if bad is not None:
            out.append(viol("R11g", c.qualname, "backward:threshold", f"backward masks the gradient with an ordering comparison (`{unparse(bad)[:60]}`): the gradient is set on an open set of inputs, not only at the isolated singularity -- tiny but non-zero values get a zero gradient", f"{c.module.relpath}:{bad.lineno}"))
        else:
            out.append(ok("R11g", c.qualname, "backward:threshold", "backward repairs non-finite values only (no ordering comparison)", b.loc))
    if not out:
        out.append(unres("R11g", "cirkit.backend.torch", "backward:threshold", "no custom backward found", ""))
    return out


def r11h(ctx: Ctx) -> list[Ob]:
    """R11h -- learnable means requires_grad for every dtype that carries gradients.

    ``compile_tensor_parameter`` passes ``requires_grad`` to the torch tensor.  It is ``p.learnable``,
    possibly restricted for dtypes that cannot have gradients (integers).  ``dtype.is_floating_point``
    is *False* for complex dtypes: a restriction through it alone freezes every learnable complex
    parameter (the complex-lse-sum circuits) without any error."""
    import ast as _ast

    from ..canon import FlowCanon
    from ..cfg import build_cfg

    fq = "cirkit.backend.torch.rules.parameters.compile_tensor_parameter"
    f = ctx.repo.func(fq)
    g = ctx.memo("cfg:" + fq, lambda: build_cfg(f.node))
    fc = ctx.memo("flowcanon:" + fq, lambda: FlowCanon(g))
    out: list[Ob] = []
    for n, st in g.stmts.items():
        if isinstance(st, (_ast.If, _ast.For, _ast.While, _ast.With, _ast.Try)):
            continue
        for c in _ast.walk(st):
            if isinstance(c, _ast.Call):
                kw = next((k.value for k in c.keywords if k.arg == "requires_grad"), None)
                if kw is None:
                    continue
                e = fc.expr(kw, n)
                txt = unparse(e)
                site = f"{f.module.relpath}:{c.lineno}"
                if txt.endswith(".learnable") and "and" not in txt and "if" not in txt:
                    out.append(ok("R11h", fq, "requires_grad", f"requires_grad = {txt}", site))
                elif ".learnable" in txt and "is_floating_point" in txt and "is_complex" not in txt:
                    out.append(viol("R11h", fq, "requires_grad", f"requires_grad = `{txt[:80]}`: is_floating_point is False for complex dtypes, so learnable complex parameters are compiled frozen (their .grad stays None)", site))
                elif ".learnable" in txt:
                    out.append(unres("R11h", fq, "requires_grad", f"requires_grad = `{txt[:80]}`: a restriction of learnable the rule has no model of", site))
                else:
                    out.append(viol("R11h", fq, "requires_grad", f"requires_grad = `{txt[:80]}` does not derive from the symbolic parameter's learnable flag", site))
    if not out:
        out.append(unres("R11h", fq, "requires_grad", "no requires_grad= keyword found", f.loc))
    return out


# ------------------------------------------------------------------------------------------ R11i
def r11i(ctx: Ctx) -> list[Ob]:
    """R11i -- a semiring's ``cast`` keeps the precision of floating-point values.

    ``cast`` is applied to every input layer's output and to every einsum operand.  For a
    floating-point tensor each semiring returns the tensor itself (real semirings) or converts it
    with a dtype derived from *its own* dtype (``x.dtype.to_complex()``); only integer / bool tensors
    go to ``torch.get_default_dtype()``.  A cast that sends every non-complex tensor to the global
    default evaluates a float64 circuit in complex64 whenever the default dtype is float32 (the test
    suite sets float64 as default, so it cannot see it)."""
    import ast as _ast

    from ..boolexpr import ALWAYS, NEVER, fires
    from ..cfg import ENTRY, build_cfg

    out: list[Ob] = []
    base = ctx.repo.cls("cirkit.backend.torch.semiring.SemiringImpl")
    for c in ctx.repo.subclasses(base):
        m = c.methods.get("cast")
        if m is None or m.is_abstract:
            continue
        g = build_cfg(m.node)
        xname = [p.name for p in m.params if p.name not in ("cls", "self")][0]
        env = {f"{xname}.is_floating_point()": True, f"{xname}.is_complex()": False}
        seen = {ENTRY}
        stack = [ENTRY]
        rets = []
        while stack:
            a = stack.pop()
            st = g.stmts.get(a)
            if isinstance(st, _ast.Return):
                rets.append(st)
            for b, lab in g.succ.get(a, []):
                if lab is not None and lab[0] is not None:
                    v, _ = fires(lab[0], env)
                    if (v == ALWAYS and lab[1] is False) or (v == NEVER and lab[1] is True):
                        continue
                if b not in seen:
                    seen.add(b)
                    stack.append(b)
        ld = LocalDefs(m.node)
        bad = None
        for r in rets:
            if r.value is None:
                continue
            txts = [unparse(e) for e in ld.expand(r.value)]
            joined = " ".join(txts)
            if unparse(r.value) == xname:
                continue
            if f"{xname}.dtype" in joined:
                continue
            if "get_default_dtype" in joined:
                bad = r
        inst = "cast:float-precision"
        if bad is not None:
            out.append(viol("R11i", c.qualname, inst, f"for a floating-point tensor cast returns `{unparse(bad.value)[:60]}` -- a dtype taken from torch.get_default_dtype(), not from the tensor: a circuit moved to float64 under a float32 default is evaluated at single precision (values beyond the float32 range overflow before the logarithm)", f"{m.module.relpath}:{bad.lineno}"))
        elif rets:
            out.append(ok("R11i", c.qualname, inst, "floating-point tensors keep their own precision", m.loc))
        else:
            out.append(unres("R11i", c.qualname, inst, "no return reachable for a floating-point tensor", m.loc))
    return out


# ------------------------------------------------------------------------------------------ R11j
GRAD_OFF = {"no_grad", "set_grad_enabled", "inference_mode", "enable_grad"}


def r11j(ctx: Ctx) -> list[Ob]:
    """R11j -- evaluation never switches gradient tracking off.

    The output of a circuit is differentiated through every ``forward`` on the way: layers, parameter
    nodes, parameter graphs (``TorchParameter.forward`` / ``evaluate``), the semiring reductions.  A
    ``torch.no_grad()`` / ``set_grad_enabled(..)`` / ``inference_mode()`` block or decorator in one
    of them -- however the condition is computed ('this graph only holds constants') -- detaches the
    result for whatever the condition misjudges (a graph of pointers to another circuit's learnable
    tensors next to a constant), and ``.detach()`` of anything but the subtracted-and-added-back shift
    of a stable reduce removes a term from the gradient.  Initialisation (``reset_parameters``) and
    sampling are not differentiated and are exempt."""
    import ast as _ast

    from .r10 import EVAL_METHODS, _module_classes

    out: list[Ob] = []
    eval_names = [m for m in EVAL_METHODS if m not in ("sample",)] + ["apply_reduce", "einsum", "map_from", "sum", "prod"]
    classes = list(_module_classes(ctx)) + [c for c in ctx.repo.classes.values() if c.module.name == "cirkit.backend.torch.semiring"]
    seen = set()
    for c in classes:
        if c.qualname in seen:
            continue
        seen.add(c.qualname)
        for mname in eval_names:
            m = c.methods.get(mname)
            if m is None or m.is_abstract:
                continue
            bad = None
            for d in m.node.decorator_list:
                nm = (dotted(d.func if isinstance(d, _ast.Call) else d) or "").split(".")[-1]
                if nm in GRAD_OFF and nm != "enable_grad":
                    bad = (d, f"decorated with {nm}")
            for n in walk_no_nested(m.node):
                if isinstance(n, _ast.Call):
                    nm = (dotted(n.func) or "").split(".")[-1]
                    if nm in GRAD_OFF and nm != "enable_grad":
                        bad = bad or (n, f"`{unparse(n)[:60]}`")
                    if isinstance(n.func, _ast.Attribute) and n.func.attr == "detach":
                        recv = unparse(n.func.value)
                        if "max" not in recv and "shift" not in recv:
                            bad = bad or (n, f"`{unparse(n)[:60]}` detaches a value that is not the shift of a stable reduce")
            inst = f"grad-tracking:{mname}"
            if bad is not None:
                n, what = bad
                out.append(viol("R11j", c.qualname, inst, f"{c.name}.{mname} {what}: whatever is computed there carries no gradient -- the derivative of the circuit's output loses that term without any error, and forward values are unchanged", f"{m.module.relpath}:{getattr(n, 'lineno', m.node.lineno)}"))
            else:
                out.append(ok("R11j", c.qualname, inst, "gradient tracking is left alone", m.loc, nontrivial=False))
    return out


# ------------------------------------------------------------------------------------------ R11k
def r11k(ctx: Ctx, modules: tuple[str, ...] = ("cirkit.backend.torch.parameters", "cirkit.backend.torch.layers")) -> list[Ob]:
    """R11k -- every hand-written max-shift is made finite before it is subtracted.

    The same clause R11c states for the semiring reductions, for any torch-side ``forward``: a stable
    exponentiation ``exp(x - m)`` whose shift ``m`` derives from ``max`` / ``amax`` needs ``m`` passed
    through ``clamp`` / ``nan_to_num`` / ``where`` first -- a row of all ``-inf`` (the log of an
    impossible event: a Categorical unit with no support after a product of indicator inputs) gives
    ``-inf - (-inf) = nan`` where ``torch.logsumexp`` returns ``-inf``."""
    obs: list[Ob] = []
    n = 0
    for f in ctx.repo.iter_functions():
        if not f.module.name.startswith(modules) or f.name not in ("forward", "log_partition_function", "log_unnormalized_likelihood", "integrate"):
            continue
        ld = LocalDefs(f.node)
        for c in walk_no_nested(f.node):
            if isinstance(c, ast.Call) and (dotted(c.func) or "").split(".")[-1] in EXP_LIKE and c.args:
                for e in ld.expand(c.args[0]):
                    for s in ast.walk(e):
                        if isinstance(s, ast.BinOp) and isinstance(s.op, ast.Sub):
                            calls = ld.calls(s.right)
                            names = {(dotted(c_.func) or "").split(".")[-1] for c_ in calls}
                            if not (names & MAX_FUNCS):
                                continue
                            n += 1
                            site = f"{f.module.relpath}:{c.lineno}"
                            if names & FINITE_GUARDS:
                                obs.append(ok("R11k", f.qualname, "shift:finite", f"made finite by {sorted(names & FINITE_GUARDS)}", site))
                            else:
                                obs.append(viol("R11k", f.qualname, "shift:finite", f"`{unparse(c)[:60]}` subtracts a max-shift that is not made finite (clamp / nan_to_num / where): an all -inf row evaluates to nan instead of -inf -- integrate of a Categorical unit without support then poisons the whole partition function", site))
    obs.append(ok("R11k", "cirkit.backend.torch", "hand-written-shifts", f"{n} hand-written max-shift(s) outside the semirings", "", nontrivial=False))
    return obs


INF_LOGS = {"log", "log1p", "log2", "log10"}
PROB_CLAMPS = {"clamp", "clamp_min", "clamp_max", "clip", "clamp_probs", "nan_to_num", "maximum", "minimum"}


def r11l(ctx: Ctx, modules: tuple[str, ...] = ("cirkit.backend.torch.layers",)) -> list[Ob]:
    """R11l -- no `count * log(p)` with an unclamped p in a log-likelihood.

    A log-likelihood that multiplies an input-derived factor (a count ``x``, ``n - x``) by the
    logarithm of a parameter-derived probability evaluates ``0 * -inf = nan`` at an *in-support*
    point as soon as the probability rounds to 0 or 1 (a sigmoid saturates at |theta| ~ 17 in
    float32): the state x = n of a Binomial unit with p == 1.  The factor has to be combined with
    ``torch.xlogy`` / ``xlog1py``, or the argument of the logarithm clamped away from 0
    (``clamp`` / ``clamp_probs``, which is what ``torch.distributions`` does)."""
    obs: list[Ob] = []
    n = 0
    for f in ctx.repo.iter_functions():
        if not f.module.name.startswith(modules) or f.name not in ("forward", "log_unnormalized_likelihood", "log_likelihood", "log_prob"):
            continue
        cps = [p_ for p_ in f.call_params if p_.kind == "pos"]
        if not cps:
            continue
        inp = cps[0].name
        ld = LocalDefs(f.node)

        def from_input(e: ast.AST) -> bool:
            return any(isinstance(x, ast.Name) and x.id == inp for ex in ld.expand(e) for x in ast.walk(ex)) or any(isinstance(x, ast.Name) and x.id == inp for x in ast.walk(e))

        def inf_log(e: ast.AST) -> ast.Call | None:
            for ex in [e, *ld.expand(e)]:
                for c in ast.walk(ex):
                    if not isinstance(c, ast.Call):
                        continue
                    nm = c.func.attr if isinstance(c.func, ast.Attribute) else (c.func.id if isinstance(c.func, ast.Name) else "")
                    if nm not in INF_LOGS:
                        continue
                    arg = c.args[0] if c.args else (c.func.value if isinstance(c.func, ast.Attribute) else None)
                    if arg is None:
                        continue
                    inner = {(_c.func.attr if isinstance(_c.func, ast.Attribute) else getattr(_c.func, "id", "")) for a in [arg, *ld.expand(arg)] for _c in ast.walk(a) if isinstance(_c, ast.Call)}
                    if inner & PROB_CLAMPS:
                        continue
                    if from_input(arg):
                        continue  # the log of the input itself (a density of x), not of a parameter
                    return c
            return None

        for b in walk_no_nested(f.node):
            if isinstance(b, ast.BinOp) and isinstance(b.op, ast.Mult):
                for fac, lg in ((b.left, b.right), (b.right, b.left)):
                    if isinstance(lg, ast.BinOp):
                        continue
                    c = inf_log(lg)
                    if c is not None and from_input(fac) and not any(isinstance(k, ast.Call) and (k.func.attr if isinstance(k.func, ast.Attribute) else getattr(k.func, 'id', '')) in INF_LOGS for k in ast.walk(fac)):
                        n += 1
                        obs.append(viol("R11l", f.qualname, f"zero-times-log:{unparse(b)[:40]}", f"`{unparse(b)[:80]}` multiplies an input-derived factor by `{unparse(c)[:50]}`, the unclamped logarithm of a parameter: at the in-support point where the factor is 0 and the probability has rounded to 0 / 1 this is 0 * -inf = nan (use torch.xlogy / xlog1py, or clamp the probability as torch.distributions does)", f"{f.module.relpath}:{b.lineno}"))
                        break
    obs.append(ok("R11l", "cirkit.backend.torch.layers", "count-times-log", f"{n} product(s) of an input-derived factor with an unclamped log of a parameter", "", nontrivial=False))
    return obs


T_EXPFAM = "cirkit.backend.torch.layers.input.TorchExpFamilyLayer"


def r11m(ctx: Ctx) -> list[Ob]:
    """R11m -- a likelihood normalised by torch.distributions has no partition function of its own.

    An exponential-family layer returns ``log_unnormalized_likelihood(x) - log_partition_function()``
    as its log-density, and ``integrate`` of it is ``log_partition_function()``.  When the
    "un-normalised" likelihood is a ``torch.distributions`` ``log_prob`` (already normalised), possibly
    plus a parameter ``A`` of the layer (the Gaussian's explicit log-partition), the partition
    function has to be exactly that ``A`` -- zeros when nothing is added.  Anything else (the
    textbook log-normaliser ``n * softplus(logits)`` of a Binomial) is counted twice: densities no
    longer sum to one and marginals of the layer are off by that factor, on that parameterisation
    only."""
    obs: list[Ob] = []
    base = ctx.repo.cls(T_EXPFAM)
    n_cls = 0
    for c in ctx.repo.subclasses(base):
        lik = c.methods.get("log_unnormalized_likelihood")
        part = c.methods.get("log_partition_function")
        if lik is None or part is None:
            continue
        ld = LocalDefs(lik.node)
        rets = [r.value for r in walk_no_nested(lik.node) if isinstance(r, ast.Return) and r.value is not None]
        if not rets:
            continue

        def is_log_prob(e: ast.AST) -> bool:
            return isinstance(e, ast.Call) and isinstance(e.func, ast.Attribute) and e.func.attr == "log_prob"

        normalised = True
        addends: set[str] = set()
        for r in rets:
            exps = [r, *ld.expand(r)]
            if not any(is_log_prob(x) for e in exps for x in ast.walk(e)):
                normalised = False
                break
            for e in exps:
                for b in ast.walk(e):
                    if isinstance(b, ast.BinOp) and isinstance(b.op, (ast.Add, ast.Sub)):
                        for side in (b.left, b.right):
                            for ex in [side, *ld.expand(side)]:
                                if any(is_log_prob(x) for x in ast.walk(ex)):
                                    continue
                                for k in ast.walk(ex):
                                    a = is_self_attr(k.func) if isinstance(k, ast.Call) else None
                                    if a is not None:
                                        addends.add(a)
        if not normalised:
            continue
        n_cls += 1
        ldp = LocalDefs(part.node)
        for r in [r for r in walk_no_nested(part.node) if isinstance(r, ast.Return) and r.value is not None]:
            loc = f"{part.module.relpath}:{r.lineno}"
            exps = [r.value, *ldp.expand(r.value)]
            calls = {(k.func.attr if isinstance(k.func, ast.Attribute) else getattr(k.func, "id", "")) for e in exps for k in ast.walk(e) if isinstance(k, ast.Call)}
            attrs = {a for e in exps for k in ast.walk(e) if isinstance(k, ast.Call) and (a := is_self_attr(k.func)) is not None}
            inst = f"partition-of-normalised:{unparse(r.value)[:30]}"
            if attrs and attrs <= addends:
                obs.append(ok("R11m", c.qualname, inst, f"returns the parameter(s) {sorted(attrs)} that the likelihood adds to the normalised log_prob", loc))
            elif not attrs and calls & {"zeros", "zeros_like", "new_zeros"}:
                obs.append(ok("R11m", c.qualname, inst, "zero: the likelihood is a normalised log_prob", loc))
            else:
                obs.append(viol("R11m", c.qualname, inst, f"log_unnormalized_likelihood is a torch.distributions log_prob (already normalised{', plus ' + str(sorted(addends)) if addends else ''}) but log_partition_function returns `{unparse(r.value)[:60]}` computed from {sorted(attrs) or 'other quantities'}: the normaliser is counted twice -- the layer's density no longer sums to one and integrate() is off by that factor", loc))
    obs.append(ok("R11m", "cirkit.backend.torch.layers.input", "normalised-likelihoods", f"{n_cls} exponential-family layer(s) whose likelihood is a torch.distributions log_prob", "", nontrivial=False))
    return obs


def r11n(ctx: Ctx) -> list[Ob]:
    """R11n -- the logarithm that closes the stable reduce of a log-space semiring has a backward that
    is safe at zero.

    ``apply_reduce`` returns ``log(func(exp(x - m))) + m``.  A unit whose value is exactly 0 (an
    indicator-like input at an unsupported state, a product with one) makes ``func(..)`` zero for that
    unit; the circuit output can still be non-zero through other units, and C13 promises finite
    gradients wherever the function value is non-zero.  ``torch.log`` back-propagates ``0 / 0 = nan``
    into the parameters below that unit; the repository's own guarded logarithms (``safelog`` /
    ``csafelog``, autograd functions whose backward R11g / R11h decide) give 0.  The real and the
    complex semiring are siblings and have to agree on this."""
    obs: list[Ob] = []
    safe = set()
    um = ctx.repo.modules.get("cirkit.backend.torch.utils")
    if um is not None:
        for n in um.tree.body:
            tgt = n.targets[0] if isinstance(n, ast.Assign) and len(n.targets) == 1 else (n.target if isinstance(n, ast.AnnAssign) else None)
            val = getattr(n, "value", None)
            if isinstance(tgt, ast.Name) and isinstance(val, ast.Attribute) and val.attr == "apply":
                safe.add(tgt.id)
    for c in semirings(ctx):
        f = ctx.repo.lookup(c, "apply_reduce")
        if f is None or f.is_abstract:
            continue
        _, fam = family_of(ctx, c)
        if fam != "log":
            continue
        ld = LocalDefs(f.node)
        for r in [r for r in walk_no_nested(f.node) if isinstance(r, ast.Return) and r.value is not None]:
            logs = [(dotted(k.func) or "").split(".")[-1] for e in [r.value, *ld.expand(r.value)] for k in ast.walk(e) if isinstance(k, ast.Call) and (dotted(k.func) or "").split(".")[-1] in LOG_LIKE | {"log"}]
            loc = f"{f.module.relpath}:{r.lineno}"
            if not logs:
                continue
            if all(l in safe for l in logs):
                obs.append(ok("R11n", f.qualname, "log:safe-backward", f"closes with {sorted(set(logs))}, an autograd function of cirkit.backend.torch.utils with a guarded backward", loc))
            else:
                obs.append(viol("R11n", f.qualname, "log:safe-backward", f"closes with {sorted(set(logs) - safe)}: its backward is grad / x, nan for a unit that evaluates to exactly 0 -- the gradients of the parameters below that unit are nan although the circuit output is non-zero (the sibling semiring uses a guarded logarithm)", loc))
    if not obs:
        raise AnalysisError("R11n: no log-space semiring with an apply_reduce (anchor vanished)")
    return obs
