"""R6 -- protocols on all paths (context variables, memoised compilation, bijection,
operator delegation)."""

from __future__ import annotations

import ast

from ..cfg import ENTRY, EXIT, RAISE, CFG, build_cfg, stmt_calls
from ..core import Ctx, Ob, note, ok, unres, viol
from ..flow import LocalDefs
from ..model import AnalysisError, ClassInfo, FuncInfo, dotted, is_self_attr, unparse, walk_no_nested


def _path_str(g: CFG, path: list[int] | None) -> str:
    if not path:
        return ""
    return " -> ".join(g.describe(n) for n in path)


def _node_has_call(g: CFG, n: int, pred) -> bool:
    if n in (ENTRY, EXIT, RAISE):
        return False
    return any(pred(c) for c in stmt_calls(g.stmts[n]))


def reachable_avoiding_edges(g: CFG, edge_blocked, start: int = ENTRY) -> set[int]:
    seen = {start}
    stack = [start]
    while stack:
        a = stack.pop()
        for b, lab in g.succ.get(a, []):
            if b in seen or edge_blocked(a, b, lab):
                continue
            seen.add(b)
            stack.append(b)
    return seen


# ------------------------------------------------------------------------------------------ R6a
def context_manager_classes(ctx: Ctx) -> list[tuple[ClassInfo, str, str]]:
    """(class, context variable name, token attribute) for classes whose __enter__ does
    ``self.<tok> = CV.set(self)`` on a module-level ContextVar."""
    res = []
    for c in ctx.repo.classes.values():
        en = c.methods.get("__enter__")
        ex = c.methods.get("__exit__")
        if en is None or ex is None:
            continue
        for n in walk_no_nested(en.node):
            if isinstance(n, ast.Call) and isinstance(n.func, ast.Attribute) and n.func.attr == "set" and isinstance(n.func.value, ast.Name):
                cv = n.func.value.id
                gv = c.module.globals.get(cv)
                if gv is not None and isinstance(gv, ast.Call) and (dotted(gv.func) or "").split(".")[-1] == "ContextVar":
                    res.append((c, cv, n))
    return res


def r6a(ctx: Ctx) -> list[Ob]:
    out: list[Ob] = []
    cms = context_manager_classes(ctx)
    for c, cv, setcall in cms:
        en, ex = c.methods["__enter__"], c.methods["__exit__"]
        # ---- __enter__
        g = build_cfg(en.node)
        tok = None
        for n, s in g.stmts.items():
            if isinstance(s, (ast.Assign, ast.AnnAssign)) and getattr(s, "value", None) is setcall:
                targets = s.targets if isinstance(s, ast.Assign) else [s.target]
                for t in targets:
                    a = is_self_attr(t)
                    if a:
                        tok = a
        arg_ok = len(setcall.args) == 1 and unparse(setcall.args[0]) == "self"
        if tok is None:
            out.append(viol("R6a", en.qualname, f"{cv}:token-stored", f"the token returned by {cv}.set(..) is not stored on self: the previous context can never be restored", en.loc))
            continue
        if not arg_ok:
            out.append(viol("R6a", en.qualname, f"{cv}:set(self)", f"{cv}.set({unparse(setcall.args[0]) if setcall.args else ''}) does not install self as the active context", en.loc))
        is_set = lambda n: n not in (ENTRY, EXIT, RAISE) and isinstance(g.stmts[n], (ast.Assign, ast.AnnAssign)) and getattr(g.stmts[n], "value", None) is setcall
        if g.must_pass_through(is_set):
            out.append(ok("R6a", en.qualname, f"{cv}:token-stored", f"every normal path stores self.{tok} = {cv}.set(self)", en.loc))
        else:
            out.append(viol("R6a", en.qualname, f"{cv}:token-stored", f"a normal path of __enter__ skips {cv}.set(self): {_path_str(g, g.witness_path(is_set))}", en.loc))
        rets = [s for s in g.stmts.values() if isinstance(s, ast.Return)]
        if rets and all(r.value is not None and unparse(r.value) == "self" for r in rets):
            out.append(ok("R6a", en.qualname, "returns-self", "`with ctx as x` binds the context itself", en.loc))
        else:
            out.append(viol("R6a", en.qualname, "returns-self", "__enter__ does not return self on every path", en.loc))
        # wrapped context managers entered here
        wrapped = []
        for n in walk_no_nested(en.node):
            if isinstance(n, ast.Call) and isinstance(n.func, ast.Attribute) and n.func.attr == "__enter__":
                a = is_self_attr(n.func.value)
                if a:
                    wrapped.append(a)
        # ---- __exit__
        gx = build_cfg(ex.node)
        exc_params = [p.name for p in ex.call_params if p.kind == "pos"][:3]

        def is_reset(n: int) -> bool:
            return _node_has_call(
                gx, n,
                lambda call: isinstance(call.func, ast.Attribute) and call.func.attr == "reset" and unparse(call.func.value) == cv
                and len(call.args) == 1 and is_self_attr(call.args[0]) == tok,
            )

        if gx.must_pass_through(is_reset):
            out.append(ok("R6a", ex.qualname, f"{cv}:reset-on-all-paths", f"every normal path of __exit__ (also when the block raised) passes through {cv}.reset(self.{tok})", ex.loc))
        else:
            out.append(
                viol(
                    "R6a",
                    ex.qualname,
                    f"{cv}:reset-on-all-paths",
                    f"a normal path of __exit__ leaves without {cv}.reset(self.{tok}): the previously active context is not restored "
                    f"(witness: {_path_str(gx, gx.witness_path(is_reset))})",
                    ex.loc,
                )
            )
        # a wrong variable / token reset anywhere is a violation of its own
        for n, s in gx.stmts.items():
            for call in stmt_calls(s):
                if isinstance(call.func, ast.Attribute) and call.func.attr == "reset":
                    good = unparse(call.func.value) == cv and len(call.args) == 1 and is_self_attr(call.args[0]) == tok
                    if not good:
                        out.append(viol("R6a", ex.qualname, f"{cv}:reset-target", f"{unparse(call)} does not reset {cv} with the token stored by __enter__ (self.{tok})", f"{ex.module.relpath}:{call.lineno}"))
        # __exit__ must not swallow exceptions: returns None/False only
        bad_ret = [s for s in gx.stmts.values() if isinstance(s, ast.Return) and s.value is not None and not (isinstance(s.value, ast.Constant) and s.value.value in (None, False))]
        if bad_ret:
            out.append(viol("R6a", ex.qualname, "no-swallow", f"__exit__ returns {unparse(bad_ret[0].value)}: exceptions escaping the block may be swallowed", ex.loc))
        else:
            out.append(ok("R6a", ex.qualname, "no-swallow", "__exit__ returns None/False on every path", ex.loc))
        for w in wrapped:
            def is_wexit(n: int, w=w) -> bool:
                return _node_has_call(
                    gx, n,
                    lambda call: isinstance(call.func, ast.Attribute) and call.func.attr == "__exit__" and is_self_attr(call.func.value) == w,
                )

            if gx.must_pass_through(is_wexit):
                # exception triple forwarded in order
                calls = [call for s in gx.stmts.values() for call in stmt_calls(s) if isinstance(call.func, ast.Attribute) and call.func.attr == "__exit__" and is_self_attr(call.func.value) == w]
                fw = all([unparse(a) for a in call.args] == exc_params for call in calls)
                if fw:
                    out.append(ok("R6a", ex.qualname, f"wrapped:{w}", f"self.{w}.__exit__ called on every path with the exception triple forwarded", ex.loc))
                else:
                    out.append(viol("R6a", ex.qualname, f"wrapped:{w}", f"self.{w}.__exit__ is not given the exception triple {exc_params}", ex.loc))
            else:
                out.append(viol("R6a", ex.qualname, f"wrapped:{w}", f"a normal path of __exit__ does not leave the wrapped context self.{w} entered by __enter__: the operator registry stays switched (witness: {_path_str(gx, gx.witness_path(is_wexit))})", ex.loc))
    if not cms:
        out.append(unres("R6a", "cirkit", "context-managers", "no ContextVar-based context manager found"))
    return out


# ------------------------------------------------------------------------------------------ R6b
def _call_named(name: str):
    return lambda call: (dotted(call.func) or "").split(".")[-1] == name


def _norm_label(lab):
    """(test, value) with leading ``not`` stripped and the value flipped accordingly"""
    t, v = lab[0], lab[1]
    while isinstance(t, ast.UnaryOp) and isinstance(t.op, ast.Not):
        t, v = t.operand, (not v if isinstance(v, bool) else v)
    return t, v


def _guarded_by_false_edge(g: CFG, target_pred, test_pred) -> tuple[bool, list[int]]:
    """Every path ENTRY ->* (node satisfying target_pred) takes an edge labelled
    (test, False) with test_pred(test)."""
    def blocked(a, b, lab):
        if lab is None:
            return False
        t, v = _norm_label(lab)
        return v is False and test_pred(t)

    reach = reachable_avoiding_edges(g, blocked)
    hits = [n for n in reach if n not in (ENTRY, EXIT, RAISE) and target_pred(n)]
    return (not hits, hits)


def r6b(ctx: Ctx) -> list[Ob]:
    out: list[Ob] = []
    # --- AbstractCompiler.compile
    f = ctx.repo.func("cirkit.backend.compiler.AbstractCompiler.compile")
    g = build_cfg(f.node)
    sc = f.call_params[0].name if f.call_params else "sc"
    is_cp = lambda n: _node_has_call(g, n, _call_named("compile_pipeline"))
    test_is_compiled = lambda t: isinstance(t, ast.Call) and (dotted(t.func) or "").split(".")[-1] == "is_compiled" and t.args and unparse(t.args[0]) == sc
    cp_nodes = [n for n in g.stmts if is_cp(n)]
    if not cp_nodes:
        out.append(viol("R6b", f.qualname, "compiles", "compile() no longer calls compile_pipeline", f.loc))
    else:
        good, hits = _guarded_by_false_edge(g, is_cp, test_is_compiled)
        if good:
            out.append(ok("R6b", f.qualname, "memoised", f"compile_pipeline({sc}) is reached only when is_compiled({sc}) is false", f.loc))
        else:
            out.append(viol("R6b", f.qualname, "memoised", f"compile_pipeline can be reached without the is_compiled({sc}) test being false: compiling the same symbolic circuit again builds a second compiled object", f.loc))
    # the already-compiled world: returns reachable when is_compiled(sc) is true and not when it is false
    def blk(val):
        def b(a, bb, lab):
            if lab is None:
                return False
            t, v = _norm_label(lab)
            return test_is_compiled(t) and v is val
        return b

    when_true = reachable_avoiding_edges(g, blk(False))
    when_false = reachable_avoiding_edges(g, blk(True))
    true_rets = [g.stmts[n] for n in when_true - when_false if n not in (ENTRY, EXIT, RAISE) and isinstance(g.stmts[n], ast.Return)]
    if true_rets and all(isinstance(r.value, ast.Call) and (dotted(r.value.func) or "").split(".")[-1] == "get_compiled_circuit" and r.value.args and unparse(r.value.args[0]) == sc for r in true_rets):
        out.append(ok("R6b", f.qualname, "returns-registered", "the memoised branch returns get_compiled_circuit(sc)", f.loc))
    elif not true_rets:
        out.append(unres("R6b", f.qualname, "returns-registered", "no return statement specific to the already-compiled branch was found", f.loc))
    else:
        out.append(viol("R6b", f.qualname, "returns-registered", "the already-compiled branch does not return the registered compiled circuit of sc", f.loc))

    # --- TorchCompiler.compile_pipeline
    f = ctx.repo.func("cirkit.backend.torch.compiler.TorchCompiler.compile_pipeline")
    g = build_cfg(f.node)
    sc = f.call_params[0].name if f.call_params else "sc"
    loops = [s for s in g.stmts.values() if isinstance(s, ast.For)]
    loop = next((l for l in loops if isinstance(l.iter, ast.Call) and (dotted(l.iter.func) or "").split(".")[-1] == "pipeline_topological_ordering"), None)
    if loop is None:
        out.append(viol("R6b", f.qualname, "pipeline-order", "compile_pipeline does not iterate over pipeline_topological_ordering(..): operands may be compiled after (or never before) the circuits derived from them", f.loc))
    else:
        arg = loop.iter.args[0] if loop.iter.args else None
        if arg is not None and sc in {x.id for x in ast.walk(arg) if isinstance(x, ast.Name)}:
            out.append(ok("R6b", f.qualname, "pipeline-order", f"iterates over pipeline_topological_ordering([{sc}]) (operands first)", f.loc))
        else:
            out.append(viol("R6b", f.qualname, "pipeline-order", "the pipeline ordering is not rooted at the requested circuit", f.loc))
        var = unparse(loop.target)
        is_cc = lambda n: _node_has_call(g, n, lambda c: _call_named("_compile_circuit")(c) and c.args and unparse(c.args[0]) == var)
        test2 = lambda t: isinstance(t, ast.Call) and (dotted(t.func) or "").split(".")[-1] == "is_compiled" and t.args and unparse(t.args[0]) == var
        if not [n for n in g.stmts if is_cc(n)]:
            out.append(viol("R6b", f.qualname, "compiles-each", f"_compile_circuit({var}) is not called for the circuits of the pipeline", f.loc))
        else:
            good, _ = _guarded_by_false_edge(g, is_cc, test2)
            if good:
                out.append(ok("R6b", f.qualname, "compile-once", f"_compile_circuit({var}) only when is_compiled({var}) is false (operands compiled once)", f.loc))
            else:
                out.append(viol("R6b", f.qualname, "compile-once", f"_compile_circuit({var}) can run for an already compiled circuit: operands are recompiled (fresh parameters, broken sharing) or the bijection assert fires", f.loc))
    rets = [s for s in g.stmts.values() if isinstance(s, ast.Return)]
    if rets and all(isinstance(r.value, ast.Call) and (dotted(r.value.func) or "").split(".")[-1] == "get_compiled_circuit" and unparse(r.value.args[0]) == sc for r in rets):
        out.append(ok("R6b", f.qualname, "returns-registered", f"returns get_compiled_circuit({sc})", f.loc))
    else:
        out.append(viol("R6b", f.qualname, "returns-registered", "compile_pipeline does not return the registered compiled circuit of the requested symbolic circuit", f.loc))

    # --- TorchCompiler._compile_circuit
    f = ctx.repo.func("cirkit.backend.torch.compiler.TorchCompiler._compile_circuit")
    g = build_cfg(f.node)
    sc = f.call_params[0].name if f.call_params else "sc"
    dom = g.dominators()
    reg_nodes = [n for n in g.stmts if _node_has_call(g, n, _call_named("register_compiled_circuit"))]
    is_reg = lambda n: n in reg_nodes
    if g.must_pass_through(is_reg) and reg_nodes:
        out.append(ok("R6b", f.qualname, "registers", "every normal exit passes through register_compiled_circuit(..)", f.loc))
    else:
        out.append(viol("R6b", f.qualname, "registers", f"a normal exit of _compile_circuit skips register_compiled_circuit: the circuit is compiled again on the next request ({_path_str(g, g.witness_path(is_reg))})", f.loc))
    for rn in reg_nodes:
        call = next(c for c in stmt_calls(g.stmts[rn]) if _call_named("register_compiled_circuit")(c))
        a0 = unparse(call.args[0]) if call.args else "?"
        ccname = unparse(call.args[1]) if len(call.args) > 1 else "?"
        if a0 == sc:
            out.append(ok("R6b", f.qualname, "registers-key", f"registered under the symbolic circuit '{sc}'", f.loc))
        else:
            out.append(viol("R6b", f.qualname, "registers-key", f"registered under '{a0}', not under the symbolic circuit being compiled", f.loc))
        pp = [n for n, s in g.stmts.items() if isinstance(s, ast.Assign) and unparse(s.targets[0]) == ccname and _node_has_call(g, n, _call_named("_post_process_circuit"))]
        if pp and all(p in dom.get(rn, set()) for p in pp):
            # and no later re-assignment of cc between post-processing and registration
            later = [n for n, s in g.stmts.items() if isinstance(s, ast.Assign) and unparse(s.targets[0]) == ccname and n not in pp and pp[0] in dom.get(n, set())]
            if later:
                out.append(viol("R6b", f.qualname, "registers-postprocessed", f"'{ccname}' is re-assigned after post-processing and before registration", f.loc))
            else:
                out.append(ok("R6b", f.qualname, "registers-postprocessed", "the registered object is the post-processed (optimised / folded) circuit", f.loc))
        else:
            out.append(viol("R6b", f.qualname, "registers-postprocessed", "the registered circuit is not the post-processed one: the object returned and the object registered differ", f.loc))
        rp = [n for n in g.stmts if _node_has_call(g, n, lambda c: _call_named("reset_parameters")(c) and unparse(c.func).startswith(ccname + "."))]
        if rp and all(p in dom.get(rn, set()) for p in rp) and (not pp or all(pp[0] in dom.get(p, set()) for p in rp)):
            out.append(ok("R6b", f.qualname, "initialised-before-registered", "parameters are allocated on the post-processed circuit before it is registered", f.loc))
        else:
            out.append(viol("R6b", f.qualname, "initialised-before-registered", "reset_parameters() does not run on the post-processed circuit before registration", f.loc))
    fin = lambda n: _node_has_call(g, n, _call_named("finish_compilation"))
    if g.must_pass_through(fin):
        out.append(ok("R6b", f.qualname, "finish", "state.finish_compilation() on every normal exit", f.loc))
    else:
        out.append(viol("R6b", f.qualname, "finish", "a normal exit skips state.finish_compilation(): stale reverse parameter map leaks into the next compilation", f.loc))

    # --- pipeline_topological_ordering
    f = ctx.repo.func("cirkit.symbolic.circuit.pipeline_topological_ordering")
    txt = unparse(f.node)
    inner = [n for n in ast.walk(f.node) if isinstance(n, ast.FunctionDef) and n is not f.node]
    operands_ok = any("operation.operands" in unparse(i) for i in inner) or "operation.operands" in txt
    calls_topo = any(isinstance(n, ast.Call) and (dotted(n.func) or "") == "topological_ordering" for n in ast.walk(f.node))
    if operands_ok and calls_topo:
        out.append(ok("R6b", f.qualname, "operands-first", "topological ordering whose incoming edges are operation.operands", f.loc))
    else:
        out.append(viol("R6b", f.qualname, "operands-first", "the pipeline ordering is not the topological ordering over operation.operands", f.loc))
    return out


# ------------------------------------------------------------------------------------------ R6c
def r6c(ctx: Ctx) -> list[Ob]:
    out: list[Ob] = []
    bm = ctx.repo.cls("cirkit.utils.algorithms.BiMap")
    add = bm.methods.get("add")
    if add is None:
        raise AnalysisError("vanished anchor: BiMap.add")
    lhs, rhs = [p.name for p in add.call_params][:2]
    writes = {}
    for n in walk_no_nested(add.node):
        if isinstance(n, ast.Assign) and isinstance(n.targets[0], ast.Subscript):
            t = n.targets[0]
            a = is_self_attr(t.value)
            if a:
                writes[a] = (unparse(t.slice), unparse(n.value))
    lmap = next((a for a, (k, v) in writes.items() if k == lhs and v == rhs), None)
    rmap = next((a for a, (k, v) in writes.items() if k == rhs and v == lhs), None)
    if lmap and rmap and lmap != rmap:
        out.append(ok("R6c", add.qualname, "writes-both", f"self.{lmap}[{lhs}] = {rhs}; self.{rmap}[{rhs}] = {lhs}", add.loc))
    else:
        out.append(viol("R6c", add.qualname, "writes-both", f"add() does not write both directions consistently (found {writes}): the association stops being a bijection queryable both ways", add.loc))
        return out
    asserts = [unparse(n.test) for n in walk_no_nested(add.node) if isinstance(n, ast.Assert)]
    need = {f"not self.has_left({lhs})", f"not self.has_right({rhs})"}
    if need <= set(asserts):
        out.append(ok("R6c", add.qualname, "asserts-absent", "both sides asserted absent before insertion", add.loc))
    else:
        out.append(viol("R6c", add.qualname, "asserts-absent", f"add() no longer refuses an already mapped key on both sides (asserts: {asserts})", add.loc))
    for m, side in (("has_left", lmap), ("get_left", lmap), ("has_right", rmap), ("get_right", rmap)):
        f = bm.methods.get(m)
        if f is None:
            raise AnalysisError(f"vanished anchor: BiMap.{m}")
        reads = {is_self_attr(n) for n in walk_no_nested(f.node) if is_self_attr(n)}
        if reads == {side}:
            out.append(ok("R6c", f.qualname, "own-side", f"reads self.{side}", f.loc))
        else:
            out.append(viol("R6c", f.qualname, "own-side", f"{m} reads {sorted(x for x in reads if x)} instead of self.{side}", f.loc))
    # CompiledCircuitsMap: symbolic circuits are the left side
    cm = ctx.repo.cls("cirkit.backend.compiler.CompiledCircuitsMap")
    reg = cm.methods.get("register_compiled_circuit")
    if reg is None:
        raise AnalysisError("vanished anchor: CompiledCircuitsMap.register_compiled_circuit")
    call = next((n for n in walk_no_nested(reg.node) if isinstance(n, ast.Call) and isinstance(n.func, ast.Attribute) and n.func.attr == "add"), None)
    ps = [p.name for p in reg.call_params]
    if call is None or [unparse(a) for a in call.args] != ps[:2]:
        out.append(viol("R6c", reg.qualname, "delegates", "register_compiled_circuit does not add (symbolic, compiled) in this order", reg.loc))
    else:
        out.append(ok("R6c", reg.qualname, "delegates", f"add({ps[0]}, {ps[1]}): symbolic = left, compiled = right", reg.loc))
    expect = {"is_compiled": "has_left", "get_compiled_circuit": "get_left", "has_symbolic": "has_right", "get_symbolic_circuit": "get_right"}
    for m, tgt in expect.items():
        f = cm.methods.get(m)
        if f is None:
            raise AnalysisError(f"vanished anchor: CompiledCircuitsMap.{m}")
        p0 = f.call_params[0].name
        calls = [n for n in walk_no_nested(f.node) if isinstance(n, ast.Call) and isinstance(n.func, ast.Attribute) and n.func.attr in expect.values()]
        if len(calls) == 1 and calls[0].func.attr == tgt and [unparse(a) for a in calls[0].args] == [p0]:
            out.append(ok("R6c", f.qualname, "side", f"{m} -> {tgt}({p0})", f.loc))
        else:
            out.append(viol("R6c", f.qualname, "side", f"{m} queries {[c.func.attr for c in calls]} instead of {tgt}: symbolic/compiled lookups are crossed", f.loc))
    # AbstractCompiler delegates to the same-named method of the map
    ac = ctx.repo.cls("cirkit.backend.compiler.AbstractCompiler")
    for m in list(expect) + ["register_compiled_circuit"]:
        f = ac.methods.get(m)
        if f is None:
            raise AnalysisError(f"vanished anchor: AbstractCompiler.{m}")
        ps = [p.name for p in f.call_params]
        calls = [n for n in walk_no_nested(f.node) if isinstance(n, ast.Call) and isinstance(n.func, ast.Attribute) and is_self_attr(n.func.value) == "_compiled_circuits"]
        if len(calls) == 1 and calls[0].func.attr == m and [unparse(a) for a in calls[0].args] == ps:
            out.append(ok("R6c", f.qualname, "delegates", f"-> _compiled_circuits.{m}({', '.join(ps)})", f.loc))
        else:
            out.append(viol("R6c", f.qualname, "delegates", f"does not delegate to _compiled_circuits.{m} with its own arguments", f.loc))
    return out


# ------------------------------------------------------------------------------------------ R6d
OPS = ["concatenate", "integrate", "multiply", "differentiate", "conjugate"]


def r6d(ctx: Ctx) -> list[Ob]:
    out: list[Ob] = []
    pc = ctx.repo.cls("cirkit.pipeline.PipelineContext")
    for op in OPS:
        f = pc.methods.get(op)
        if f is None:
            raise AnalysisError(f"vanished anchor: PipelineContext.{op}")
        g = build_cfg(f.node)
        ld = LocalDefs(f.node)
        # compiled-circuit parameters: those whose name starts with 'cc'
        ccs = [p for p in f.call_params if p.name.startswith("cc")]
        others = [p for p in f.call_params if not p.name.startswith("cc")]
        # (1) SF.<op> called with registry=self._op_registry
        sf_calls = [n for n in walk_no_nested(f.node) if isinstance(n, ast.Call) and (dotted(n.func) or "") == f"SF.{op}"]
        if len(sf_calls) != 1:
            wrong = [dotted(n.func) for n in walk_no_nested(f.node) if isinstance(n, ast.Call) and (dotted(n.func) or "").startswith("SF.")]
            out.append(viol("R6d", f.qualname, "same-operator", f"PipelineContext.{op} calls {wrong} instead of SF.{op}: the compiled result is not the compilation of the corresponding symbolic operator", f.loc))
            continue
        sfc = sf_calls[0]
        kw = {k.arg: k.value for k in sfc.keywords if k.arg}
        if "registry" in kw and unparse(kw["registry"]) == "self._op_registry":
            out.append(ok("R6d", f.qualname, "registry", "registry=self._op_registry", f.loc))
        else:
            out.append(viol("R6d", f.qualname, "registry", "SF operator is not given the context's own operator registry", f.loc))
        # (2) every non-cc argument forwarded
        for p in others:
            used = any(isinstance(x, ast.Name) and x.id == p.name for a in list(sfc.args) + [k.value for k in sfc.keywords] for e in ld.expand(a) for x in ast.walk(e))
            if used:
                out.append(ok("R6d", f.qualname, f"forwards:{p.name}", f"{p.name} reaches SF.{op}", f.loc))
            else:
                out.append(viol("R6d", f.qualname, f"forwards:{p.name}", f"argument '{p.name}' is not forwarded to SF.{op}", f.loc))
        # (3) every cc is checked with has_symbolic before being mapped, and mapped with get_symbolic_circuit
        sfn = g.node_of(next(s for s in g.stmts.values() if any(c is sfc for c in stmt_calls(s))))
        for p in ccs:
            star = p.kind == "vararg"
            # guard: an `if not ...has_symbolic(x): raise`
            guards = []
            for n, s in g.stmts.items():
                if isinstance(s, ast.If) and any(isinstance(b, ast.Raise) for b in s.body):
                    t = s.test
                    if isinstance(t, ast.UnaryOp) and isinstance(t.op, ast.Not) and isinstance(t.operand, ast.Call) and (dotted(t.operand.func) or "").endswith("has_symbolic"):
                        argroots = {x.id for a in t.operand.args for e in ld.expand(a) for x in ast.walk(e) if isinstance(x, ast.Name)}
                        if p.name in argroots:
                            guards.append(n)
            dom = g.dominators()
            if guards and (star or any(gn in dom.get(sfn, set()) for gn in guards)):
                out.append(ok("R6d", f.qualname, f"known:{p.name}", f"unknown compiled circuit '{p.name}' is refused before the operator is applied", f.loc))
            else:
                out.append(viol("R6d", f.qualname, f"known:{p.name}", f"'{p.name}' is not checked with has_symbolic before SF.{op}", f.loc))
            mapped = False
            for a in sfc.args:
                for e in ld.expand(a):
                    for x in ast.walk(e):
                        if isinstance(x, ast.Call) and (dotted(x.func) or "").endswith("get_symbolic_circuit"):
                            roots = {y.id for aa in x.args for ee in ld.expand(aa) for y in ast.walk(ee) if isinstance(y, ast.Name)}
                            if p.name in roots:
                                mapped = True
            if mapped:
                out.append(ok("R6d", f.qualname, f"maps:{p.name}", "operand mapped to its symbolic circuit", f.loc))
            else:
                out.append(viol("R6d", f.qualname, f"maps:{p.name}", f"SF.{op} does not receive the symbolic circuit of '{p.name}'", f.loc))
        # operand order for binary operators
        if len(ccs) == 2 and len(sfc.args) >= 2:
            order = []
            for a in sfc.args[:2]:
                roots = {y.id for e in ld.expand(a) for y in ast.walk(e) if isinstance(y, ast.Name)} & {p.name for p in ccs}
                order.append(sorted(roots))
            if order == [[ccs[0].name], [ccs[1].name]]:
                out.append(ok("R6d", f.qualname, "operand-order", "operands passed in the given order", f.loc))
            else:
                out.append(viol("R6d", f.qualname, "operand-order", f"operands reach SF.{op} as {order}", f.loc))
        # (4) returns self.compile(result of SF call)
        rets = [s for s in g.stmts.values() if isinstance(s, ast.Return)]
        good = bool(rets)
        for r in rets:
            v = r.value
            if not (isinstance(v, ast.Call) and unparse(v.func) == "self.compile" and v.args and any(e is sfc for e in ld.expand(v.args[0]))):
                good = False
        if good:
            out.append(ok("R6d", f.qualname, "returns-compiled", f"returns self.compile(SF.{op}(..))", f.loc))
        else:
            out.append(viol("R6d", f.qualname, "returns-compiled", f"does not return the compilation of the SF.{op} result", f.loc))
    # module-level functions
    m = ctx.repo.module("cirkit.pipeline")
    cvname = next((k for k, v in m.globals.items() if isinstance(v, ast.Call) and (dotted(v.func) or "").split(".")[-1] == "ContextVar"), None)
    for op in ["compile"] + OPS:
        f = m.functions.get(op)
        if f is None:
            raise AnalysisError(f"vanished anchor: cirkit.pipeline.{op}")
        g = build_cfg(f.node)
        # ctx resolved from the context variable when None
        resolves = False
        for s in g.stmts.values():
            if isinstance(s, ast.If) and unparse(s.test) == "ctx is None":
                for b in s.body:
                    if isinstance(b, ast.Assign) and unparse(b.targets[0]) == "ctx" and unparse(b.value) == f"{cvname}.get()":
                        resolves = True
        if resolves:
            out.append(ok("R6d", f.qualname, "active-context", f"ctx defaults to {cvname}.get()", f.loc))
        else:
            out.append(viol("R6d", f.qualname, "active-context", "the function does not resolve the active pipeline context when ctx is None", f.loc))
        rets = [s for s in g.stmts.values() if isinstance(s, ast.Return)]
        good = bool(rets)
        msg = ""
        for r in rets:
            v = r.value
            if not (isinstance(v, ast.Call) and unparse(v.func) == f"ctx.{op}"):
                good, msg = False, f"returns {unparse(v)} instead of ctx.{op}(..)"
                continue
            passed = {x.id for a in list(v.args) + [k.value for k in v.keywords] for x in ast.walk(a) if isinstance(x, ast.Name)}
            for p in f.call_params:
                if p.name != "ctx" and p.name not in passed:
                    good, msg = False, f"argument '{p.name}' not forwarded to ctx.{op}"
            for k in v.keywords:
                if k.arg and isinstance(k.value, ast.Name) and k.arg != k.value.id:
                    good, msg = False, f"keyword {k.arg}= fed by '{k.value.id}'"
        if good:
            out.append(ok("R6d", f.qualname, "delegates", f"-> ctx.{op}(all arguments)", f.loc))
        else:
            out.append(viol("R6d", f.qualname, "delegates", msg or "does not delegate", f.loc))
    # PipelineContext.compile delegates to the compiler's memoised compile
    f = pc.methods.get("compile")
    if f is not None and "self._compiler.compile(sc)" in unparse(f.node):
        out.append(ok("R6d", f.qualname, "delegates", "-> self._compiler.compile(sc)", f.loc))
    else:
        out.append(viol("R6d", "cirkit.pipeline.PipelineContext.compile", "delegates", "does not delegate to the compiler's memoised compile", pc.loc))
    return out


# ------------------------------------------------------------------------------------------ R6g
def r6g(ctx: Ctx, modules: tuple[str, ...] = ("cirkit",)) -> list[Ob]:
    """R6g -- a generator-based context manager restores in ``finally``.

    ``contextlib.contextmanager`` throws an exception that escapes the ``with`` block *into* the
    generator at its ``yield``: statements after the ``yield`` run only on a normal exit.  Whatever
    such a generator undoes (``<ContextVar>.reset(token)``, a ``__exit__`` call, a restore of saved
    state) has to sit in the ``finally`` of a ``try`` that contains the ``yield`` -- or inside a
    ``with`` that the ``yield`` is nested in.  C18 promises the restoration "also when an exception
    escapes the block"."""
    out: list[Ob] = []
    n_gen = 0
    for f in ctx.repo.iter_functions():
        if not f.module.name.startswith(modules):
            continue
        if not any(d.split(".")[-1] in ("contextmanager", "asynccontextmanager") for d in f.decorators):
            continue
        n_gen += 1
        par: dict[int, ast.AST] = {}
        for n in ast.walk(f.node):
            for ch in ast.iter_child_nodes(n):
                par[id(ch)] = n
        yields = [n for n in ast.walk(f.node) if isinstance(n, (ast.Yield, ast.YieldFrom))]
        undo = [n for n in ast.walk(f.node) if isinstance(n, ast.Call) and isinstance(n.func, ast.Attribute) and n.func.attr in ("reset", "__exit__", "restore", "close", "release")]
        bad = []
        for u in undo:
            # after some yield (textually) and not in a finally of a try containing that yield
            for y in yields:
                if u.lineno <= y.lineno:
                    continue
                cur: ast.AST | None = u
                protected = False
                while cur is not None and cur is not f.node:
                    up = par.get(id(cur))
                    if isinstance(up, ast.Try) and any(cur is s or any(cur is d for d in ast.walk(s)) for s in up.finalbody) and any(y is d for s in up.body for d in ast.walk(s)):
                        protected = True
                    cur = up
                if not protected:
                    bad.append((u, y))
        if bad:
            u, y = bad[0]
            out.append(viol("R6g", f.qualname, "restore-in-finally", f"`{unparse(u)[:50]}` follows the yield (line {y.lineno}) outside a finally: when an exception escapes the with-block it is raised at the yield and the restoration is skipped -- the exited context stays active", f"{f.module.relpath}:{u.lineno}"))
        else:
            out.append(ok("R6g", f.qualname, "restore-in-finally", "everything undone after the yield sits in a finally (or nothing is undone)", f.loc))
    out.append(ok("R6g", "cirkit", "generator-context-managers", f"{n_gen} generator-based context manager(s)", "", nontrivial=False))
    return out
