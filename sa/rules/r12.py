"""R12a (must-consult, simplified) -- the optimiser must take the graph's outputs into account
before it fuses a matched sub-graph: a non-root entry of a match that is itself an output of the
graph disappears when the match is replaced, so some decision between matching and rewriting has
to depend on *membership in outputs*.

Decided on ``cirkit.backend.torch.graph.optimize``: in the functions that receive ``outputs``
(optimize_graph, match_optimization_patterns), a membership test / set operation whose container
derives from ``outputs`` (def-use; the selection of the *roots* ``outputs if pattern.is_output()
else ordering`` is not such a test) must exist.  If ``outputs`` is handed to another callee the
rule gives no verdict (unresolved)."""
from __future__ import annotations

import ast

from ..core import Ctx, Ob, ok, unres, viol
from ..flow import LocalDefs
from ..model import AnalysisError, unparse

MOD = "cirkit.backend.torch.graph.optimize"


def _derived(ld: LocalDefs, seed: str) -> set[str]:
    """names that hold the *same collection* as ``seed`` (possibly converted to list/set/tuple)"""
    d = {seed}

    def same_collection(e: ast.AST) -> bool:
        if isinstance(e, ast.Name):
            return e.id in d
        if isinstance(e, ast.Call) and isinstance(e.func, ast.Name) and e.func.id in ("list", "set", "frozenset", "tuple") and len(e.args) == 1:
            return same_collection(e.args[0])
        if isinstance(e, ast.IfExp):
            if any(isinstance(x, ast.Attribute) and x.attr == "is_output" for x in ast.walk(e.test)):
                return False  # root selection, not a membership decision
            return same_collection(e.body) or same_collection(e.orelse)
        return False

    changed = True
    while changed:
        changed = False
        for name, defs in ld.defs.items():
            if name not in d and any(same_collection(e) for e in defs):
                d.add(name)
                changed = True
    return d


def r12a_outputs(ctx: Ctx) -> list[Ob]:
    m = ctx.repo.module(MOD)
    fs = [f for f in m.functions.values() if any(p.name == "outputs" for p in f.params)]
    anchor = m.functions.get("match_optimization_patterns")
    if anchor is None or not fs:
        raise AnalysisError("vanished anchor: graph.optimize.match_optimization_patterns / a function taking `outputs`")
    tests: list[str] = []
    escapes: list[str] = []
    for f in fs:
        ld = LocalDefs(f.node)
        d = _derived(ld, "outputs")
        for n in ast.walk(f.node):
            if isinstance(n, ast.Compare) and any(isinstance(o, (ast.In, ast.NotIn)) for o in n.ops):
                if any(isinstance(x, ast.Name) and x.id in d for c in n.comparators for x in ast.walk(c)):
                    tests.append(f"{f.name}:{unparse(n)[:60]}")
            elif isinstance(n, ast.Call) and isinstance(n.func, ast.Attribute) and n.func.attr in ("isdisjoint", "intersection", "issubset", "issuperset", "difference"):
                if any(isinstance(x, ast.Name) and x.id in d for x in ast.walk(n)):
                    tests.append(f"{f.name}:{unparse(n)[:60]}")
            elif isinstance(n, ast.BinOp) and isinstance(n.op, (ast.BitAnd, ast.Sub)) and any(isinstance(x, ast.Name) and x.id in d for x in ast.walk(n)):
                tests.append(f"{f.name}:{unparse(n)[:60]}")
            elif isinstance(n, ast.Call):
                callee = unparse(n.func)
                if callee in ("list", "isinstance", "set", "frozenset", "tuple", "len") or callee.split(".")[-1] in [g.name for g in fs]:
                    continue
                for a in list(n.args) + [k.value for k in n.keywords]:
                    if isinstance(a, ast.Name) and a.id in d and a.id != "modules":
                        escapes.append(f"{f.name}:{callee}({a.id})")
    inst = "interior-output"
    if tests:
        return [ok("R12a", anchor.qualname, inst, f"membership in the graph's outputs is consulted: {tests[:3]}", anchor.loc)]
    # callers may bind the outputs into the matcher / adjacency callbacks (closure, partial, lambda)
    for g in ctx.repo.iter_functions():
        for n in ast.walk(g.node):
            if isinstance(n, ast.Call) and unparse(n.func).split(".")[-1] in ("optimize_graph", "match_optimization_patterns"):
                for k in n.keywords:
                    if k.arg in ("pattern_matcher_fn", "outcomings_fn", "incomings_fn"):
                        v = k.value
                        plain = isinstance(v, ast.Attribute) or (isinstance(v, ast.Name) and (ctx.repo.get_function(g.module, v) is not None or v.id in [p.name for p in g.params]))
                        if not plain:
                            escapes.append(f"{g.name}:{k.arg}={unparse(v)[:40]}")
    if escapes:
        return [unres("R12a", anchor.qualname, inst, f"outputs handed to {escapes[:3]}: not followed", anchor.loc)]
    return [
        viol(
            "R12a",
            anchor.qualname,
            inst,
            "no decision between pattern matching and rewriting depends on membership in the graph's `outputs` (they are only used to "
            "select the roots of output patterns and to re-map the outputs afterwards): a match whose non-root entry is itself an output "
            "of the circuit (and has a single consumer) is fused, and that output is silently replaced by the value of the fused layer",
            anchor.loc,
        )
    ]
