"""Name-table agreement: in ``match name:`` dispatchers of cirkit.templates.utils each string case
must construct the class it names (``"softmax"`` -> ``SoftmaxParameter``, ``"categorical"`` ->
``CategoricalLayer`` ...).  The class is the first class constructed / partially applied on the
case's return path; agreement = the last '-'-separated token of the case string occurs in the
lower-cased class name.  A case whose return builds no repository class is skipped."""
from __future__ import annotations

import ast

from ..core import Ctx, Ob, ok, unres, viol
from ..model import AnalysisError, unparse

UTILS = "cirkit.templates.utils"


def name_table(ctx: Ctx, func: str, only: set[str] | None = None, require: int = 1) -> list[Ob]:
    fq = f"{UTILS}.{func}"
    f = ctx.repo.func(fq)
    out: list[Ob] = []
    n_cases = 0
    for m in ast.walk(f.node):
        if not isinstance(m, ast.Match):
            continue
        for case in m.cases:
            pat = case.pattern
            if not (isinstance(pat, ast.MatchValue) and isinstance(pat.value, ast.Constant) and isinstance(pat.value.value, str)):
                continue
            key = pat.value.value
            if only is not None and key not in only:
                continue
            built = []
            for s in case.body:
                for n in ast.walk(s):
                    if isinstance(n, ast.Return) and n.value is not None:
                        for c in ast.walk(n.value):
                            if isinstance(c, ast.Name):
                                ci = ctx.repo.get_class(f.module, c)
                                if ci is not None:
                                    built.append(ci.name)
            l = f"{f.module.relpath}:{case.pattern.lineno}"
            inst = f"case:{key}"
            if not built:
                continue
            n_cases += 1
            token = key.split("-")[-1].lower()
            if token in built[0].lower():
                out.append(ok("N1", fq, inst, f"'{key}' builds {built[0]}", l))
            else:
                out.append(viol("N1", fq, inst, f"the name '{key}' builds {built[0]}: callers that ask for '{key}' (templates, default parameterisations) silently get another class", l))
    if n_cases < require:
        raise AnalysisError(f"floor missed: N1 found {n_cases} named cases in {fq}, expected at least {require}")
    return out
