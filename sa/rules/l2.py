"""L2 -- the permutation that turns a Kronecker layer of pair blocks into the Kronecker order of the
two operands (``multiply_kronecker_layers``).

The product of two Kronecker layers over inputs i_1..i_n (K1 units each) and j_1..j_n (K2 units each)
is built as a Kronecker layer over the n pair blocks -- block k has its units laid out [i_k, j_k], so
the layer's output is laid out [i_1, j_1, ..., i_n, j_n] -- followed by a sum layer whose constant
weight must bring the units into the documented order of ``multiply``: the Kronecker order of
(operand 1's output, operand 2's output) = [i_1, .., i_n, j_1, .., j_n].

The weight is built with numpy (identity matrix or index vector, reshape, transpose, reshape, fancy
indexing).  The layout typing of ``sa.layout`` follows those calls symbolically -- an identity matrix
has one atom on both axes, ``reshape`` splits it, ``transpose`` permutes the parts, an ``arange`` index
vector carries the layout of the *values* it enumerates, gathering an identity by it transfers that
value layout to the other axis -- and yields the element order of the weight's rows and columns in
terms of the same 2n parts.  Decided:

  * the columns, in order, have the sizes [K1, K2, K1, K2, ...] of the Kronecker layer's output
    (otherwise the weight is contracted against units it does not describe);
  * binding column part k to the k-th atom of [i_1, j_1, .., i_n, j_n], the rows read
    [i_1, .., i_n, j_1, .., j_n].
"""

from __future__ import annotations

from ..core import Ctx, Ob, ok, unres, viol
from ..dims import Dim
from ..layout import PARTS, expand_parts, fmt
from ..shapes import ClassV, Frame, Interp, IntV, ObjV, ParamV, PathLimit, ShapeError, State, TensorV, TupleV, mkint

FQ = "cirkit.symbolic.operators.multiply_kronecker_layers"
KRON = "cirkit.symbolic.layers.KroneckerLayer"


def run(ctx: Ctx) -> list[Ob]:
    repo = ctx.repo
    f = repo.func(FQ)
    kc = repo.cls(KRON)
    init = repo.lookup(kc, "__init__")
    assert init is not None
    obs: list[Ob] = []
    for n in (2, 3):
        inst = f"permutation[arity={n}]"
        it = Interp(repo)
        st = State()
        PARTS.clear()
        try:
            ops = []
            s_ = st
            for tag in ("1", "2"):
                built = list(it.construct(ClassV(kc), [], {"num_input_units": IntV(Dim.sym("K" + tag)), "arity": mkint(n)}, s_, Frame(init, 0)))
                if not built:
                    break
                o, s_ = built[0]
                ops.append(o)
            if len(ops) != 2:
                obs.append(unres("L2", FQ, inst, "operands not constructed", f.loc))
                continue
            res = list(it.call(f, ops, {}, s_))
            if not res:
                obs.append(unres("L2", FQ, inst, "the rule refuses Kronecker operands of equal arity", f.loc))
                continue
            rv, s2 = res[0]
            layers = list(rv.items) if isinstance(rv, TupleV) else [rv]
            sum_sl = layers[-1]
            w = s2.heap.get(sum_sl.oid, {}).get("weight") if isinstance(sum_sl, ObjV) else None
            node = s2.heap.get(w.pid, {}).get("node") if isinstance(w, ParamV) else None
            val = s2.heap.get(node.oid, {}).get("value") if isinstance(node, ObjV) else None
            if not isinstance(val, TensorV) or val.lay is None or len(val.lay) != 2 or val.lay[0] is None or val.lay[1] is None:
                obs.append(unres("L2", FQ, inst, f"element order of the constant weight not derived ({val!r})", f.loc))
                continue
            rows, cols = expand_parts(val.lay[0]), expand_parts(val.lay[1])
            k1, k2 = Dim.sym("K1"), Dim.sym("K2")
            want_sizes = [k1, k2] * n
            if len(cols) != 2 * n or len(rows) != 2 * n:
                obs.append(unres("L2", FQ, inst, f"weight laid out rows {fmt(rows)} cols {fmt(cols)}: not 2n parts", f.loc))
                continue
            got_sizes = [s2.norm(d) for _, d in cols]
            if got_sizes != want_sizes:
                obs.append(viol("L2", FQ, inst, f"the columns of the permutation weight are laid out {fmt(cols)} with sizes {got_sizes}, but the Kronecker layer of pair blocks outputs [i_1, j_1, .., i_n, j_n] with sizes {want_sizes}: the weight permutes other positions than the ones it is applied to (visible whenever K1 != K2)", f.loc))
                continue
            names = [f"{'ij'[k % 2]}{k // 2 + 1}" for k in range(2 * n)]
            bind = {lab: nm for (lab, _), nm in zip(cols, names)}
            out_order = [bind.get(lab, "?") for lab, _ in rows]
            want = [f"i{k + 1}" for k in range(n)] + [f"j{k + 1}" for k in range(n)]
            if out_order == want:
                obs.append(ok("L2", FQ, inst, f"rows {out_order} for columns {names}", f.loc))
            else:
                obs.append(viol("L2", FQ, inst, f"the permutation maps the Kronecker layer's units {names} to {out_order}; the product's units must be in the Kronecker order of (operand 1, operand 2) = {want}", f.loc))
        except ShapeError as e:
            obs.append(viol("L2", FQ, inst, f"{e.msg} [{e.where}]", f.loc))
        except (PathLimit, RecursionError):
            obs.append(unres("L2", FQ, inst, "path limit", f.loc))
    return obs


if __name__ == "__main__":
    import sys

    roots = [a for a in sys.argv[1:] if not a.startswith("-")]
    for o in run(Ctx(roots[0] if roots else None)):
        print(o.status.upper(), o.line()[:500])
