"""L1 -- index-layout obligation for the product of two sum layers (simplified extractors).

(b) functional.multiply lists the inputs of the product of two sum layers as
    ``itertools.product(l1_inputs, l2_inputs)``  -> input order [H1, H2], each product block has
    units in Kronecker order [Ki1, Ki2]  => column order of the expected weight [H1, H2, Ki1, Ki2].
(c) the MULTIPLICATION rule for (SumLayer, SumLayer) builds the weight as a plain Kronecker product
    of the two weight matrices whose columns are [H1, Ki1] and [H2, Ki2]  => [H1, Ki1, H2, Ki2].
The two coincide only if ``sl2.arity == 1 or sl1.num_input_units == 1``.  Obligation: the rule
restricts itself to those cases (a raise guarded by arity / unit counts), or re-lays the weight
through a column re-indexing (IndexParameter), whose permutation R14q decides as a polynomial identity.
"""
from __future__ import annotations

import ast

from ..core import Ctx, Ob, ok, unres, viol
from ..flow import LocalDefs
from ..model import AnalysisError, unparse
from . import r2

PNODE = "cirkit.symbolic.parameters.ParameterNode"


def l1(ctx: Ctx) -> list[Ob]:
    rules = [r for r in r2.operator_rules(ctx) if r.kind == "MULTIPLICATION" and [c.name for _, c in r.operands] == ["SumLayer", "SumLayer"]]
    if not rules:
        raise AnalysisError("vanished anchor: MULTIPLICATION rule for (SumLayer, SumLayer)")
    out: list[Ob] = []
    mul = ctx.repo.func("cirkit.symbolic.functional.multiply")
    listing = [
        n
        for n in ast.walk(mul.node)
        if isinstance(n, ast.Call) and unparse(n.func) in ("itertools.product", "product") and len(n.args) == 2 and all("inputs" in unparse(a) for a in n.args)
    ]
    for r in rules:
        f = r.fn
        fq = f.qualname
        ld = LocalDefs(f.node)
        p1, p2 = [p.name for p in f.call_params][:2]
        ctor = [c for c in ast.walk(f.node) if isinstance(c, ast.Call) and isinstance(c.func, ast.Name) and c.func.id == "SumLayer"]
        if len(ctor) != 1:
            out.append(unres("L1", fq, "layout", "the rule does not build exactly one SumLayer", f.loc))
            continue
        kw = {k.arg: k.value for k in ctor[0].keywords}
        arity = kw.get("arity")
        weight = kw.get("weight")
        if arity is None or weight is None:
            out.append(unres("L1", fq, "layout", "arity / weight of the product layer not passed by keyword", f.loc))
            continue
        ar_txt = unparse(arity).replace(" ", "")
        multi = {ar_txt} <= {f"{p1}.arity*{p2}.arity", f"{p2}.arity*{p1}.arity"}
        if not multi:
            out.append(unres("L1", fq, "layout", f"arity of the product is {ar_txt}: not the product of the operand arities", f.loc))
            continue
        if not listing:
            out.append(unres("L1", fq, "layout", "functional.multiply no longer lists the inputs with itertools.product(l1_inputs, l2_inputs)", f.loc))
            continue
        guards = [
            n
            for n in ast.walk(f.node)
            if isinstance(n, ast.If) and any(isinstance(x, ast.Raise) for x in ast.walk(n)) and any(isinstance(x, ast.Attribute) and x.attr in ("arity", "num_input_units") for x in ast.walk(n.test))
        ]
        pnode_calls = []
        for c in ld.calls(weight):
            ci = ctx.repo.get_class(f.module, c.func) if isinstance(c.func, (ast.Name, ast.Attribute)) else None
            if ci is not None and ctx.repo.is_subclass(ci, PNODE):
                pnode_calls.append(ci.name)
        l = f"{f.module.relpath}:{ctor[0].lineno}"
        if guards:
            out.append(ok("L1", fq, "layout", "the rule refuses the operand shapes for which the Kronecker column order differs from the input listing order", l))
        elif pnode_calls == ["KroneckerParameter"]:
            out.append(
                viol(
                    "L1",
                    fq,
                    "layout",
                    "the product of two sum layers gets arity sl1.arity*sl2.arity and the plain Kronecker product of the two weight matrices: "
                    "its columns are ordered [H1, Ki1, H2, Ki2], while functional.multiply lists the inputs as itertools.product(l1_inputs, "
                    "l2_inputs) with Kronecker-ordered units, i.e. [H1, H2, Ki1, Ki2]; the two differ whenever sl2.arity > 1 and "
                    "sl1.num_input_units > 1, and nothing restricts the rule to the other cases: the product circuit is not c1*c2 there",
                    l,
                )
            )
        elif "IndexParameter" in pnode_calls and "KroneckerParameter" in pnode_calls:
            # re-laid through a column re-indexing: the permutation itself is decided by R14q (polynomial identity)
            from . import r14

            sub = [o for o in r14.kronecker_sum_weight_layout(ctx, fq) if o.instance.startswith("kronecker-columns")]
            bad = [o for o in sub if o.status == "violation"]
            und = [o for o in sub if o.status == "unresolved"]
            if bad:
                out.append(viol("L1", fq, "layout", "the Kronecker weight is re-indexed, but not to the order in which multiply lists the inputs: " + bad[0].msg, l))
            elif und:
                out.append(unres("L1", fq, "layout", "the Kronecker weight is re-indexed; the permutation was not derived: " + und[0].msg, l))
            else:
                out.append(ok("L1", fq, "layout", "the Kronecker weight [H1, Ki1, H2, Ki2] is re-indexed to the listing order [H1, H2, Ki1, Ki2] (R14q: polynomial identity of the index expression)", l))
        else:
            out.append(unres("L1", fq, "layout", f"weight built through {pnode_calls}: layout not derived", l))
    return out
