"""R4r / R4p -- shape consistency of the symbolic operator rules and of the compile rules.

R4r  Every layer operator rule in ``DEFAULT_OPERATOR_RULES`` (integrate_*, multiply_*, differentiate_*,
     conjugate_*) is interpreted (``sa.shapes``) on abstract operand layers -- built by interpreting
     the symbolic layer constructors themselves on symbolic sizes, so that each parameter has the
     shape its own layer validates -- and must, *for all sizes*:
       * compose parameter nodes with operands of exactly the shapes the nodes were built for
         (what ``Parameter.__init__`` checks at run time),
       * hand the resulting layer's constructor parameters of the shape it validates (strict mode:
         an equality of two different size polynomials counts as violated -- it fails for some
         sizes; when the sizes happen to coincide the wrong axes are combined silently),
       * return a layer with the promised number of units: Ko for integrate / differentiate /
         conjugate, Ko1 * Ko2 for multiply.
R4p  Every compile rule of a parameter operator maps the symbolic node to a torch node with the same
     declared shape (and the same normalised axis): symbolic ``shape`` == torch ``shape`` for input
     ranks 1..3 and every axis.
"""

from __future__ import annotations

import ast
import itertools
from typing import Any, Iterator

from ..core import Ctx, Ob, ok, unres, viol
from ..dims import Dim, fmt_shape
from ..model import ClassInfo, FuncInfo
from ..shapes import (
    NONE, BoolV, ClassV, FloatV, Frame, Interp, IntV, NoneV, ObjV, ParamV, PathLimit, ScopeV, ShapeError, State, TensorV, TupleV,
    Unknown, V, mkint, new_param,
)
from . import r1, r2, r4

DV = Dim.sym("Dv")


def _sym_layer_choices(ctx: Ctx, c: ClassInfo, tag: str) -> Iterator[tuple[str, dict[str, Any]]]:
    """abstract constructor arguments of a symbolic layer class; sizes carry the operand tag"""
    init = ctx.repo.lookup(c, "__init__")
    assert init is not None
    names: list[str] = []
    cands: list[list[tuple[str, Any]]] = []
    for p in init.params:
        if p.name == "self":
            continue
        ann = ast.unparse(p.annotation).replace(" ", "") if p.annotation is not None else ""
        n = p.name
        names.append(n)
        if n == "scope":
            cands.append([("", lambda st: ScopeV(DV))])
        elif n == "arity":
            cands.append([(f"arity={h}", lambda st, h=h: mkint(h)) for h in r4.arities_of(ctx)])
        elif n.endswith("_factory"):
            cands.append([("", lambda st: NONE)])
        elif "Parameter" in ann:
            alts: list[tuple[str, Any]] = [(n, lambda st, n=n: new_param(st, f"{tag}.{n}", None, Dim.const(1)))]
            if "None" in ann and n in ("logits", "probs", "log_partition"):
                alts = [("", lambda st: NONE)] + alts
            cands.append(alts)
        elif ann == "bool":
            cands.append([(f"{n}=True", lambda st: BoolV(True)), (f"{n}=False", lambda st: BoolV(False))])
        elif ann == "int" or n in ("num_input_units", "num_output_units"):
            short = {"num_input_units": "Ki", "num_output_units": "Ko"}.get(n, n)
            cands.append([("", lambda st, s=f"{short}{tag}": IntV(Dim.sym(s)))])
        else:
            cands.append([("", lambda st, n=n: Unknown(f"symbolic ctor parameter {n}"))])
    for combo in itertools.product(*cands):
        t = ",".join(x for x, _ in combo if x)
        yield t, {n: f for n, (_, f) in zip(names, combo)}


def _build_sym(ctx: Ctx, it: Interp, c: ClassInfo, st: State, choice: dict[str, Any]) -> list[tuple[ObjV, State]]:
    init = ctx.repo.lookup(c, "__init__")
    assert init is not None
    kwargs = {n: f(st) for n, f in choice.items()}
    return list(it.construct(ClassV(c), [], kwargs, st, Frame(init, 0)))  # type: ignore[arg-type]


def _units(st: State, v: V) -> Dim | None:
    if isinstance(v, ObjV):
        x = st.heap.get(v.oid, {}).get("num_output_units")
        if isinstance(x, IntV):
            return st.norm(x.d)
    return None


def operator_rule_shapes(ctx: Ctx, kinds: set[str]) -> list[Ob]:
    obs: list[Ob] = []
    for rule in r2.operator_rules(ctx):
        if rule.kind not in kinds:
            continue
        f = rule.fn
        tags = ["1", "2"][: len(rule.operands)] if len(rule.operands) > 1 else [""]
        per_operand = [list(_sym_layer_choices(ctx, c, t)) for (_, c), t in zip(rule.operands, tags)]
        n_cfg = 0
        prod = ctx.repo.cls("cirkit.symbolic.layers.ProductLayer")
        both_products = len(rule.operands) == 2 and all(ctx.repo.is_subclass(c, prod) for _, c in rule.operands)
        for combo in itertools.product(*per_operand):
            tag = "|".join(t for t, _ in combo if t)
            if both_products and len({t for t, _ in combo}) > 1:
                continue  # functional.multiply only pairs product layers with the same number of inputs
            it = Interp(ctx.repo)
            st = State()
            try:
                # operands: built one after the other in the same state
                states: list[tuple[list[ObjV], State]] = [([], st)]
                for (pn, c), (_, choice) in zip(rule.operands, combo):
                    nxt = []
                    for objs, s_ in states:
                        for o, s2 in _build_sym(ctx, it, c, s_, choice):
                            nxt.append((objs + [o], s2))
                    states = nxt
                if not states:
                    continue
                for objs, s_ in states:
                    n_cfg += 1
                    obs.extend(_one_rule(ctx, rule, f, objs, s_, tag))
            except ShapeError as e:
                obs.append(viol("R4r", f.qualname, f"shapes[{tag}]", f"{e.msg} [{e.where}]", f.loc))
            except (PathLimit, RecursionError):
                obs.append(unres("R4r", f.qualname, f"shapes[{tag}]", "path limit", f.loc))
        if n_cfg == 0:
            obs.append(unres("R4r", f.qualname, "shapes", "no admissible abstract operands", f.loc))
    return r4._dedup(obs)


def _one_rule(ctx: Ctx, rule: r2.OpRule, f: FuncInfo, objs: list[ObjV], st: State, tag: str) -> list[Ob]:
    out: list[Ob] = []
    inst = f"shapes[{tag}]" if tag else "shapes"
    orders = list(r4.orders_of(ctx)) if rule.kind == "DIFFERENTIATION" else [None]
    for order in orders:
        it = Interp(ctx.repo)
        it.strict = True
        s0 = st.copy()
        kwargs: dict[str, V] = {}
        pnames = {p.name for p in f.params}
        if "scope" in pnames:
            kwargs["scope"] = ScopeV(Dim.sym("Dint"))
        if "var_idx" in pnames:
            kwargs["var_idx"] = mkint(0)
        if order is not None and "order" in pnames:
            kwargs["order"] = mkint(order)
        i2 = inst if order is None else inst[:-1] + f",order={order}]" if inst.endswith("]") else f"{inst}[order={order}]"
        try:
            results = list(it.call(f, list(objs), kwargs, s0))
        except ShapeError as e:
            out.append(viol("R4r", f.qualname, i2, f"{e.msg} [{e.where}]", f.loc))
            continue
        except (PathLimit, RecursionError):
            out.append(unres("R4r", f.qualname, i2, "path limit", f.loc))
            continue
        if it.strict_failures:
            out.append(viol("R4r", f.qualname, i2, it.strict_failures[0], f.loc))
            continue
        if not results:
            if it.strict_raises:
                out.append(viol("R4r", f.qualname, i2, f"the layer / parameter node this rule builds is rejected by its own constructor for these operands ({it.strict_raises[-1]}): the sizes the rule hands over cannot satisfy the constructor's validation", f.loc))
            else:
                out.append(ok("R4r", f.qualname, i2, "refuses these operands on every path", f.loc, nontrivial=False))
            continue
        kos = [_units(s0, o) for o in objs]
        for rv, s2 in results:
            layers = list(rv.items) if isinstance(rv, TupleV) else [rv]
            last = layers[-1] if layers else None
            got = _units(s2, last) if last is not None else None
            if got is None or any(k is None for k in kos):
                out.append(unres("R4r", f.qualname, i2, f"result layer not resolved: {rv!r}", f.loc))
                continue
            want = s2.norm(kos[0] * kos[1]) if rule.kind == "MULTIPLICATION" and len(kos) == 2 else s2.norm(kos[0])  # type: ignore[operator]
            if got == want:
                out.append(ok("R4r", f.qualname, i2, f"parameters fit for all sizes; {got!r} output units", f.loc))
            else:
                out.append(viol("R4r", f.qualname, i2, f"the resulting layer has {got!r} output units, the operator promises {want!r}", f.loc))
    return out


# ------------------------------------------------------------------------------- R4p


def param_rule_shapes(ctx: Ctx) -> list[Ob]:
    obs: list[Ob] = []
    repo = ctx.repo
    pop = repo.cls("cirkit.symbolic.parameters.ParameterOp")
    for row in r1.registry_rows(ctx, r1.PARAM_REG):
        sc = row.key
        if not repo.is_subclass(sc, pop):
            continue
        init = repo.lookup(sc, "__init__")
        if init is None:
            continue
        names = [p.name for p in init.params if p.name != "self"]
        shape_params = [n for n in names if "shape" in n]
        if not shape_params:
            obs.append(unres("R4p", row.rule.qualname, "shape", "symbolic constructor outside the enumerated forms", row.loc))
            continue
        tname = "Torch" + sc.name
        ranks = r4.RANK_DOMAIN.get(tname, r4.ranks_of(ctx))
        for r in ranks:
            axes: list[int | None] = list(range(r)) + [-1] if "axis" in names else [None]
            for ax in axes:
                inst = f"shape[rank={r}" + (f",axis={ax}]" if ax is not None else "]")
                it = Interp(repo)
                st = State()
                kwargs: dict[str, V] = {}
                for i, n in enumerate(shape_params):
                    kwargs[n] = TupleV(tuple(IntV(Dim.sym(f"{'abcd'[i]}{k}")) for k in range(r)))
                if ax is not None:
                    kwargs["axis"] = mkint(ax)
                if "order" in names:
                    kwargs["order"] = mkint(1)
                if "indices" in names:
                    kwargs["indices"] = TupleV((mkint(0), mkint(0)), "list")
                if "vmin" in names:
                    kwargs["vmin"], kwargs["vmax"] = FloatV(0.0), FloatV(1.0)
                try:
                    built = list(it.construct(ClassV(sc), [], kwargs, st, Frame(init, 0)))
                    if not built:
                        continue
                    for p, s2 in built:
                        try:
                            sshapes = list(it.getattr(p, "shape", s2, Frame(init, 0)))
                        except ShapeError:
                            continue
                        for sv, s3 in sshapes:
                            outs = list(it.call(row.rule, [Unknown("compiler"), p], {}, s3))
                            if not outs:
                                obs.append(viol("R4p", row.rule.qualname, inst, f"the torch constructor refuses the {sc.name} this rule compiles (for every path)", row.loc))
                                continue
                            for tv, s4 in outs:
                                if not isinstance(tv, ObjV):
                                    obs.append(unres("R4p", row.rule.qualname, inst, f"compiled node not resolved: {tv!r}", row.loc))
                                    continue
                                for tshape, s5 in it.getattr(tv, "shape", s4, Frame(init, 0)):
                                    if not (isinstance(sv, TupleV) and isinstance(tshape, TupleV) and all(isinstance(x, IntV) for x in sv.items + tshape.items)):
                                        obs.append(unres("R4p", row.rule.qualname, inst, f"shapes not resolved: {sv!r} / {tshape!r}", row.loc))
                                        continue
                                    a = tuple(s5.norm(x.d) for x in sv.items)  # type: ignore[union-attr]
                                    b = tuple(s5.norm(x.d) for x in tshape.items)  # type: ignore[union-attr]
                                    sax = s5.heap.get(p.oid, {}).get("_axis")
                                    tax = s5.heap.get(tv.oid, {}).get("dim")
                                    if a != b:
                                        obs.append(viol("R4p", row.rule.qualname, inst, f"symbolic {sc.name}.shape = {fmt_shape(a)} but the compiled {tv.cls.name}.shape = {fmt_shape(b)}", row.loc))
                                    elif isinstance(sax, IntV) and isinstance(tax, IntV) and s5.norm(sax.d) != s5.norm(tax.d):
                                        obs.append(viol("R4p", row.rule.qualname, inst, f"symbolic axis {s5.norm(sax.d)!r} compiled to dim {s5.norm(tax.d)!r}", row.loc))
                                    else:
                                        obs.append(ok("R4p", row.rule.qualname, inst, f"{fmt_shape(a)}" + (f", axis {s5.norm(sax.d)!r}" if isinstance(sax, IntV) else ""), row.loc))
                except ShapeError as e:
                    obs.append(viol("R4p", row.rule.qualname, inst, f"{e.msg} [{e.where}]", row.loc))
                except (PathLimit, RecursionError):
                    obs.append(unres("R4p", row.rule.qualname, inst, "path limit", row.loc))
    return r4._dedup(obs)


if __name__ == "__main__":
    import sys

    roots = [a for a in sys.argv[1:] if not a.startswith("-")]
    cx = Ctx(roots[0] if roots else None)
    for o in operator_rule_shapes(cx, {"INTEGRATION", "MULTIPLICATION", "DIFFERENTIATION", "CONJUGATION"}) + param_rule_shapes(cx):
        if o.status != "ok" or "-v" in sys.argv:
            print(o.status.upper(), o.line()[:330])
