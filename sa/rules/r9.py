"""R9 -- infeasible kind dispatch: a path from the true branch of ``isinstance(v, A)`` to
``assert isinstance(v, B)`` with A and B disjoint is a definite crash on every A node."""

from __future__ import annotations

import ast

from ..cfg import ENTRY, EXIT, RAISE, build_cfg
from ..core import Ctx, Ob, note, ok, unres, viol
from ..model import FuncInfo, dotted, unparse
from .r8 import _pruned_reach


def _isinstance_test(t: ast.AST) -> tuple[str, ast.AST] | None:
    if isinstance(t, ast.Call) and dotted(t.func) == "isinstance" and len(t.args) == 2 and isinstance(t.args[0], ast.Name):
        return t.args[0].id, t.args[1]
    return None


def disjoint(ctx: Ctx, m, a: ast.AST, b: ast.AST) -> bool | None:
    ca, cb = ctx.repo.get_class(m, a), ctx.repo.get_class(m, b)
    if ca is None or cb is None:
        return None
    if ctx.repo.is_subclass(ca, cb) or ctx.repo.is_subclass(cb, ca):
        return False
    for c in ctx.repo.classes.values():
        if ctx.repo.is_subclass(c, ca) and ctx.repo.is_subclass(c, cb):
            return False
    return True


def r9_function(ctx: Ctx, f: FuncInfo) -> list[Ob]:
    out: list[Ob] = []
    g = build_cfg(f.node)
    for n, s in list(g.stmts.items()):
        if not isinstance(s, ast.If):
            continue
        it = _isinstance_test(s.test)
        if it is None:
            continue
        var, cls_a = it
        env = {unparse(s.test): True}
        # start from the true successors only
        starts = [b for b, lab in g.succ[n] if lab is not None and lab[1] is True]
        reach: set[int] = set()
        # nodes that re-bind var end the analysis of this branch (next loop iteration, assignment)
        rebinding = {n}
        for k, sk in g.stmts.items():
            tgt = None
            if isinstance(sk, (ast.For, ast.AsyncFor)):
                tgt = sk.target
            elif isinstance(sk, ast.Assign):
                tgt = ast.Tuple(elts=list(sk.targets), ctx=ast.Store())
            elif isinstance(sk, (ast.AnnAssign, ast.AugAssign)):
                tgt = sk.target
            if tgt is not None and any(isinstance(x, ast.Name) and x.id == var and isinstance(x.ctx, ast.Store) for x in ast.walk(tgt)):
                rebinding.add(k)
        for st in starts:
            r, _ = _pruned_reach(g, env, st, stop=rebinding)
            reach |= (r - rebinding) | ({st} - rebinding)
        hit = None
        for k in reach:
            sk = g.stmts.get(k)
            if isinstance(sk, ast.Assert):
                jt = _isinstance_test(sk.test)
                if jt and jt[0] == var and disjoint(ctx, f.module, cls_a, jt[1]) is True:
                    # make sure var is not re-bound on the way: conservative check in the branch body
                    rebound = any(isinstance(x, ast.Name) and x.id == var and isinstance(x.ctx, ast.Store) for b in s.body for x in ast.walk(b))
                    if not rebound:
                        hit = (k, jt[1])
        inst = f"isinstance({var},{unparse(cls_a)})"
        if hit is not None:
            k, cls_b = hit
            path = None
            for st in starts:
                path = path or g.witness_path(lambda x: x in rebinding, start=st, target=k)
            out.append(
                viol(
                    "R9",
                    f.qualname,
                    inst,
                    f"the branch taken for {unparse(cls_a)} nodes falls through to `assert isinstance({var}, {unparse(cls_b)})` "
                    f"(disjoint classes): every {unparse(cls_a)} node crashes with AssertionError. path: "
                    + " -> ".join(g.describe(p) for p in (path or [])[:8]),
                    f"{f.module.relpath}:{s.lineno}",
                )
            )
        else:
            out.append(ok("R9", f.qualname, inst, "the branch never reaches an assertion of a disjoint kind", f"{f.module.relpath}:{s.lineno}"))
    return out


def r9(ctx: Ctx, funcs: list[str]) -> list[Ob]:
    out: list[Ob] = []
    for q in funcs:
        out += r9_function(ctx, ctx.repo.func(q))
    return out


def r9_sweep(ctx: Ctx) -> list[Ob]:
    out: list[Ob] = []
    for f in ctx.repo.iter_functions():
        out += [o for o in r9_function(ctx, f)]
    return out


# ------------------------------------------------------------------------------------------ R9u
def root_units(ctx: Ctx, fq: str = "cirkit.templates.region_graph.graph.RegionGraph.build_circuit") -> list[Ob]:
    """R9u -- the layer a *root* region ends up with has ``num_classes`` output units.

    ``build_circuit`` records the layer of every region in ``node_to_layer`` and returns the layers
    of the root regions as outputs.  Every store ``node_to_layer[<region>] = L`` (in the function
    and in its nested builders; the stores for partition nodes are exempt) is either control-
    dependent on the region having consumers (``if region_outputs`` / ``if self.region_outputs(..)``:
    not a root), or ``L`` is built with ``num_classes`` -- directly or through a local defined as
    ``num_sum_units if <region outputs> else num_classes`` -- as its number of output units.  A
    store that satisfies neither hands a root region a layer with another number of units: a region
    graph whose root is a leaf region (one variable, depth 0) then ignores ``num_classes``."""
    from ..flow import LocalDefs

    f = ctx.repo.func(fq)
    out: list[Ob] = []
    funcs: list[ast.AST] = [f.node] + [n for n in ast.walk(f.node) if isinstance(n, ast.FunctionDef) and n is not f.node]
    par: dict[int, ast.AST] = {}
    for n in ast.walk(f.node):
        for ch in ast.iter_child_nodes(n):
            par[id(ch)] = n

    def owner(n: ast.AST) -> ast.AST:
        cur = par.get(id(n))
        while cur is not None and not isinstance(cur, ast.FunctionDef):
            cur = par.get(id(cur))
        return cur if cur is not None else f.node

    def mentions_outputs(t: ast.AST) -> bool:
        return any((isinstance(x, ast.Name) and x.id == "region_outputs") or (isinstance(x, ast.Attribute) and x.attr == "region_outputs") for x in ast.walk(t))

    lds: dict[int, LocalDefs] = {}
    n_sites = 0
    for st in ast.walk(f.node):
        if not (isinstance(st, ast.Assign) and len(st.targets) == 1 and isinstance(st.targets[0], ast.Subscript) and isinstance(st.targets[0].value, ast.Name) and st.targets[0].value.id == "node_to_layer"):
            continue
        fn = owner(st)
        ld = lds.setdefault(id(fn), LocalDefs(fn))  # type: ignore[arg-type]
        # exempt: partition nodes (inside `if isinstance(<x>, PartitionNode)`)
        cur: ast.AST | None = st
        partition = False
        guarded = False
        while cur is not None and cur is not fn:
            up = par.get(id(cur))
            if isinstance(up, ast.If) and any(cur is b for b in up.body):
                if any(isinstance(x, ast.Name) and x.id == "PartitionNode" for x in ast.walk(up.test)):
                    partition = True
                tests_ = [up.test] + ([d for d in ld.defs.get(up.test.id, []) if isinstance(d, ast.expr)] if isinstance(up.test, ast.Name) else [])
                if any(mentions_outputs(t_) for t_ in tests_) and not (isinstance(up.test, ast.UnaryOp) and isinstance(up.test.op, ast.Not)):
                    guarded = True
            cur = up
        if partition:
            continue
        n_sites += 1
        loc = f"{f.module.relpath}:{st.lineno}"
        inst = f"root-units:{unparse(st.value)[:20]}@{getattr(fn, 'name', '?')}"
        if guarded:
            out.append(ok("R9u", f.qualname, inst, "stored only for regions that have consumers (not a root)", loc))
            continue

        def units_ok(e: ast.AST, depth: int = 3) -> bool | None:
            if isinstance(e, ast.Name) and depth:
                ds = [d for d in ld.defs.get(e.id, []) if isinstance(d, ast.expr)]
                # the definition that reaches the store on the straight line before it (a loop variable
                # of the same name bound earlier does not)
                before = [d for d in ds if getattr(d, "lineno", 0) <= st.lineno]
                if before:
                    last = max(getattr(d, "lineno", 0) for d in before)
                    ds = [d for d in before if getattr(d, "lineno", 0) == last]
                if not ds:
                    return None
                rs = [units_ok(d, depth - 1) for d in ds]
                return None if any(r is None for r in rs) else all(rs)
            if isinstance(e, ast.Call):
                cand = [k.value for k in e.keywords if k.arg == "num_output_units"] or ([e.args[1]] if len(e.args) > 1 else [])
                if not cand:
                    return False
                u = cand[0]
                if any(isinstance(x, ast.Name) and x.id == "num_classes" for x in ast.walk(u)):
                    return True
                if isinstance(u, ast.Name):
                    for d in ld.defs.get(u.id, []):
                        if isinstance(d, ast.IfExp) and mentions_outputs(d.test) and any(isinstance(x, ast.Name) and x.id == "num_classes" for x in ast.walk(d.orelse)):
                            return True
                return False
            return None

        r = units_ok(st.value)
        if r is True:
            out.append(ok("R9u", f.qualname, inst, "built with num_classes output units when the region is a root", loc))
        elif r is False:
            out.append(viol("R9u", f.qualname, inst, f"`{unparse(st)[:70]}` is reached for a region without consumers (a root) and the stored layer is not built with num_classes output units: a region graph whose root is a leaf region (one variable, depth 0, a (n, 1, 1) image) returns a circuit with another number of output units than requested", loc))
        else:
            out.append(unres("R9u", f.qualname, inst, "the stored layer was not resolved to a constructor / factory call: no verdict", loc))
    if n_sites == 0:
        from ..model import AnalysisError

        raise AnalysisError("R9u: no store into node_to_layer in build_circuit (anchor vanished)")
    return out


# ------------------------------------------------------------------------------------------ R9n
def builders_never_refuse(ctx: Ctx, fq: str = "cirkit.templates.region_graph.graph.RegionGraph.build_circuit") -> list[Ob]:
    """R9n -- the builders of the named sum-product abstractions do not refuse a region graph.

    C16 promises that building a circuit with *any* supported layer abstraction succeeds on every
    region graph the algorithms return.  The nested builders (one per abstraction) are called for
    every partition of every region; a ``raise`` inside one whose condition depends on the layers
    below (their numbers of units) refuses region graphs on which another abstraction succeeds.  The
    units below one partition legitimately differ: an input region has ``num_input_units`` units, an
    inner region ``num_sum_units`` -- any unbalanced tree (LinearTree(3), RandomBinaryTree(3), odd
    quad trees, Chow-Liu) has a partition mixing the two."""
    f = ctx.repo.func(fq)
    out: list[Ob] = []
    nested = [n for n in ast.walk(f.node) if isinstance(n, ast.FunctionDef) and n is not f.node]
    for b in nested:
        raises = [r for r in ast.walk(b) if isinstance(r, ast.Raise)]
        loc = f"{f.module.relpath}:{b.lineno}"
        if not raises:
            out.append(ok("R9n", f.qualname, f"refuses:{b.name}", "no refusal in this builder", loc))
        parb: dict[int, ast.AST] = {}
        for x in ast.walk(b):
            for ch in ast.iter_child_nodes(x):
                parb[id(ch)] = x
        for r in raises:
            # the finding is keyed by the builder *and* what the refusal says, so that another refusal
            # added to the same builder is a new violation, not the known one
            # (keyed by the message literal, which survives renaming / hoisting of locals; the text of
            # the condition does not)
            lits = [c.value for c in ast.walk(r) if isinstance(c, ast.Constant) and isinstance(c.value, str)]
            cond = lits[0][:32].strip() if lits else f"raise#{raises.index(r)}"
            out.append(viol("R9n", f.qualname, f"refuses:{b.name}:{cond}", f"the builder refuses (`{unparse(r.exc)[:80] if r.exc is not None else 'raise'}`) when the layers below one partition differ in their number of units, which they do on every unbalanced region graph as soon as num_input_units != num_sum_units", f"{f.module.relpath}:{r.lineno}"))
    if not nested:
        out.append(unres("R9n", f.qualname, "refuses", "no nested builder (another formulation): no verdict", f.loc))
    return out
