"""R9 -- infeasible kind dispatch: a path from the true branch of ``isinstance(v, A)`` to
``assert isinstance(v, B)`` with A and B disjoint is a definite crash on every A node."""

from __future__ import annotations

import ast

from ..cfg import ENTRY, EXIT, RAISE, build_cfg
from ..core import Ctx, Ob, note, ok, unres, viol
from ..model import FuncInfo, dotted, unparse
from .r8 import _pruned_reach


def _isinstance_test(t: ast.AST) -> tuple[str, ast.AST] | None:
    if isinstance(t, ast.Call) and dotted(t.func) == "isinstance" and len(t.args) == 2 and isinstance(t.args[0], ast.Name):
        return t.args[0].id, t.args[1]
    return None


def disjoint(ctx: Ctx, m, a: ast.AST, b: ast.AST) -> bool | None:
    ca, cb = ctx.repo.get_class(m, a), ctx.repo.get_class(m, b)
    if ca is None or cb is None:
        return None
    if ctx.repo.is_subclass(ca, cb) or ctx.repo.is_subclass(cb, ca):
        return False
    for c in ctx.repo.classes.values():
        if ctx.repo.is_subclass(c, ca) and ctx.repo.is_subclass(c, cb):
            return False
    return True


def r9_function(ctx: Ctx, f: FuncInfo) -> list[Ob]:
    out: list[Ob] = []
    g = build_cfg(f.node)
    for n, s in list(g.stmts.items()):
        if not isinstance(s, ast.If):
            continue
        it = _isinstance_test(s.test)
        if it is None:
            continue
        var, cls_a = it
        env = {unparse(s.test): True}
        # start from the true successors only
        starts = [b for b, lab in g.succ[n] if lab is not None and lab[1] is True]
        reach: set[int] = set()
        # nodes that re-bind var end the analysis of this branch (next loop iteration, assignment)
        rebinding = {n}
        for k, sk in g.stmts.items():
            tgt = None
            if isinstance(sk, (ast.For, ast.AsyncFor)):
                tgt = sk.target
            elif isinstance(sk, ast.Assign):
                tgt = ast.Tuple(elts=list(sk.targets), ctx=ast.Store())
            elif isinstance(sk, (ast.AnnAssign, ast.AugAssign)):
                tgt = sk.target
            if tgt is not None and any(isinstance(x, ast.Name) and x.id == var and isinstance(x.ctx, ast.Store) for x in ast.walk(tgt)):
                rebinding.add(k)
        for st in starts:
            r, _ = _pruned_reach(g, env, st, stop=rebinding)
            reach |= (r - rebinding) | ({st} - rebinding)
        hit = None
        for k in reach:
            sk = g.stmts.get(k)
            if isinstance(sk, ast.Assert):
                jt = _isinstance_test(sk.test)
                if jt and jt[0] == var and disjoint(ctx, f.module, cls_a, jt[1]) is True:
                    # make sure var is not re-bound on the way: conservative check in the branch body
                    rebound = any(isinstance(x, ast.Name) and x.id == var and isinstance(x.ctx, ast.Store) for b in s.body for x in ast.walk(b))
                    if not rebound:
                        hit = (k, jt[1])
        inst = f"isinstance({var},{unparse(cls_a)})"
        if hit is not None:
            k, cls_b = hit
            path = None
            for st in starts:
                path = path or g.witness_path(lambda x: x in rebinding, start=st, target=k)
            out.append(
                viol(
                    "R9",
                    f.qualname,
                    inst,
                    f"the branch taken for {unparse(cls_a)} nodes falls through to `assert isinstance({var}, {unparse(cls_b)})` "
                    f"(disjoint classes): every {unparse(cls_a)} node crashes with AssertionError. path: "
                    + " -> ".join(g.describe(p) for p in (path or [])[:8]),
                    f"{f.module.relpath}:{s.lineno}",
                )
            )
        else:
            out.append(ok("R9", f.qualname, inst, "the branch never reaches an assertion of a disjoint kind", f"{f.module.relpath}:{s.lineno}"))
    return out


def r9(ctx: Ctx, funcs: list[str]) -> list[Ob]:
    out: list[Ob] = []
    for q in funcs:
        out += r9_function(ctx, ctx.repo.func(q))
    return out


def r9_sweep(ctx: Ctx) -> list[Ob]:
    out: list[Ob] = []
    for f in ctx.repo.iter_functions():
        out += [o for o in r9_function(ctx, f)]
    return out
