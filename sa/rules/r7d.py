"""R7d -- definition shape of the structural-property predicates (C08, first sentence).

is_smooth        :  FORALL sum layer s, FORALL input i of s :  scope(s) == scope(i)
is_decomposable  :  FORALL product layer p, FORALL unordered pair (a, b) of inputs of p :
                    scope(a) and scope(b) are disjoint
stronger predicates (is_structured_decomposable, are_compatible) answer False whenever an operand
is not smooth or not decomposable, and structured-decomposability requires exactly one
factorization per scope.

Matched semantically (quantifier after pushing ``not`` inwards, domain, comparator); a form the
matcher does not recognise is *unresolved* (no verdict), a recognised form with the wrong
quantifier / comparator / domain is a violation."""
from __future__ import annotations

import ast

from ..boolexpr import ALWAYS, fires
from ..core import Ctx, Ob, ok, unres, viol
from ..model import AnalysisError, FuncInfo, unparse, walk_no_nested

CIRCUIT = "cirkit.symbolic.circuit.Circuit"


def _single_return(f: FuncInfo) -> ast.AST | None:
    rets = [r for r in walk_no_nested(f.node) if isinstance(r, ast.Return) and r.value is not None]
    return rets[0].value if len(rets) == 1 else None


def _quantified(e: ast.AST) -> tuple[str, ast.AST, list[ast.comprehension], bool] | None:
    """-> (quantifier 'all'|'any', element, generators, negated-as-a-whole)"""
    neg = False
    while isinstance(e, ast.UnaryOp) and isinstance(e.op, ast.Not):
        neg, e = not neg, e.operand
    if isinstance(e, ast.Call) and isinstance(e.func, ast.Name) and e.func.id in ("all", "any") and len(e.args) == 1 and isinstance(e.args[0], (ast.GeneratorExp, ast.ListComp)):
        return e.func.id, e.args[0].elt, e.args[0].generators, neg
    return None


def _strip_not(e: ast.AST) -> tuple[ast.AST, bool]:
    neg = False
    while isinstance(e, ast.UnaryOp) and isinstance(e.op, ast.Not):
        neg, e = not neg, e.operand
    return e, neg


def _scope_of(e: ast.AST) -> str | None:
    """self.layer_scope(X) -> 'X'"""
    if isinstance(e, ast.Call) and isinstance(e.func, ast.Attribute) and e.func.attr == "layer_scope" and len(e.args) == 1 and isinstance(e.args[0], ast.Name):
        return e.args[0].id
    return None


def _overlap_polarity(e: ast.AST) -> tuple[bool, tuple[str, str]] | None:
    """element says 'the two scopes overlap' (True) or 'are disjoint' (False), with the two layer names"""
    e, neg = _strip_not(e)
    pol = None
    pair = None
    if isinstance(e, ast.Call) and isinstance(e.func, ast.Name) and e.func.id == "bool" and len(e.args) == 1:
        e = e.args[0]
    if isinstance(e, ast.BinOp) and isinstance(e.op, ast.BitAnd):
        a, b = _scope_of(e.left), _scope_of(e.right)
        if a and b:
            pol, pair = True, (a, b)
    elif isinstance(e, ast.Compare) and len(e.ops) == 1 and isinstance(e.left, ast.Call) and isinstance(e.left.func, ast.Name) and e.left.func.id == "len" and isinstance(e.comparators[0], ast.Constant) and e.comparators[0].value == 0:
        inner = e.left.args[0] if e.left.args else None
        if isinstance(inner, ast.BinOp) and isinstance(inner.op, ast.BitAnd):
            a, b = _scope_of(inner.left), _scope_of(inner.right)
            if a and b:
                pair = (a, b)
                if isinstance(e.ops[0], ast.Eq):
                    pol = False
                elif isinstance(e.ops[0], (ast.Gt, ast.NotEq)):
                    pol = True
    elif isinstance(e, ast.Call) and isinstance(e.func, ast.Attribute) and e.func.attr == "isdisjoint" and len(e.args) == 1:
        a, b = _scope_of(e.func.value), _scope_of(e.args[0])
        if a and b:
            pol, pair = False, (a, b)
    if pol is None or pair is None:
        return None
    return (pol != neg), pair


def _gen_over_attr(g: ast.comprehension, attr: str) -> str | None:
    """for X in self.<attr>  -> 'X'"""
    if isinstance(g.iter, ast.Attribute) and g.iter.attr == attr and isinstance(g.target, ast.Name) and not g.ifs:
        return g.target.id
    return None


def _which_layers(g: ast.comprehension) -> str | None:
    return g.iter.attr if isinstance(g.iter, ast.Attribute) and isinstance(g.iter.value, ast.Name) and g.iter.value.id == "self" else None


def is_smooth_shape(ctx: Ctx) -> Ob:
    c = ctx.repo.cls(CIRCUIT)
    f = c.methods.get("is_smooth")
    if f is None:
        raise AnalysisError("vanished anchor: Circuit.is_smooth")
    fq, inst = f.qualname, "definition"
    q = _quantified(_single_return(f)) if _single_return(f) is not None else None
    if q is None or len(q[2]) != 2:
        return unres("R7d", fq, inst, "not a single quantified expression over two generators: no verdict", f.loc)
    quant, elt, gens, neg = q
    if gens[1].ifs:
        return viol("R7d", fq, inst, f"the inputs of a sum layer are filtered (`if {unparse(gens[1].ifs[0])[:50]}`) before their scopes are compared: smoothness is a statement about *every* input of every sum -- an exempted input (e.g. one with an empty scope next to one that depends on variables) makes a non-smooth sum pass, and with it integrate's guard, structured decomposability and compatibility", f.loc)
    if gens[0].ifs:
        return unres("R7d", fq, inst, "the sum layers are selected by a filter: no verdict", f.loc)
    dom = _which_layers(gens[0])
    s = gens[0].target.id if isinstance(gens[0].target, ast.Name) else None
    it2 = gens[1].iter
    inputs_of_s = isinstance(it2, ast.Call) and isinstance(it2.func, ast.Attribute) and it2.func.attr == "layer_inputs" and len(it2.args) == 1 and isinstance(it2.args[0], ast.Name) and it2.args[0].id == s
    i = gens[1].target.id if isinstance(gens[1].target, ast.Name) else None
    if dom is None or s is None or i is None or not inputs_of_s:
        return unres("R7d", fq, inst, "domain not in the recognised form (sum layers x their inputs): no verdict", f.loc)
    e, eneg = _strip_not(elt)
    if not (isinstance(e, ast.Compare) and len(e.ops) == 1):
        return unres("R7d", fq, inst, f"element {unparse(elt)} not a single comparison: no verdict", f.loc)
    a, b = _scope_of(e.left), _scope_of(e.comparators[0])
    if {a, b} != {s, i}:
        return unres("R7d", fq, inst, "the comparison does not relate the scope of the sum layer with the scope of its input: no verdict", f.loc)
    op = type(e.ops[0])
    if op not in (ast.Eq, ast.NotEq):
        return viol("R7d", fq, inst, f"smoothness compares the scopes with `{unparse(elt)}`: the definition is scope *equality* of a sum layer and each of its inputs", f.loc)
    says_equal = (op is ast.Eq) != eneg
    # forall equal  ==  all(equal) / not any(not equal)
    good = (quant == "all" and not neg and says_equal) or (quant == "any" and neg and not says_equal)
    if dom != "sum_layers":
        return viol("R7d", fq, inst, f"smoothness quantifies over self.{dom}, not over the sum layers", f.loc)
    if good:
        return ok("R7d", fq, inst, "FORALL sum layers, FORALL inputs: scope equality", f.loc)
    return viol("R7d", fq, inst, f"`{unparse(_single_return(f))[:120]}` is not 'every sum layer has same-scope inputs' (wrong quantifier or polarity)", f.loc)


def is_decomposable_shape(ctx: Ctx) -> Ob:
    c = ctx.repo.cls(CIRCUIT)
    f = c.methods.get("is_decomposable")
    if f is None:
        raise AnalysisError("vanished anchor: Circuit.is_decomposable")
    fq, inst = f.qualname, "definition"
    r = _single_return(f)
    q = _quantified(r) if r is not None else None
    if q is None or len(q[2]) != 2 or any(g.ifs for g in q[2]):
        return unres("R7d", fq, inst, "not a single quantified expression over two unfiltered generators: no verdict", f.loc)
    quant, elt, gens, neg = q
    dom = _which_layers(gens[0])
    p = gens[0].target.id if isinstance(gens[0].target, ast.Name) else None
    it2 = gens[1].iter
    pair_t = gens[1].target
    comb = (
        isinstance(it2, ast.Call)
        and unparse(it2.func) in ("itertools.combinations", "combinations")
        and len(it2.args) == 2
        and isinstance(it2.args[0], ast.Call)
        and isinstance(it2.args[0].func, ast.Attribute)
        and it2.args[0].func.attr == "layer_inputs"
        and len(it2.args[0].args) == 1
        and isinstance(it2.args[0].args[0], ast.Name)
        and it2.args[0].args[0].id == p
    )
    adjacent = (
        isinstance(it2, ast.Call)
        and unparse(it2.func) in ("itertools.pairwise", "pairwise")
        and len(it2.args) == 1
        and isinstance(it2.args[0], ast.Call)
        and isinstance(it2.args[0].func, ast.Attribute)
        and it2.args[0].func.attr == "layer_inputs"
    ) or (
        isinstance(it2, ast.Call)
        and unparse(it2.func) == "zip"
        and len(it2.args) == 2
        and isinstance(it2.args[1], ast.Subscript)
        and isinstance(it2.args[1].slice, ast.Slice)
    )
    if adjacent and dom is not None:
        return viol("R7d", fq, inst, f"decomposability only compares *adjacent* inputs (`{unparse(it2)[:80]}`): the definition is disjointness of every unordered pair, so the answer depends on the order a product lists its inputs", f.loc)
    if dom is None or p is None or not comb or not (isinstance(pair_t, ast.Tuple) and len(pair_t.elts) == 2 and all(isinstance(x, ast.Name) for x in pair_t.elts)):
        return unres("R7d", fq, inst, "domain not in the recognised form (product layers x combinations(inputs, 2)): no verdict", f.loc)
    k = it2.args[1]
    if not (isinstance(k, ast.Constant) and k.value == 2):
        return viol("R7d", fq, inst, f"decomposability looks at combinations of size {unparse(k)}: the definition is *pairwise* disjointness", f.loc)
    op = _overlap_polarity(elt)
    if op is None or set(op[1]) != {x.id for x in pair_t.elts}:
        return unres("R7d", fq, inst, f"element {unparse(elt)} not a recognised overlap / disjointness test of the pair: no verdict", f.loc)
    overlap = op[0]
    good = (quant == "any" and neg and overlap) or (quant == "all" and not neg and not overlap)
    if dom != "product_layers":
        return viol("R7d", fq, inst, f"decomposability quantifies over self.{dom}, not over the product layers", f.loc)
    if good:
        return ok("R7d", fq, inst, "FORALL product layers, FORALL unordered input pairs: disjoint scopes", f.loc)
    return viol("R7d", fq, inst, f"`{unparse(r)[:120]}` is not 'every product has pairwise disjoint-scope inputs' (wrong quantifier or polarity)", f.loc)


def preconditions(ctx: Ctx, fq: str, atoms: list[str]) -> list[Ob]:
    """the predicate returns False whenever one of the atoms is False"""
    f = ctx.repo.func(fq)
    out: list[Ob] = []
    body = [s for s in f.node.body if not (isinstance(s, ast.Expr) and isinstance(s.value, ast.Constant))]
    final = _single_return_top(body)
    for a in atoms:
        got = False
        for s in body:
            if isinstance(s, ast.If) and s.body and isinstance(s.body[-1], ast.Return) and isinstance(s.body[-1].value, ast.Constant) and s.body[-1].value.value is False and not s.orelse:
                v, _ = fires(s.test, {a: False})
                if v == ALWAYS:
                    got = True
                    break
            elif isinstance(s, (ast.If, ast.For, ast.While, ast.With, ast.Try)):
                break  # other control flow before the guard: stop, be conservative
        if not got and final is not None and isinstance(final, ast.BoolOp) and isinstance(final.op, ast.And) and any(unparse(v) == a for v in final.values):
            got = True
        if got:
            out.append(ok("R7d", fq, f"requires:{a}", f"answers False whenever {a} is False", f.loc))
        else:
            out.append(viol("R7d", fq, f"requires:{a}", f"no leading guard returns False when {a} is False: a circuit that is not smooth / decomposable can be reported structured-decomposable / compatible", f.loc))
    return out


def _single_return_top(body: list[ast.stmt]) -> ast.AST | None:
    if body and isinstance(body[-1], ast.Return):
        return body[-1].value
    return None


def unique_factorization(ctx: Ctx) -> Ob:
    fq = CIRCUIT + ".is_structured_decomposable"
    f = ctx.repo.func(fq)
    body = [s for s in f.node.body]
    final = _single_return_top(body)
    inst = "one-factorization-per-scope"
    q = _quantified(final) if final is not None else None
    if q is None:
        return unres("R7d", fq, inst, "final answer not a quantified expression: no verdict", f.loc)
    quant, elt, gens, neg = q
    e, eneg = _strip_not(elt)
    if not (isinstance(e, ast.Compare) and len(e.ops) == 1 and isinstance(e.left, ast.Call) and isinstance(e.left.func, ast.Name) and e.left.func.id == "len" and isinstance(e.comparators[0], ast.Constant)):
        return unres("R7d", fq, inst, f"element {unparse(elt)} not `len(..) <op> constant`: no verdict", f.loc)
    if any(g.ifs for g in gens):
        return unres("R7d", fq, inst, "filtered generator: no verdict", f.loc)
    op, cst = type(e.ops[0]), e.comparators[0].value
    exactly_one = (op is ast.Eq and cst == 1 and not eneg) or (op is ast.NotEq and cst == 1 and eneg) or (op is ast.LtE and cst == 1 and not eneg) or (op is ast.Lt and cst == 2 and not eneg)
    more_than_one = (op is ast.NotEq and cst == 1 and not eneg) or (op is ast.Gt and cst == 1 and not eneg) or (op is ast.GtE and cst == 2 and not eneg) or (op is ast.Eq and cst == 1 and eneg)
    good = (quant == "all" and not neg and exactly_one) or (quant == "any" and neg and more_than_one)
    if good:
        return ok("R7d", fq, inst, "FORALL scopes: exactly one factorization", f.loc)
    if exactly_one or more_than_one:
        return viol("R7d", fq, inst, f"`{unparse(final)[:100]}` does not require every scope to have a single factorization (wrong quantifier / polarity)", f.loc)
    return viol("R7d", fq, inst, f"`{unparse(elt)}` does not bound the number of factorizations per scope by one", f.loc)


def _base_roots(ld, e: ast.AST, depth: int = 0) -> set[str]:
    """the names a container expression is taken *from* (``d[k]``, ``d.get(k)``, ``x.attr`` -> d / x),
    followed through local definitions; keys / arguments are not roots"""
    while isinstance(e, (ast.Subscript, ast.Attribute)) or (isinstance(e, ast.Call) and isinstance(e.func, ast.Attribute)):
        e = e.func.value if isinstance(e, ast.Call) else e.value
    if not isinstance(e, ast.Name) or depth > 6:
        return set()
    if e.id in ld.defs and e.id not in ld.params:
        out: set[str] = set()
        for d in ld.defs[e.id]:
            out |= _base_roots(ld, d, depth + 1)
        return out
    return {e.id}


def compat_unique(ctx: Ctx) -> list[Ob]:
    """_are_compatible answers False for a common scope that either side factorizes in more than one
    way: the number of factorizations of *each* side (found by def-use from the two parameters, not
    by name) is consulted by a refusing test that fires when that number is 2."""
    from ..flow import LocalDefs
    from ..model import dotted

    fq = "cirkit.symbolic.circuit._are_compatible"
    f = ctx.repo.func(fq)
    ld = LocalDefs(f.node)
    params = [p.name for p in f.params][:2]
    if len(params) != 2:
        return [unres("R7d", fq, "unique-factorization", "signature changed: no verdict", f.loc)]
    # refusing conditions: `if T: return False`  -> T ;  `return all(E for ..)` -> not E ;
    # `return not any(E for ..)` -> E   (each with the comprehension's local bindings)
    refusing: list[ast.AST] = []
    for n in walk_no_nested(f.node):
        if isinstance(n, ast.If) and n.body and isinstance(n.body[-1], ast.Return) and isinstance(n.body[-1].value, ast.Constant) and n.body[-1].value.value is False:
            refusing.append(n.test)
        elif isinstance(n, ast.Return) and n.value is not None:
            q = _quantified(n.value)
            if q is not None:
                quant, elt, _gens, neg = q
                if quant == "all" and not neg:
                    refusing.append(ast.UnaryOp(op=ast.Not(), operand=elt))
                elif quant == "any" and neg:
                    refusing.append(elt)
    out: list[Ob] = []
    if not refusing:
        return [unres("R7d", fq, f"unique-factorization:side{k}", "no refusing condition found (another formulation): no verdict", f.loc) for k in (1, 2)]
    for k, pn in enumerate(params, 1):
        inst = f"unique-factorization:side{k}"
        lens: list[tuple[ast.AST, ast.Call]] = []
        for n in refusing:
            for c in ast.walk(n):
                if isinstance(c, ast.Call) and isinstance(c.func, ast.Name) and c.func.id == "len" and len(c.args) == 1:
                    roots = _base_roots(ld, c.args[0])
                    if pn in roots and not (set(params) - {pn}) & roots:
                        lens.append((n, c))
        if not lens:
            out.append(viol("R7d", fq, inst, f"no refusing test consults how many ways `{pn}` factorizes a common scope: two circuits that both split a scope in the same several ways are reported compatible", f.loc))
            continue
        good = any(fires(n, {unparse(c): 2})[0] == ALWAYS for n, c in lens)
        if good:
            out.append(ok("R7d", fq, inst, f"refuses when `{pn}` has two factorizations of a common scope", f.loc))
        else:
            out.append(viol("R7d", fq, inst, f"the test on the number of factorizations of `{pn}` does not refuse two factorizations of a common scope", f.loc))
    return out


def r7d(ctx: Ctx) -> list[Ob]:
    # NOTE: `preconditions` (stronger predicates answer False for non-smooth / non-decomposable
    # operands) is deliberately NOT armed: C08 as stated does not require it, so arming it would
    # demand more than the property says.
    return [is_smooth_shape(ctx), is_decomposable_shape(ctx), unique_factorization(ctx)] + compat_unique(ctx)


# ------------------------------------------------------------------------------------------ R7s
def r7s(ctx: Ctx) -> list[Ob]:
    """R7s -- the scope a circuit records for a layer is the union over *all* of its inputs.

    Every structural predicate (smooth, decomposable, structured-decomposable, compatible) is decided
    from ``Circuit.layer_scope``.  For the circuits the predicates exist to reject -- non-smooth sums --
    a scope taken from one input (``self._scopes[sl_ins[0]]``), or from a filtered / sliced input list,
    hides the variables that enter through the other inputs, and the answer then depends on the order
    in which the sum lists its inputs.  Each store into the scope table inside the constructor's
    validation loop must therefore be the input layer's own scope, or a union (``Scope.union(*..)``,
    ``|``, ``reduce``) over an unfiltered iteration of the whole input list; the circuit's own scope is
    the union over all outputs."""
    from ..canon import FlowCanon
    from ..cfg import build_cfg

    fq = "cirkit.symbolic.circuit.Circuit.__init__"
    f = ctx.repo.func(fq)
    g = ctx.memo("cfg:" + fq, lambda: build_cfg(f.node))
    fc = ctx.memo("flowcanon:" + fq, lambda: FlowCanon(g))
    out: list[Ob] = []
    # the attribute read back by layer_scope
    ls = ctx.repo.func("cirkit.symbolic.circuit.Circuit.layer_scope")
    table = None
    for n in ast.walk(ls.node):
        if isinstance(n, ast.Return) and isinstance(n.value, ast.Subscript):
            table = unparse(n.value.value)
    if table is None:
        return [unres("R7s", ls.qualname, "scope-table", "layer_scope does not return an entry of a table: no verdict", ls.loc)]
    k = 0
    for n, st in g.stmts.items():
        if not isinstance(st, ast.Assign):
            continue
        for t in st.targets:
            if not (isinstance(t, ast.Subscript) and unparse(t.value) == table):
                continue
            k += 1
            val = fc.expr(st.value, n)  # locals inlined: a hoisted list of input scopes is seen through
            site = f"{f.module.relpath}:{st.lineno}"
            key_c = fc.text(t.slice, n)
            inst = f"scope-store#{k}"
            txt = unparse(val)
            # (a) an input layer's own scope
            if isinstance(val, ast.Attribute) and val.attr == "scope" and unparse(val.value) == key_c:
                out.append(ok("R7s", fq, inst, "an input layer records its own scope", site))
                continue
            # (b) union over the whole input list
            comps = [x for x in ast.walk(val) if isinstance(x, (ast.GeneratorExp, ast.ListComp, ast.SetComp))]
            whole = False
            filtered = False
            for c in comps:
                if len(c.generators) != 1:
                    continue
                gen = c.generators[0]
                it_c = unparse(gen.iter)
                if gen.ifs:
                    filtered = True
                if "layer_inputs(" in it_c or "_in_nodes[" in it_c or "nodes_inputs" in it_c or "in_layers" in it_c:
                    if isinstance(gen.iter, ast.Subscript) or "[" in unparse(gen.iter).replace(table, ""):
                        filtered = True
                    if table in unparse(c.elt):
                        whole = True
            is_union = "union" in txt or isinstance(val, ast.BinOp) and isinstance(val.op, ast.BitOr) or "reduce" in txt
            if whole and is_union and not filtered:
                out.append(ok("R7s", fq, inst, "union of the recorded scopes of all inputs", site))
            elif table in txt and not comps:
                out.append(viol("R7s", fq, inst, f"the scope recorded for a layer is `{txt[:70]}` -- the scope of selected input(s), not the union over all of them: variables that enter a (non-smooth) sum through another input are invisible to is_decomposable / is_structured_decomposable / compatibility, and the answer depends on the order of the inputs", site))
            elif filtered:
                out.append(viol("R7s", fq, inst, f"the scope recorded for a layer is a union over a filtered or sliced input list (`{txt[:70]}`)", site))
            else:
                out.append(unres("R7s", fq, inst, f"a scope store in a form the rule has no model of: `{txt[:60]}`", site))
    if k == 0:
        out.append(unres("R7s", fq, "scope-store", f"no store into {table} found in the constructor", f.loc))
    return out


# ------------------------------------------------------------------------------------------ R7t
def r7t(ctx: Ctx) -> list[Ob]:
    """R7t -- a product's factorization is the split made by *that* product.

    Structured decomposability and compatibility compare, per scope, how the products over it split
    it.  The split recorded for a product layer is the tuple of the scopes of its *direct* inputs.
    Substituting the operands of an input that is itself a product (flattening X*(Y*Z) into X*Y*Z)
    makes X*(Y*Z) and (X*Y)*Z record the same factorization although one splits {X,Y,Z} into
    {X},{Y,Z} and the other into {X,Y},{Z}: circuits with different nestings are then reported
    compatible / structured-decomposable."""
    fq = "cirkit.symbolic.circuit._scope_factorizations"
    f = ctx.repo.func(fq)
    out: list[Ob] = []
    comps = [n for n in ast.walk(f.node) if isinstance(n, (ast.GeneratorExp, ast.ListComp)) and "layer_scope(" in unparse(n.elt)]
    if not comps:
        return [unres("R7t", fq, "direct-inputs", "no comprehension over the scopes of a product's inputs found", f.loc)]
    for c in comps:
        it = c.generators[0].iter
        site = f"{f.module.relpath}:{c.lineno}"
        if isinstance(it, ast.Call) and isinstance(it.func, ast.Attribute) and it.func.attr == "layer_inputs":
            out.append(ok("R7t", fq, "direct-inputs", "the recorded split ranges over the product's own inputs", site))
        elif isinstance(it, ast.Call):
            callee = ctx.repo.get_function(f.module, it.func) if hasattr(ctx.repo, "get_function") else None
            recursive = callee is not None and any(isinstance(x, ast.Call) and isinstance(x.func, ast.Name) and x.func.id == callee.name for x in ast.walk(callee.node))
            if recursive:
                out.append(viol("R7t", fq, "direct-inputs", f"the split recorded for a product ranges over `{unparse(it)[:50]}`, a recursive expansion of its inputs, not over its direct inputs: differently nested products over one scope (X*(Y*Z) vs (X*Y)*Z) record the same factorization and are reported compatible / structured-decomposable", site))
            else:
                out.append(unres("R7t", fq, "direct-inputs", f"the split ranges over `{unparse(it)[:50]}`: not the product's layer_inputs(..), no verdict", site))
        else:
            out.append(unres("R7t", fq, "direct-inputs", f"the split ranges over `{unparse(it)[:50]}`: no verdict", site))
    return out


# ------------------------------------------------------------------------------------------ R7u
def r7u(ctx: Ctx) -> list[Ob]:
    """R7u -- the structural predicates read the circuit's scope, they do not re-number it.

    A predicate that rebuilds 'the variables' as ``range(num_variables)`` (or ``range(len(scope))``)
    silently assumes the ids 0..n-1: for a circuit over {1, 2, 3} the reference it compares against is
    keyed on a scope that no layer has, and the answer (omni-compatibility: vacuously True) depends on
    how the variables are numbered.  In the predicates of ``Circuit`` / ``circuit.py`` no Scope is
    built from a ``range(..)`` of the number of variables."""
    out: list[Ob] = []
    n = 0
    for f in ctx.repo.iter_functions():
        if f.module.name != "cirkit.symbolic.circuit":
            continue
        if not (f.name.startswith(("is_", "are_", "_are_", "_scope_")) or f.name in ("properties",)):
            continue
        n += 1
        bad = None
        for c in walk_no_nested(f.node):
            if isinstance(c, ast.Call) and isinstance(c.func, ast.Name) and c.func.id == "range":
                t = unparse(c)
                if "num_variables" in t or "len(self.scope)" in t or "len(sc.scope)" in t:
                    bad = c
        if bad is not None:
            out.append(viol("R7u", f.qualname, "numbering", f"`{unparse(bad)}` stands in for the circuit's variables: the predicate is right only for scopes numbered 0..n-1 (for any other numbering it compares against a scope no layer has)", f"{f.module.relpath}:{bad.lineno}"))
        else:
            out.append(ok("R7u", f.qualname, "numbering", "reads the circuit's own scope", f.loc, nontrivial=False))
    if n == 0:
        out.append(unres("R7u", "cirkit.symbolic.circuit", "numbering", "no predicate found", ""))
    return out
