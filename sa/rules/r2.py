"""R2 -- operator-rule discipline (symbolic/operators.py, symbolic/functional.py)."""

from __future__ import annotations

import ast
from typing import Any
from dataclasses import dataclass

from ..core import Ctx, Ob, note, ok, unres, viol
from ..flow import LocalDefs, maximal_chains
from ..model import (
    AnalysisError,
    ClassInfo,
    FuncInfo,
    bind_call,
    dotted,
    unparse,
    walk_no_nested,
)
from . import r1

OPS_MOD = "cirkit.symbolic.operators"
FUNC_MOD = "cirkit.symbolic.functional"
LAYER = "cirkit.symbolic.layers.Layer"
TENSOR_PARAM = "cirkit.symbolic.parameters.TensorParameter"
CONST_PARAM = "cirkit.symbolic.parameters.ConstantParameter"


@dataclass
class OpRule:
    kind: str  # INTEGRATION / DIFFERENTIATION / MULTIPLICATION / CONJUGATION
    fn: FuncInfo
    operands: list[tuple[str, ClassInfo]]  # (parameter name, annotated layer class)


def operator_rules(ctx: Ctx) -> list[OpRule]:
    def build() -> list[OpRule]:
        m, d = ctx.repo.registry_dict(OPS_MOD, "DEFAULT_OPERATOR_RULES")
        layer = ctx.repo.cls(LAYER)
        out = []
        for k, v in zip(d.keys, d.values):
            kind = (dotted(k) or "?").split(".")[-1] if k is not None else "?"
            if not isinstance(v, (ast.List, ast.Tuple)):
                raise AnalysisError(f"DEFAULT_OPERATOR_RULES[{kind}] is not a list literal")
            for e in v.elts:
                f = ctx.repo.get_function(m, e)
                if f is None:
                    raise AnalysisError(f"DEFAULT_OPERATOR_RULES[{kind}]: cannot resolve {unparse(e)}")
                operands = []
                for p in f.params:
                    if p.kind != "pos" or p.annotation is None:
                        continue
                    c = ctx.repo.get_class(f.module, p.annotation)
                    if c is not None and ctx.repo.is_subclass(c, layer):
                        operands.append((p.name, c))
                if not operands:
                    raise AnalysisError(f"operator rule {f.qualname}: no annotated layer operand")
                out.append(OpRule(kind, f, operands))
        return out

    return ctx.memo("operator_rules", build)


def param_keys(ctx: Ctx, c: ClassInfo) -> list[str]:
    dv = ctx.cf.dict_property(c, "params")
    return list(dv.items)


def parent_map(fn: ast.AST) -> dict[int, ast.AST]:
    parents: dict[int, ast.AST] = {}
    for n in ast.walk(fn):
        for ch in ast.iter_child_nodes(n):
            parents[id(ch)] = n
    return parents


# ------------------------------------------------------------------------------------------ R2a
def r2a_rules(ctx: Ctx, kinds: set[str] | None = None) -> list[Ob]:
    """Every read ``sl.<param attr>`` in an operator rule is the receiver of ``.ref()``, of
    ``.shape``, or an operand of ``is None`` / ``is not None``."""
    out: list[Ob] = []
    for r in operator_rules(ctx):
        if kinds is not None and r.kind not in kinds:
            continue
        parents = parent_map(r.fn.node)
        for pname, cls in r.operands:
            pks = set(param_keys(ctx, cls))
            for n in walk_no_nested(r.fn.node):
                if not (isinstance(n, ast.Attribute) and isinstance(n.value, ast.Name) and n.value.id == pname and n.attr in pks):
                    continue
                site = f"{r.fn.module.relpath}:{n.lineno}"
                inst = f"{pname}.{n.attr}@{_ctx_label(n, parents)}"
                p = parents.get(id(n))
                verdict = None
                if isinstance(p, ast.Attribute) and p.value is n:
                    pp = parents.get(id(p))
                    if p.attr == "ref" and isinstance(pp, ast.Call) and pp.func is p:
                        verdict = "ref"
                    elif p.attr == "shape":
                        verdict = "shape"
                elif isinstance(p, ast.Compare) and all(isinstance(o, (ast.Is, ast.IsNot)) for o in p.ops):
                    verdict = "none-test"
                if verdict is None and _only_in_condition(n, parents):
                    # an inspection of the operand inside a branch condition: nothing of it enters the
                    # derived layer through this read
                    verdict = "inspection"
                if verdict is not None:
                    out.append(ok("R2a", r.fn.qualname, inst, f"{pname}.{n.attr} used through {verdict}", site))
                else:
                    out.append(
                        viol(
                            "R2a",
                            r.fn.qualname,
                            inst,
                            f"operand parameter {pname}.{n.attr} is used directly ({unparse(p) if p is not None else ''}) instead of "
                            "through .ref(): the derived layer aliases / duplicates the operand's parameter graph "
                            "instead of referencing its tensors",
                            site,
                        )
                    )
    return out


def _only_in_condition(n: ast.AST, parents: dict[int, ast.AST]) -> bool:
    """n occurs inside the test of an if / conditional expression / assert / while"""
    cur: ast.AST | None = n
    while cur is not None:
        p = parents.get(id(cur))
        if isinstance(p, (ast.If, ast.IfExp, ast.While)) and p.test is cur:
            return True
        if isinstance(p, ast.Assert) and p.test is cur:
            return True
        if isinstance(p, ast.stmt):
            return False
        cur = p
    return False


def _ctx_label(n: ast.AST, parents: dict[int, ast.AST]) -> str:
    """A line-number-free label of the statement a node occurs in (target names or 'stmt<k>')."""
    cur: ast.AST | None = n
    while cur is not None and not isinstance(cur, ast.stmt):
        cur = parents.get(id(cur))
    if isinstance(cur, ast.Assign):
        t = ",".join(unparse(t) for t in cur.targets)
        # disambiguate several reads in the same statement by the argument position text
        return f"{t}={_short(cur.value, n)}"
    if isinstance(cur, ast.If):
        return "if:" + unparse(cur.test)[:40]
    if isinstance(cur, ast.Return):
        return "return"
    return type(cur).__name__ if cur is not None else "?"


def _short(value: ast.AST, n: ast.AST) -> str:
    # position of n among the same-text nodes in value
    txt = unparse(n)
    idx = 0
    for k in ast.walk(value):
        if k is n:
            break
        if isinstance(k, ast.Attribute) and unparse(k) == txt:
            idx += 1
    callee = ""
    if isinstance(value, ast.Call):
        callee = (dotted(value.func) or "").split(".")[-1]
    return f"{callee}#{idx}"


def product_layers_have_no_params(ctx: Ctx) -> bool:
    pl = ctx.repo.cls("cirkit.symbolic.layers.ProductLayer")
    for c in [pl] + ctx.repo.subclasses(pl):
        f = ctx.repo.lookup(c, "params")
        if f is not None and f.cls is not None and f.cls.qualname != LAYER:
            return False
    return True


def r2a_functional(ctx: Ctx, funcs: list[str]) -> list[Ob]:
    """In functional.<op>: every operand layer placed into the result
    (``CircuitBlock.from_layer(x)``, ``EvidenceLayer(x, ..)``) flows through ``.copyref()``.
    Derived exception: a layer under an ``isinstance(sl, ProductLayer)`` guard (no subclass of
    ProductLayer defines ``params``)."""
    out: list[Ob] = []
    m = ctx.repo.module(FUNC_MOD)
    prod_ok = product_layers_have_no_params(ctx)
    for fname in funcs:
        f = ctx.repo.func(f"{FUNC_MOD}.{fname}")
        ld = LocalDefs(f.node)
        parents = parent_map(f.node)
        nsites = 0
        for n in walk_no_nested(f.node):
            if not isinstance(n, ast.Call):
                continue
            callee = dotted(n.func) or ""
            arg = None
            if callee.endswith("CircuitBlock.from_layer") and n.args:
                arg = n.args[0]
            elif callee.split(".")[-1] == "EvidenceLayer" and n.args:
                arg = n.args[0]
            if arg is None:
                continue
            site = f"{f.module.relpath}:{n.lineno}"
            # fresh layers (constructor calls of Layer subclasses) are not operand layers
            exp = ld.expand(arg)
            if any(isinstance(e, ast.Call) and ctx.repo.get_class(m, e.func) is not None for e in exp):
                continue  # a fresh layer built here (its own operand argument is a separate site)
            nsites += 1
            inst = f"{callee.split('.')[-1]}({unparse(arg)})#{_occurrence(f.node, n)}"
            if any(_is_copyref(e) for e in exp if isinstance(e, ast.Call)) or _is_copyref(arg):
                out.append(ok("R2a", f.qualname, inst, "operand layer copied by reference (.copyref())", site))
                continue
            if prod_ok and _under_isinstance(n, parents, unparse(arg), "ProductLayer"):
                out.append(ok("R2a", f.qualname, inst, "product layer passed through (ProductLayer subclasses define no params: derived)", site))
                continue
            out.append(
                viol(
                    "R2a",
                    f.qualname,
                    inst,
                    f"operand layer {unparse(arg)} is placed into the derived circuit without .copyref(): "
                    "the same layer object (and its tensor parameters) would be owned by two circuits",
                    site,
                )
            )
        if nsites == 0:
            out.append(unres("R2a", f.qualname, "copyref-sites", "no operand-layer placement site found", f.loc))
    return out


def _occurrence(fn: ast.AST, call: ast.Call) -> int:
    txt = unparse(call)
    i = 0
    for n in ast.walk(fn):
        if n is call:
            return i
        if isinstance(n, ast.Call) and unparse(n) == txt:
            i += 1
    return i


def _is_copyref(e: ast.AST) -> bool:
    return isinstance(e, ast.Call) and isinstance(e.func, ast.Attribute) and e.func.attr == "copyref"


def _under_isinstance(n: ast.AST, parents: dict[int, ast.AST], var: str, clsname: str) -> bool:
    cur = n
    while id(cur) in parents:
        p = parents[id(cur)]
        if isinstance(p, ast.If) and cur in p.body:
            t = p.test
            if (
                isinstance(t, ast.Call)
                and dotted(t.func) == "isinstance"
                and len(t.args) == 2
                and unparse(t.args[0]) == var
                and (dotted(t.args[1]) or "").split(".")[-1] == clsname
            ):
                return True
        cur = p
    return False


def r2a_core(ctx: Ctx) -> list[Ob]:
    """Layer.copyref builds every params entry through .ref(); Parameter.ref maps every
    TensorParameter to a ReferenceParameter and copies the rest."""
    out: list[Ob] = []
    f = ctx.repo.func("cirkit.symbolic.layers.Layer.copyref")
    ld = LocalDefs(f.node)
    good = False
    for n in walk_no_nested(f.node):
        if isinstance(n, (ast.DictComp,)):
            # {pname: pgraph.ref() for pname, pgraph in self.params.items()}
            v = n.value
            it = n.generators[0].iter if n.generators else None
            if (
                isinstance(v, ast.Call)
                and isinstance(v.func, ast.Attribute)
                and v.func.attr == "ref"
                and it is not None
                and "self.params" in unparse(it)
            ):
                good = True
    if good:
        out.append(ok("R2a", f.qualname, "params-by-ref", "every params entry is rebuilt through .ref()", f.loc))
    else:
        out.append(viol("R2a", f.qualname, "params-by-ref", "copyref does not rebuild the layer's params through .ref(): copies would own fresh or aliased parameters", f.loc))
    # the constructor receives those kwargs and the config
    rets = [r for r in walk_no_nested(f.node) if isinstance(r, ast.Return) and r.value is not None]
    passes = any(
        isinstance(e, ast.Call) and any(k.arg is None for k in e.keywords) for r in rets for e in ld.expand(r.value)
    )
    upd = any(
        isinstance(n, ast.Call) and isinstance(n.func, ast.Attribute) and n.func.attr == "update" and "self.config" in unparse(n)
        for n in walk_no_nested(f.node)
    )
    if passes and upd:
        out.append(ok("R2a", f.qualname, "config-carried", "type(self)(**{refs, config})", f.loc))
    else:
        out.append(viol("R2a", f.qualname, "config-carried", "copyref does not pass config and referenced params to the constructor", f.loc))

    g = ctx.repo.func("cirkit.symbolic.parameters.Parameter.ref")
    txt_ok = False
    for n in ast.walk(g.node):
        if isinstance(n, ast.IfExp):
            t = n.test
            if (
                isinstance(t, ast.Call)
                and dotted(t.func) == "isinstance"
                and (dotted(t.args[1]) or "").split(".")[-1] == "TensorParameter"
                and isinstance(n.body, ast.Call)
                and (dotted(n.body.func) or "").split(".")[-1] == "ReferenceParameter"
                and isinstance(n.orelse, ast.Call)
                and (dotted(n.orelse.func) or "") == "copy"
            ):
                txt_ok = True
        if isinstance(n, ast.If):
            t = n.test
            if isinstance(t, ast.Call) and dotted(t.func) == "isinstance" and (dotted(t.args[1]) or "").split(".")[-1] == "TensorParameter":
                body_ref = any(isinstance(x, ast.Return) and isinstance(x.value, ast.Call) and (dotted(x.value.func) or "").split(".")[-1] == "ReferenceParameter" for x in n.body)
                if body_ref:
                    txt_ok = True
    if txt_ok:
        out.append(ok("R2a", g.qualname, "tensor->reference", "TensorParameter (hence ConstantParameter) nodes become ReferenceParameter, other nodes are copied", g.loc))
    else:
        out.append(viol("R2a", g.qualname, "tensor->reference", "Parameter.ref no longer maps tensor parameters to references", g.loc))
    # ReferenceParameter.deref returns the constructor argument
    rp = ctx.repo.cls("cirkit.symbolic.parameters.ReferenceParameter")
    st_in = ctx.cf.init_param_storage(rp, "parameter")
    st_out = ctx.cf.storage_of_member(rp, "deref")
    if st_in & st_out:
        out.append(ok("R2a", rp.qualname, "deref", "deref() returns the referenced tensor parameter", rp.loc))
    else:
        out.append(viol("R2a", rp.qualname, "deref", f"deref() reads {sorted(st_out)} but the constructor stores the target in {sorted(st_in)}", rp.loc))
    return out


# ------------------------------------------------------------------------------------------ R2b
def primary_groups(ctx: Ctx, c: ClassInfo) -> list[set[str]]:
    """Groups of __init__ parameters such that leaving all of a group None makes the class
    create a fresh TensorParameter."""
    init = ctx.repo.lookup(c, "__init__")
    if init is None:
        return []
    pnames = {p.name for p in init.call_params}
    groups: list[set[str]] = []

    def none_names(t: ast.AST) -> set[str] | None:
        if isinstance(t, ast.Compare) and len(t.ops) == 1 and isinstance(t.ops[0], ast.Is):
            if isinstance(t.left, ast.Name) and isinstance(t.comparators[0], ast.Constant) and t.comparators[0].value is None:
                return {t.left.id}
        if isinstance(t, ast.BoolOp) and isinstance(t.op, ast.And):
            s: set[str] = set()
            for v in t.values:
                x = none_names(v)
                if x is None:
                    return None
                s |= x
            return s
        return None

    def not_none_names(t: ast.AST) -> set[str] | None:
        if isinstance(t, ast.Compare) and len(t.ops) == 1 and isinstance(t.ops[0], ast.IsNot):
            if isinstance(t.left, ast.Name) and isinstance(t.comparators[0], ast.Constant) and t.comparators[0].value is None:
                return {t.left.id}
        return None

    def visit(stmts: list[ast.stmt], known_none: frozenset[str]) -> None:
        for s in stmts:
            if isinstance(s, ast.If):
                nn = none_names(s.test)
                visit(s.body, known_none | frozenset(nn or ()))
                neg = not_none_names(s.test)
                visit(s.orelse, known_none | frozenset(neg or ()))
                continue
            for x in ast.walk(s):
                if isinstance(x, ast.Call) and (dotted(x.func) or "").split(".")[-1] == "TensorParameter":
                    grp = set(known_none & pnames)
                    if grp and grp not in groups:
                        groups.append(grp)
            for fld in ("body", "orelse", "finalbody"):
                sub = getattr(s, fld, None)
                if isinstance(sub, list) and sub and isinstance(sub[0], ast.stmt) and not isinstance(s, ast.If):
                    visit(sub, known_none)

    visit(list(init.node.body), frozenset())
    return groups


def r2b(ctx: Ctx, kinds: set[str] | None = None) -> list[Ob]:
    out: list[Ob] = []
    layer = ctx.repo.cls(LAYER)
    for r in operator_rules(ctx):
        if kinds is not None and r.kind not in kinds:
            continue
        m = r.fn.module
        n_ctor = 0
        for n in walk_no_nested(r.fn.node):
            if not isinstance(n, ast.Call):
                continue
            c = ctx.repo.get_class(m, n.func)
            if c is None:
                continue
            site = f"{m.relpath}:{n.lineno}"
            if c.qualname == TENSOR_PARAM:
                out.append(viol("R2b", r.fn.qualname, "no-fresh-tensor", "operator rule creates a TensorParameter: the derived circuit gets a new learnable parameter instead of sharing the operand's", site))
                continue
            if not ctx.repo.is_subclass(c, layer):
                continue
            n_ctor += 1
            init = ctx.repo.lookup(c, "__init__")
            binding, _ = bind_call(n, init.call_params) if init else ({}, [])
            for grp in primary_groups(ctx, c):
                passed = [g for g in grp if g in binding and not (isinstance(binding[g], ast.Constant) and binding[g].value is None)]
                inst = f"{c.name}({'|'.join(sorted(grp))})#{_occurrence(r.fn.node, n)}"
                if passed:
                    out.append(ok("R2b", r.fn.qualname, inst, f"{c.name}(..) receives {sorted(passed)} explicitly", site))
                else:
                    out.append(
                        viol(
                            "R2b",
                            r.fn.qualname,
                            inst,
                            f"{c.name}(..) is built without {' / '.join(sorted(grp))}: the class then allocates a fresh learnable TensorParameter, "
                            "so the derived circuit no longer shares the operand's parameters",
                            site,
                        )
                    )
        if n_ctor == 0:
            out.append(unres("R2b", r.fn.qualname, "ctor", "no layer constructor call found", r.fn.loc))
        else:
            out.append(ok("R2b", r.fn.qualname, "no-fresh-tensor", "no TensorParameter(..) call in the rule", r.fn.loc, nontrivial=False) if not any(o.construct == r.fn.qualname and o.instance == "no-fresh-tensor" for o in out) else note("R2b", r.fn.qualname, "no-fresh-tensor-dup", ""))
    return [o for o in out if o.instance != "no-fresh-tensor-dup"]


# ------------------------------------------------------------------------------------------ R2c
def _layer_ctor_calls(ctx: Ctx, r: OpRule, cls: ClassInfo | None = None) -> list[tuple[ast.Call, ClassInfo]]:
    layer = ctx.repo.cls(LAYER)
    res = []
    for n in walk_no_nested(r.fn.node):
        if isinstance(n, ast.Call):
            c = ctx.repo.get_class(r.fn.module, n.func)
            if c is not None and ctx.repo.is_subclass(c, layer) and (cls is None or c == cls):
                res.append((n, c))
    return res


def r2c(ctx: Ctx, kinds: set[str]) -> list[Ob]:
    out: list[Ob] = []
    for r in operator_rules(ctx):
        if r.kind not in kinds:
            continue
        ld = LocalDefs(r.fn.node)
        if r.kind == "CONJUGATION":
            pname, cls = r.operands[0]
            calls = _layer_ctor_calls(ctx, r, cls)
            if not calls:
                out.append(unres("R2c", r.fn.qualname, "ctor", f"no {cls.name}(..) call", r.fn.loc))
                continue
            call, _ = calls[-1]
            site = f"{r.fn.module.relpath}:{call.lineno}"
            kw = {k.arg: k.value for k in call.keywords if k.arg}
            for k in param_keys(ctx, cls):
                if k not in kw:
                    out.append(
                        viol(
                            "R2c",
                            r.fn.qualname,
                            f"param={k}",
                            f"conjugation rule rebuilds {cls.name} without its parameter '{k}': the conjugated layer silently loses it "
                            "(e.g. the log-partition of an un-normalised layer), so conjugate(c) != conj(c)",
                            site,
                        )
                    )
                    continue
                srcs = r1.arg_sources(ld, kw[k], pname)
                if (k, None) in srcs or any(a == k for a, _ in srcs):
                    out.append(ok("R2c", r.fn.qualname, f"param={k}", f"{k}= derives from {pname}.{k}", site))
                else:
                    out.append(viol("R2c", r.fn.qualname, f"param={k}", f"{cls.name}({k}=..) derives from {sorted(a for a, _ in srcs)} instead of {pname}.{k}", site))
        else:
            for pname, cls in r.operands:
                reads = {n.attr for n in walk_no_nested(r.fn.node) if isinstance(n, ast.Attribute) and isinstance(n.value, ast.Name) and n.value.id == pname}
                for k in param_keys(ctx, cls):
                    if k in reads:
                        out.append(ok("R2c", r.fn.qualname, f"read:{pname}.{k}", "operand parameter is consulted", r.fn.loc))
                    else:
                        out.append(viol("R2c", r.fn.qualname, f"read:{pname}.{k}", f"{r.kind.lower()} rule never reads parameter '{k}' of operand {pname}: the result cannot depend on it", r.fn.loc))
    return out


# ------------------------------------------------------------------------------------------ R2d
def r2d(ctx: Ctx) -> list[Ob]:
    out: list[Ob] = []
    rows = {row.key.qualname: row for row in r1.registry_rows(ctx, r1.LAYER_REG)}
    expfam = ctx.repo.cls("cirkit.backend.torch.layers.input.TorchExpFamilyLayer")
    for r in operator_rules(ctx):
        if r.kind != "CONJUGATION":
            continue
        pname, cls = r.operands[0]
        ld = LocalDefs(r.fn.node)
        # derived exemption: the torch counterpart is an exponential-family layer (real params)
        real = False
        row = rows.get(cls.qualname)
        if row is not None:
            cons = r1.constructed(ctx, row.rule)
            real = any(tc is not None and ctx.repo.is_subclass(tc, expfam) for _, tc, _ in cons)
        calls = _layer_ctor_calls(ctx, r, cls)
        if not calls:
            continue
        call, _ = calls[-1]
        site = f"{r.fn.module.relpath}:{call.lineno}"
        kw = {k.arg: k.value for k in call.keywords if k.arg}
        for k in param_keys(ctx, cls):
            if k not in kw:
                continue
            wrapped = any((dotted(c.func) or "").split(".")[-1] == "ConjugateParameter" for c in ld.calls(kw[k]))
            skipped = _unwrapped_paths(ctx, r, call, kw[k]) if wrapped and not real else None
            if skipped is not None:
                out.append(skipped(k, cls.name, site))
                continue
            if real:
                out.append(ok("R2d", r.fn.qualname, f"param={k}", f"{cls.name} compiles to an exponential-family layer with real parameters: conjugation is the identity (derived exemption)", site, nontrivial=False))
            elif wrapped:
                out.append(ok("R2d", r.fn.qualname, f"param={k}", "carried through ConjugateParameter", site))
            else:
                out.append(viol("R2d", r.fn.qualname, f"param={k}", f"parameter '{k}' of {cls.name} is carried without ConjugateParameter: complex parameters are not conjugated", site))
    return out


def _unwrapped_paths(ctx: Ctx, r: Any, call: ast.Call, value: ast.AST) -> Any:
    """R2d, every path: the definitions of the parameter that *reach* the layer constructor (reaching
    definitions on the CFG) must all pass through ConjugateParameter.  A path that skips the wrapper
    is accepted without verdict only when the skipping condition is a dtype test the rule cannot
    evaluate; a test of the *kind* of a node (isinstance) says nothing about complex values."""
    from ..canon import FlowCanon
    from ..cfg import build_cfg

    g = ctx.memo("cfg:" + r.fn.qualname, lambda: build_cfg(r.fn.node))
    fc = ctx.memo("flowcanon:" + r.fn.qualname, lambda: FlowCanon(g))
    node = None
    for n, st in g.stmts.items():
        if any(x is call for x in ast.walk(st)) and not isinstance(st, (ast.If, ast.For, ast.While, ast.With, ast.Try)):
            node = n
    if node is None:
        return None
    c = fc.expr(value, node)
    alts = list(c.args) if isinstance(c, ast.Call) and isinstance(c.func, ast.Name) and c.func.id == "PHI" else [c]
    bare = [a for a in alts if "ConjugateParameter(" not in unparse(a)]
    if not bare:
        return None
    tests = [unparse(x.test) for x in walk_no_nested(r.fn.node) if isinstance(x, (ast.If, ast.IfExp))]
    dtype_test = any("dtype" in t or "complex" in t.lower() for t in tests)

    def make(k: str, cname: str, site: str) -> Ob:
        if dtype_test:
            return unres("R2d", r.fn.qualname, f"param={k}", f"'{k}' skips ConjugateParameter on a path guarded by a dtype test ({tests}): not evaluated", site)
        return viol(
            "R2d",
            r.fn.qualname,
            f"param={k}",
            f"on some path parameter '{k}' of {cname} reaches the constructor as `{unparse(bare[0])[:70]}`, without ConjugateParameter (condition(s): {tests}): "
            "a test of the kind of a parameter node says nothing about its values being real, so complex parameters stay un-conjugated there",
            site,
        )

    return make


def r2h(ctx: Ctx, modules: tuple[str, ...] = ("cirkit.symbolic.operators", "cirkit.symbolic.functional")) -> list[Ob]:
    """R2h -- facts about a parameter are read through references.  The leaves of the parameter graphs
    of every operator result are ReferenceParameter nodes (R2a), so a function of the operator layer
    that filters the nodes of a parameter graph with ``isinstance(n, TensorParameter)`` -- to infer a
    dtype, learnability, a shape -- and neither mentions ReferenceParameter nor calls ``deref()`` sees
    *no* leaf of a derived circuit: what it decides is right for base circuits and vacuous for every
    chain of operators."""
    out: list[Ob] = []
    for f in ctx.repo.iter_functions():
        if f.module.name not in modules:
            continue
        txt = unparse(f.node)
        tests = [
            n
            for n in walk_no_nested(f.node)
            if isinstance(n, ast.Call) and isinstance(n.func, ast.Name) and n.func.id == "isinstance" and len(n.args) == 2 and "TensorParameter" in unparse(n.args[1])
        ]
        if not tests:
            out.append(ok("R2h", f.qualname, "leaf-inspection", "no leaf of a parameter graph is singled out by its node kind", f.loc, nontrivial=False))
            continue
        if "ReferenceParameter" in txt or ".deref(" in txt:
            out.append(ok("R2h", f.qualname, "leaf-inspection", "tensor leaves and references are both handled", f.loc))
        else:
            out.append(
                viol(
                    "R2h",
                    f.qualname,
                    "leaf-inspection",
                    f"`{unparse(tests[0])}` singles out TensorParameter leaves and the function never looks through ReferenceParameter: in every circuit "
                    "produced by an operator the leaves are references, so whatever this decides (dtype, learnability) is vacuous for operator chains",
                    f"{f.module.relpath}:{tests[0].lineno}",
                )
            )
    return out


# ------------------------------------------------------------------------------------------ R2e
def _shape_property_for(ctx: Ctx, c: ClassInfo, pk: str) -> list[str] | None:
    """Element expressions (as self-attribute names) of the shape the class requires for its
    parameter *pk*: found from the ``<pk>.shape != self.<prop>`` comparison in ``__init__``."""
    init = ctx.repo.lookup(c, "__init__")
    if init is None:
        return None
    prop = None
    for n in walk_no_nested(init.node):
        if isinstance(n, ast.Compare) and len(n.comparators) == 1:
            l, rgt = unparse(n.left), unparse(n.comparators[0])
            for a, b in ((l, rgt), (rgt, l)):
                if a == f"{pk}.shape" and b.startswith("self."):
                    prop = b[len("self.") :]
    if prop is None:
        return None
    pf = ctx.repo.lookup(c, prop)
    if pf is None:
        return None
    rets = [r for r in walk_no_nested(pf.node) if isinstance(r, ast.Return) and r.value is not None]
    if len(rets) != 1 or not isinstance(rets[0].value, ast.Tuple):
        return None
    return [unparse(e) for e in rets[0].value.elts]


def r2e(ctx: Ctx) -> list[Ob]:
    out: list[Ob] = []
    cvl = ctx.repo.cls("cirkit.symbolic.layers.ConstantValueLayer")
    for r in operator_rules(ctx):
        if r.kind != "INTEGRATION":
            continue
        pname, cls = r.operands[0]
        ld = LocalDefs(r.fn.node)
        calls = _layer_ctor_calls(ctx, r, cvl)
        if not calls:
            out.append(unres("R2e", r.fn.qualname, "ctor", "integration rule does not build a ConstantValueLayer", r.fn.loc))
            continue
        for call, _ in calls:
            site = f"{r.fn.module.relpath}:{call.lineno}"
            init = ctx.repo.lookup(cvl, "__init__")
            binding, _p = bind_call(call, init.call_params) if init else ({}, [])
            ls = binding.get("log_space")
            log_space = ls.value if isinstance(ls, ast.Constant) else (False if ls is None else None)
            nout = binding.get("num_output_units")
            if nout is not None and unparse(nout) != f"{pname}.num_output_units":
                out.append(viol("R2e", r.fn.qualname, "units", f"ConstantValueLayer built with {unparse(nout)} units instead of {pname}.num_output_units", site))
            val = binding.get("value")
            if val is None or log_space is None:
                out.append(unres("R2e", r.fn.qualname, "value", "value/log_space not resolvable", site))
                continue
            for c in ld.calls(val):
                cn = (dotted(c.func) or "").split(".")[-1]
                csite = f"{r.fn.module.relpath}:{c.lineno}"
                if cn in ("ReduceSumParameter", "ReduceLSEParameter", "ReduceProductParameter"):
                    want_log = cn == "ReduceLSEParameter"
                    if cn == "ReduceProductParameter":
                        out.append(viol("R2e", r.fn.qualname, f"reduce:{cn}", "an integral is a sum, not a product, over the states", csite))
                        continue
                    if log_space == want_log:
                        out.append(ok("R2e", r.fn.qualname, f"space:{cn}", f"{cn} <-> log_space={log_space}", csite))
                    else:
                        out.append(viol("R2e", r.fn.qualname, f"space:{cn}", f"{cn} feeds a ConstantValueLayer with log_space={log_space}: the integral is evaluated in the wrong space", csite))
                    # axis agreement with the layer's own shape property
                    axis = next((k.value for k in c.keywords if k.arg == "axis"), None)
                    shp = c.args[0] if c.args else None
                    pk = None
                    if shp is not None:
                        d = dotted(shp)
                        if d and d.startswith(pname + ".") and d.endswith(".shape"):
                            pk = d.split(".")[1]
                    elems = _shape_property_for(ctx, cls, pk) if pk else None
                    if elems is None or not (isinstance(axis, ast.Constant) and isinstance(axis.value, int)) and axis is not None:
                        out.append(unres("R2e", r.fn.qualname, f"axis:{cn}", "cannot resolve the reduced axis / the layer's parameter shape", csite))
                        continue
                    a = axis.value if axis is not None else -1
                    a = a if a >= 0 else a + len(elems)
                    rest = [e for i, e in enumerate(elems) if i != a]
                    if 0 <= a < len(elems) and rest == ["self.num_output_units"]:
                        out.append(ok("R2e", r.fn.qualname, f"axis:{cn}", f"reduces axis {a} ({elems[a]}) of {cls.name}.{pk} {elems}, leaving (num_output_units,)", csite))
                    else:
                        out.append(viol("R2e", r.fn.qualname, f"axis:{cn}", f"reduces axis {a} of {cls.name}.{pk} with shape {elems}: what remains is {rest}, not (num_output_units,) -- the integral sums over the wrong axis", csite))
                elif cn == "ConstantParameter":
                    v = next((k.value for k in c.keywords if k.arg == "value"), None)
                    if isinstance(v, ast.Constant) and isinstance(v.value, (int, float)):
                        want = 0.0 if log_space else 1.0
                        if float(v.value) == want:
                            out.append(ok("R2e", r.fn.qualname, "const", f"normalised layer integrates to {want} in {'log' if log_space else 'linear'} space", csite))
                        else:
                            out.append(viol("R2e", r.fn.qualname, "const", f"normalised layer's integral is the constant {v.value} with log_space={log_space} (expected {want})", csite))
                    out.extend(_const_guard(r, pname, c, csite))
            # a log-partition parameter passed through requires log space
            for e in ld.expand(val):
                for ch in maximal_chains(e):
                    if len(ch) >= 2 and ch[0] == pname and ch[1] == "log_partition" and "ref" in ch:
                        if log_space:
                            out.append(ok("R2e", r.fn.qualname, "space:log_partition", "log-partition parameter <-> log_space=True", site))
                        else:
                            out.append(viol("R2e", r.fn.qualname, "space:log_partition", "log-partition parameter used with log_space=False", site))
    return out


def _const_guard(r: Any, pname: str, c: ast.Call, csite: str) -> list[Ob]:
    """R2e const-guard: an integration rule may answer with a *constant* integral only when the layer
    has no parameter whose normalisation it would have to compute (``<layer>.<param> is None``: the
    layer is normalised by construction).  A disjunct that instead inspects the *kind* of the
    parameter graph (``isinstance(sl.logits.output, LogSoftmaxParameter)``) claims a value-level fact
    -- normalisation along the category axis -- and is accepted only together with a test of that
    operator's ``axis``; without it, logits normalised along another axis integrate to the constant."""
    fn = r.fn.node
    par: dict[int, ast.AST] = {}
    for n in ast.walk(fn):
        for ch in ast.iter_child_nodes(n):
            par[id(ch)] = n
    # the statement holding the call, and the branch it sits in
    cur: ast.AST = c
    conds: list[tuple[ast.AST, bool]] = []  # (test, taken-when-true)
    while cur is not fn and id(cur) in par:
        up = par[id(cur)]
        if isinstance(up, ast.If):
            if any(cur is b for b in up.body):
                conds.append((up.test, True))
            elif any(cur is b for b in up.orelse):
                conds.append((up.test, False))
        elif isinstance(up, ast.IfExp):
            if cur is up.body:
                conds.append((up.test, True))
            elif cur is up.orelse:
                conds.append((up.test, False))
        cur = up
    if not conds:
        return [ok("R2e", r.fn.qualname, "const-guard", "the constant integral is unconditional (the layer has no normalisation parameter)", csite, nontrivial=False)]
    out: list[Ob] = []
    for test, pos in conds:
        disj: list[tuple[ast.AST, bool]]
        if pos:
            disj = [(d, True) for d in (test.values if isinstance(test, ast.BoolOp) and isinstance(test.op, ast.Or) else [test])]
        else:
            # taken when the test is false: not (a and b) = (not a) or (not b); not (a or b) is a conjunction -> every part must hold, judged as one
            if isinstance(test, ast.BoolOp) and isinstance(test.op, ast.And):
                disj = [(d, False) for d in test.values]
            else:
                disj = [(test, False)]
        for d, polarity in disj:
            kind = _guard_kind(d, polarity, pname)
            inst = f"const-guard:{unparse(d)[:50]}"
            if kind == "absent":
                out.append(ok("R2e", r.fn.qualname, inst, "constant integral chosen because the normalisation parameter is absent", csite))
            elif kind == "normalised-checked":
                out.append(ok("R2e", r.fn.qualname, inst, "constant integral chosen for a softmax-normalised parameter whose axis is tested", csite))
            elif kind == "normalised-unchecked":
                out.append(
                    viol(
                        "R2e",
                        r.fn.qualname,
                        inst,
                        f"the constant integral is chosen when `{unparse(d)[:80]}` -- the kind of the parameter's last operator -- without testing the axis it "
                        "normalises: a parameter normalised along another axis (or wrapped in any operator of that kind) does not integrate to the constant",
                        csite,
                    )
                )
            else:
                out.append(unres("R2e", r.fn.qualname, inst, "a condition for the constant integral this rule has no model of", csite))
    return out


def _guard_kind(d: ast.AST, polarity: bool, pname: str) -> str:
    # <pname>.<x> is None  (positive)   /   <pname>.<x> is not None  (negated)
    if isinstance(d, ast.UnaryOp) and isinstance(d.op, ast.Not):
        return _guard_kind(d.operand, not polarity, pname)
    if isinstance(d, ast.Compare) and len(d.ops) == 1 and isinstance(d.comparators[0], ast.Constant) and d.comparators[0].value is None:
        chain = dotted(d.left) or ""
        if chain.startswith(pname + "."):
            if (isinstance(d.ops[0], ast.Is) and polarity) or (isinstance(d.ops[0], ast.IsNot) and not polarity):
                return "absent"
        return "other"
    parts = d.values if isinstance(d, ast.BoolOp) and isinstance(d.op, ast.And) else [d]
    has_kind = any(
        isinstance(x, ast.Call) and (dotted(x.func) or "") == "isinstance" and len(x.args) == 2 and "oftmax" in unparse(x.args[1])
        for p_ in parts
        for x in ast.walk(p_)
    )
    if has_kind and polarity:
        has_axis = any(
            isinstance(x, ast.Compare) and any(isinstance(y, ast.Attribute) and y.attr in ("axis", "dim") for y in ast.walk(x))
            for p_ in parts
            for x in ast.walk(p_)
        )
        return "normalised-checked" if has_axis else "normalised-unchecked"
    return "other"


# ------------------------------------------------------------------------------------------ R2f
def order_sensitive(ctx: Ctx, c: ClassInfo) -> bool:
    """A parameter operator is order-sensitive iff its ``shape`` combines, in one arithmetic
    expression, sizes taken from two *different* inputs."""
    f = ctx.repo.lookup(c, "shape")
    if f is None:
        return False

    def idx_of(e: ast.AST) -> set[int]:
        s: set[int] = set()
        for n in ast.walk(e):
            if isinstance(n, ast.Attribute) and isinstance(n.value, ast.Name) and n.value.id == "self":
                if n.attr.startswith("in_shape") and n.attr[len("in_shape") :].isdigit():
                    s.add(int(n.attr[len("in_shape") :]) - 1)
            if isinstance(n, ast.Subscript) and unparse(n.value) == "self.in_shapes" and isinstance(n.slice, ast.Constant):
                s.add(n.slice.value)
        return s

    for n in ast.walk(f.node):
        if isinstance(n, ast.BinOp):
            l, r = idx_of(n.left), idx_of(n.right)
            if l and r and l != r:
                return True
    return False


def _roots(ld: LocalDefs, e: ast.AST, operand_names: set[str]) -> set[str]:
    out: set[str] = set()
    for x in ld.expand(e):
        for n in ast.walk(x):
            if isinstance(n, ast.Name) and n.id in operand_names and n.id not in ld.defs:
                out.add(n.id)
            elif isinstance(n, ast.Name) and n.id in operand_names:
                out.add(n.id)
    return out


def r2f(ctx: Ctx) -> list[Ob]:
    out: list[Ob] = []
    pnode = ctx.repo.cls("cirkit.symbolic.parameters.ParameterNode")
    for r in operator_rules(ctx):
        if r.kind != "MULTIPLICATION" or len(r.operands) != 2:
            continue
        names = [n for n, _ in r.operands]
        nameset = set(names)
        ld = LocalDefs(r.fn.node)
        for n in walk_no_nested(r.fn.node):
            if not isinstance(n, ast.Call):
                continue
            callee = (dotted(n.func) or "").split(".")[-1]
            if callee not in ("from_binary", "from_nary") or not n.args:
                continue
            opcall = n.args[0]
            opc = None
            for e in ld.expand(opcall):
                if isinstance(e, ast.Call):
                    k = ctx.repo.get_class(r.fn.module, e.func)
                    if k is not None and ctx.repo.is_subclass(k, pnode):
                        opc, opcall = k, e
                        break
            if opc is None:
                continue
            site = f"{r.fn.module.relpath}:{n.lineno}"
            if not order_sensitive(ctx, opc):
                out.append(note("R2f", r.fn.qualname, f"{opc.name}", "commutative operator: exempt (derived from its shape property)", site))
                continue
            operands = list(n.args[1:])
            shapes = list(opcall.args)
            for label, seq in (("operand", operands), ("shape", shapes)):
                if len(seq) % 2:
                    out.append(unres("R2f", r.fn.qualname, f"{opc.name}:{label}", "odd number of inputs", site))
                    continue
                half = len(seq) // 2
                for i, e in enumerate(seq):
                    want = names[0] if i < half else names[1]
                    roots = _roots(ld, e, nameset)
                    inst = f"{opc.name}:{label}{i}#{_occurrence(r.fn.node, n)}"
                    if roots == {want}:
                        out.append(ok("R2f", r.fn.qualname, inst, f"input {i} derives from {want} only", site))
                    elif not roots:
                        out.append(unres("R2f", r.fn.qualname, inst, f"{unparse(e)} derives from neither operand", site))
                    else:
                        out.append(
                            viol(
                                "R2f",
                                r.fn.qualname,
                                inst,
                                f"{label} {i} of the order-sensitive operator {opc.name} derives from {sorted(roots)} but position {i} "
                                f"belongs to {want}: the product's units are no longer in Kronecker order (i, j)",
                                site,
                            )
                        )
    return out


# ------------------------------------------------------------------------------------------ R2g
def r2g(ctx: Ctx, which: str) -> list[Ob]:
    out: list[Ob] = []
    f = ctx.repo.func(f"{FUNC_MOD}.{which}")
    ld = LocalDefs(f.node)
    want = {"differentiate": {"order": "order", "var_idx": None}, "integrate": {"scope": "scope"}}[which]
    kindname = {"differentiate": "DIFFERENTIATION", "integrate": "INTEGRATION"}[which]
    found = False
    for n in walk_no_nested(f.node):
        if not isinstance(n, ast.Call) or not isinstance(n.func, ast.Name):
            continue
        # func = registry.retrieve_rule(LayerOperator.X, ...); func(sl, ...)
        defs = ld.defs.get(n.func.id, [])
        if not any(isinstance(d, ast.Call) and (dotted(d.func) or "").endswith("retrieve_rule") and kindname in unparse(d) for d in defs):
            continue
        found = True
        site = f"{f.module.relpath}:{n.lineno}"
        kw = {k.arg: k.value for k in n.keywords if k.arg}
        for k, src in want.items():
            if k not in kw:
                out.append(viol("R2g", f.qualname, f"kw:{k}", f"layer rule called without {k}=: the rule's default is used whatever the caller asked", site))
            elif src is not None and src not in {x.id for e in ld.expand(kw[k]) for x in ast.walk(e) if isinstance(x, ast.Name)}:
                out.append(viol("R2g", f.qualname, f"kw:{k}", f"{k}={unparse(kw[k])} does not derive from the operator's argument '{src}'", site))
            else:
                out.append(ok("R2g", f.qualname, f"kw:{k}", f"{k} forwarded to the layer rule", site))
    if not found:
        out.append(unres("R2g", f.qualname, "rule-call", "call of the retrieved layer rule not found", f.loc))
    if which == "differentiate":
        for r in operator_rules(ctx):
            if r.kind != "DIFFERENTIATION":
                continue
            rl = LocalDefs(r.fn.node)
            hit = False
            for n in walk_no_nested(r.fn.node):
                if isinstance(n, ast.Call) and (dotted(n.func) or "").split(".")[-1] == "PolynomialDifferential":
                    hit = True
                    kw = {k.arg: k.value for k in n.keywords if k.arg}
                    site = f"{r.fn.module.relpath}:{n.lineno}"
                    if "order" in kw and "order" in {x.id for e in rl.expand(kw["order"]) for x in ast.walk(e) if isinstance(x, ast.Name)}:
                        out.append(ok("R2g", r.fn.qualname, "order->PolynomialDifferential", "order forwarded", site))
                    else:
                        out.append(viol("R2g", r.fn.qualname, "order->PolynomialDifferential", "PolynomialDifferential built without the requested order: every order gives the first derivative", site))
            if not hit:
                out.append(unres("R2g", r.fn.qualname, "order->PolynomialDifferential", "no PolynomialDifferential call", r.fn.loc))
    return out
