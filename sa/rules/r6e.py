"""R6e / R10h -- memoisation that aliases or outlives mutable state.

R6e  No function of cirkit that *constructs and returns* an object (``cls(..)`` / a class of the
     repository) is memoised (``functools.cache`` / ``lru_cache``): every caller would receive the same
     mutable object.  ``OperatorRegistry.from_default_rules`` is the case that matters for C18: each
     pipeline context must own its registry, because a registry keeps the context-variable token of
     its own ``with`` block -- shared, a nested context overwrites the outer token and the previously
     active registry is not restored.
R10h No method memoises a derived fact in a dict attribute (``if k in self.D: return self.D[k]`` ..
     ``self.D[k] = v``) in a class where another method *mutates the structure in place and queries
     the memoised method while doing so* (``smooth`` extends node inputs and relies on ``node_scope``
     seeing the extension).
"""

from __future__ import annotations

import ast

from ..core import Ctx, Ob, ok, unres, viol
from ..flow import LocalDefs
from ..model import ClassInfo, FuncInfo, dotted, is_self_attr, unparse, walk_no_nested

CACHES = {"cache", "lru_cache", "cached"}
MUTATORS = {"append", "extend", "insert", "remove", "pop", "update", "add", "discard", "clear", "setdefault"}


def _is_cached(f: FuncInfo) -> bool:
    for d in f.node.decorator_list:
        e = d.func if isinstance(d, ast.Call) else d
        if (dotted(e) or "").split(".")[-1] in CACHES:
            return True
    return False


def r6e(ctx: Ctx) -> list[Ob]:
    obs: list[Ob] = []
    n_factories = 0
    for f in ctx.repo.iter_functions():
        rets = [r.value for r in walk_no_nested(f.node) if isinstance(r, ast.Return) and r.value is not None]
        if not rets:
            continue
        ld = LocalDefs(f.node)
        constructs = False
        for r in rets:
            for e in ld.expand(r):
                if isinstance(e, ast.Call):
                    callee = dotted(e.func) or ""
                    if callee in ("cls", "type(self)") or (f.cls is not None and callee == f.cls.name):
                        constructs = True
                    else:
                        try:
                            c = ctx.repo.get_class(f.module, e.func)
                        except Exception:
                            c = None
                        if c is not None and (callee.endswith(c.name)):
                            constructs = True
        if not constructs:
            continue
        if f.is_classmethod or f.is_static or f.cls is None:
            n_factories += 1
            if _is_cached(f):
                obs.append(viol("R6e", f.qualname, "memoised-factory", f"{f.name} constructs and returns an object but is memoised: every caller shares one mutable instance (for a registry: one context-variable token slot for all pipeline contexts, so nested contexts do not restore the outer one)", f.loc))
            else:
                obs.append(ok("R6e", f.qualname, "memoised-factory", "a fresh object per call", f.loc, nontrivial=(f.name == "from_default_rules")))
    return obs


def r10h(ctx: Ctx, modules: tuple[str, ...] = ("cirkit.templates", "cirkit.symbolic", "cirkit.utils")) -> list[Ob]:
    obs: list[Ob] = []
    for c in ctx.repo.classes.values():
        if not c.module.name.startswith(modules):
            continue
        memo: dict[str, tuple[FuncInfo, str]] = {}  # method name -> (function, dict attribute)
        for m in c.methods.values():
            stores = set()
            reads = set()
            for n in walk_no_nested(m.node):
                if isinstance(n, ast.Assign) and len(n.targets) == 1 and isinstance(n.targets[0], ast.Subscript):
                    a = is_self_attr(n.targets[0].value)
                    if a:
                        stores.add(a)
                if isinstance(n, ast.Compare) and len(n.ops) == 1 and isinstance(n.ops[0], ast.In):
                    a = is_self_attr(n.comparators[0])
                    if a:
                        reads.add(a)
            both = stores & reads
            has_param = len([p for p in m.params if p.name != "self"]) >= 1
            if both and has_param and m.name != "__init__":
                memo[m.name] = (m, sorted(both)[0])
        n_classes_with_mutation = 0
        for m in c.methods.values():
            mutates = []
            for n in walk_no_nested(m.node):
                if isinstance(n, ast.Call) and isinstance(n.func, ast.Attribute) and n.func.attr in MUTATORS and isinstance(n.func.value, ast.Subscript):
                    mutates.append(n)  # in_nodes[x].extend(..)
            if not mutates:
                continue
            n_classes_with_mutation += 1
            calls = {n.func.attr for n in walk_no_nested(m.node) if isinstance(n, ast.Call) and isinstance(n.func, ast.Attribute) and isinstance(n.func.value, ast.Name) and n.func.value.id == "self"}
            for mn, (mf, d) in memo.items():
                inst = f"{m.name}->{mn}"
                if mn in calls:
                    clears = any(isinstance(n, ast.Call) and isinstance(n.func, ast.Attribute) and n.func.attr == "clear" and is_self_attr(n.func.value) == d for n in walk_no_nested(m.node))
                    if clears:
                        obs.append(ok("R10h", c.qualname, inst, f"self.{d} is cleared by the mutating method", m.loc))
                    else:
                        obs.append(viol("R10h", c.qualname, inst, f"{m.name} changes node inputs in place ({unparse(mutates[0])[:50]}) and queries {mn}() while doing so, but {mn} memoises its answers in self.{d}: a node whose inputs were extended keeps its earlier answer", mf.loc))
            if not memo:
                obs.append(ok("R10h", c.qualname, f"{m.name}:no-memo", "structure mutated in place; no memoising query method in the class", m.loc, nontrivial=False))
    return obs


# ------------------------------------------------------------------------------------------ R6s
MUTABLE_CTORS = {"dict", "list", "set", "defaultdict", "OrderedDict", "Counter", "deque", "BiMap", "WeakKeyDictionary", "WeakValueDictionary"}


def _is_mutable_container(e: ast.AST) -> bool:
    if isinstance(e, (ast.Dict, ast.List, ast.Set, ast.DictComp, ast.ListComp, ast.SetComp)):
        return True
    if isinstance(e, ast.Call):
        return (dotted(e.func) or "").split(".")[-1] in MUTABLE_CTORS
    return False


def _is_classvar(ann: ast.AST | None) -> bool:
    if ann is None:
        return False
    txt = unparse(ann)
    return txt.startswith(("ClassVar", "typing.ClassVar", "Final", "typing.Final"))


def r6s(ctx: Ctx, modules: tuple[str, ...] = ("cirkit",)) -> list[Ob]:
    """R6s -- per-instance state is created per instance.

    A mutable container bound in a *class body* (``_compiled_parameters: dict[..] = {}``) is one
    object shared by every instance.  When a method of the class (or of a subclass) mutates it
    through ``self`` -- ``self.X[k] = v``, ``self.X.clear()``, ``self.X += ..`` -- and no ``__init__``
    in the hierarchy rebinds ``self.X``, every instance writes into the same container: two compilers
    (two pipeline contexts) then share one symbolic -> compiled parameter registry, and a circuit
    derived in one context points at the tensors the *other* context compiled last.  Attributes
    declared ``ClassVar`` / ``Final`` (registries that are shared on purpose and written through
    ``cls``) and dataclass ``field(default_factory=..)`` defaults are not instances of the pattern.
    """
    obs: list[Ob] = []
    for c in ctx.repo.classes.values():
        if not c.module.name.startswith(modules):
            continue
        shared: dict[str, ast.AST] = {}
        for st in c.node.body:
            if isinstance(st, ast.AnnAssign) and isinstance(st.target, ast.Name) and st.value is not None:
                if _is_mutable_container(st.value) and not _is_classvar(st.annotation):
                    shared[st.target.id] = st
            elif isinstance(st, ast.Assign) and len(st.targets) == 1 and isinstance(st.targets[0], ast.Name):
                if _is_mutable_container(st.value):
                    shared[st.targets[0].id] = st
        if not shared:
            obs.append(ok("R6s", c.qualname, "class-level-state", "no mutable container is bound in the class body (or only ClassVar registries)", c.loc, nontrivial=False))
            continue
        family = [c] + [x for x in ctx.repo.subclasses(c) if x is not c]
        for name, st in shared.items():
            rebinds = False
            mutated_at: str | None = None
            for k in family:
                for m in k.methods.values():
                    for n in walk_no_nested(m.node):
                        # self.X = ..   in __init__ (or any method run by __init__ is out of reach: only __init__ counts)
                        if isinstance(n, (ast.Assign, ast.AnnAssign)) and m.name == "__init__":
                            tg = n.targets if isinstance(n, ast.Assign) else [n.target]
                            if any(is_self_attr(t) == name for t in tg) and getattr(n, "value", None) is not None:
                                rebinds = True
                        if isinstance(n, (ast.Subscript,)) and isinstance(n.ctx, (ast.Store, ast.Del)) and is_self_attr(n.value) == name:
                            mutated_at = mutated_at or f"{k.module.relpath}:{n.lineno} ({m.name}: self.{name}[..] written)"
                        if isinstance(n, ast.Call) and isinstance(n.func, ast.Attribute) and n.func.attr in MUTATORS and is_self_attr(n.func.value) == name:
                            mutated_at = mutated_at or f"{k.module.relpath}:{n.lineno} ({m.name}: self.{name}.{n.func.attr}(..))"
                        if isinstance(n, ast.AugAssign) and is_self_attr(n.target) == name:
                            mutated_at = mutated_at or f"{k.module.relpath}:{n.lineno} ({m.name}: self.{name} augmented in place)"
            loc = f"{c.module.relpath}:{st.lineno}"
            if mutated_at and not rebinds:
                obs.append(
                    viol(
                        "R6s",
                        c.qualname,
                        f"class-level-state:{name}",
                        f"`{unparse(st)[:70]}` is evaluated once, in the class body, and mutated through self at {mutated_at}; no __init__ rebinds "
                        f"self.{name}: all instances of {c.name} share one container (two compilers / pipeline contexts overwrite each other's "
                        "symbolic -> compiled entries, and a derived circuit points at tensors of the other context)",
                        loc,
                    )
                )
            else:
                obs.append(ok("R6s", c.qualname, f"class-level-state:{name}", "rebound per instance in __init__" if rebinds else "never mutated through self", loc))
    return obs


# ------------------------------------------------------------------------------------------ R6w
WEAK = {"WeakKeyDictionary", "WeakValueDictionary", "WeakSet", "WeakMethod", "ref", "proxy", "finalize"}


def r6w(ctx: Ctx, modules: tuple[str, ...] = ("cirkit.backend", "cirkit.pipeline", "cirkit.utils.algorithms", "cirkit.symbolic.registry")) -> list[Ob]:
    """R6w -- registrations are strong references.

    The compiled / symbolic association (``BiMap``), the parameter registry of the compiler and the
    rule registries promise that what was registered can be queried later ('compiling the same
    symbolic circuit again returns the same compiled object', operators applied to *compiled*
    circuits look their symbolic circuits up).  A weak container (``weakref.WeakKeyDictionary`` ..)
    in their storage makes an entry live only as long as somebody else holds the key: the symbolic
    result of ``ctx.multiply(..)`` is held by the map alone and is gone when the call returns."""
    out: list[Ob] = []
    n_cls = 0
    for c in ctx.repo.classes.values():
        if not c.module.name.startswith(modules):
            continue
        n_cls += 1
        for m in c.methods.values():
            for n in walk_no_nested(m.node):
                if isinstance(n, ast.Call):
                    name = (dotted(n.func) or "").split(".")[-1]
                    full = dotted(n.func) or ""
                    if name in WEAK and (name.startswith("Weak") or full.startswith("weakref.")):
                        out.append(viol("R6w", c.qualname, f"weak-storage:{m.name}", f"{c.name}.{m.name} stores registrations in {full}(..): an entry disappears as soon as nothing else references its key / value -- lookups of a registered circuit (has_symbolic, get_symbolic_circuit, compiling it again) then fail or build a second object", f"{c.module.relpath}:{n.lineno}"))
    out.append(ok("R6w", "cirkit", "weak-storage", f"{n_cls} registry-side classes scanned: no weak container", "", nontrivial=(n_cls > 0)))
    return out


# ------------------------------------------------------------------------------------------ R6t
def r6t(ctx: Ctx) -> list[Ob]:
    """R6t -- a registry owns its table.

    A registry class (``*Registry``) that is constructed from a mapping and has a mutator (a method
    that stores into that mapping) has to *copy* the mapping in its constructor: the compilers are
    created with the module-level ``DEFAULT_*_RULES`` tables, so a registry that keeps the dict it was
    given turns ``add_rule`` on one compiler / pipeline context into a change of every other one --
    created earlier, later, and the default context.  (And every call site that hands a module-level
    table to a registry is listed, so that the set of shared tables is visible.)"""
    from ..model import is_self_attr, unparse, walk_no_nested

    out: list[Ob] = []
    n = 0
    for c in ctx.repo.classes.values():
        if not c.module.name.startswith("cirkit") or not c.name.endswith("Registry"):
            continue
        init = c.methods.get("__init__")
        if init is None:
            continue
        dict_params = [p.name for p in init.params if p.annotation is not None and any(k in unparse(p.annotation) for k in ("dict", "Dict", "Mapping"))]
        if not dict_params:
            continue
        stores: dict[str, tuple[ast.AST, int]] = {}
        for st in walk_no_nested(init.node):
            if isinstance(st, (ast.Assign, ast.AnnAssign)) and st.value is not None:
                tgts = st.targets if isinstance(st, ast.Assign) else [st.target]
                for t in tgts:
                    a = is_self_attr(t)
                    if a and any(isinstance(x, ast.Name) and x.id in dict_params for x in ast.walk(st.value)):
                        stores[a] = (st.value, st.lineno)
        for attr, (val, ln) in stores.items():
            # is the attribute mutated by some method of the class or of a subclass?
            mutated = False
            for k in [c] + [s for s in ctx.repo.classes.values() if ctx.repo.is_subclass(s, c) and s is not c]:
                for m in k.methods.values():
                    if m.name == "__init__":
                        continue
                    for x in walk_no_nested(m.node):
                        if isinstance(x, (ast.Assign, ast.AugAssign)):
                            for t in (x.targets if isinstance(x, ast.Assign) else [x.target]):
                                if isinstance(t, ast.Subscript) and is_self_attr(t.value) == attr:
                                    mutated = True
                        if isinstance(x, ast.Call) and isinstance(x.func, ast.Attribute) and x.func.attr in ("update", "pop", "setdefault", "clear", "__setitem__", "popitem") and is_self_attr(x.func.value) == attr:
                            mutated = True
                        if isinstance(x, ast.Delete) and any(isinstance(t, ast.Subscript) and is_self_attr(t.value) == attr for t in x.targets):
                            mutated = True
            if not mutated:
                continue
            n += 1
            loc = f"{init.module.relpath}:{ln}"
            # every occurrence of a dict parameter inside the stored value must sit under a copying call
            def copied(e: ast.AST, under: bool = False) -> bool:
                if isinstance(e, ast.Call):
                    nm = e.func.attr if isinstance(e.func, ast.Attribute) else getattr(e.func, "id", "")
                    if nm in ("dict", "copy", "deepcopy", "OrderedDict", "defaultdict", "ChainMap") and nm != "ChainMap":
                        under = True
                if isinstance(e, (ast.Dict, ast.DictComp)):
                    under = True
                if isinstance(e, ast.Name) and e.id in dict_params and not under:
                    # the bare name in a test position (`x is None`) is not a stored alias
                    return False
                return all(copied(ch, under) for ch in ast.iter_child_nodes(e))

            def strip_tests(e: ast.AST) -> ast.AST:
                # `A if <test> else B`: only A and B can be stored
                if isinstance(e, ast.IfExp):
                    return ast.Tuple(elts=[strip_tests(e.body), strip_tests(e.orelse)], ctx=ast.Load())
                if isinstance(e, ast.BoolOp):
                    return ast.Tuple(elts=[strip_tests(v) for v in e.values], ctx=ast.Load())
                return e

            if copied(strip_tests(val)):
                out.append(ok("R6t", c.qualname, f"owns:{attr}", f"the table given to the constructor is copied (`{unparse(val)[:50]}`)", loc))
            else:
                out.append(viol("R6t", c.qualname, f"owns:{attr}", f"`self.{attr} = {unparse(val)[:60]}` keeps the mapping it was given and the class mutates it (add_rule ..): every registry constructed from the same table -- the module-level default rules handed to each compiler -- sees the rule, so a rule added in one pipeline context is active in all the others", loc))
    if n == 0:
        out.append(unres("R6t", "cirkit", "owns", "no registry class constructed from a mapping it later mutates (another formulation): no verdict", ""))
    return out
