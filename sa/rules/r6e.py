"""R6e / R10h -- memoisation that aliases or outlives mutable state.

R6e  No function of cirkit that *constructs and returns* an object (``cls(..)`` / a class of the
     repository) is memoised (``functools.cache`` / ``lru_cache``): every caller would receive the same
     mutable object.  ``OperatorRegistry.from_default_rules`` is the case that matters for C18: each
     pipeline context must own its registry, because a registry keeps the context-variable token of
     its own ``with`` block -- shared, a nested context overwrites the outer token and the previously
     active registry is not restored.
R10h No method memoises a derived fact in a dict attribute (``if k in self.D: return self.D[k]`` ..
     ``self.D[k] = v``) in a class where another method *mutates the structure in place and queries
     the memoised method while doing so* (``smooth`` extends node inputs and relies on ``node_scope``
     seeing the extension).
"""

from __future__ import annotations

import ast

from ..core import Ctx, Ob, ok, unres, viol
from ..flow import LocalDefs
from ..model import ClassInfo, FuncInfo, dotted, is_self_attr, unparse, walk_no_nested

CACHES = {"cache", "lru_cache", "cached"}
MUTATORS = {"append", "extend", "insert", "remove", "pop", "update", "add", "discard", "clear", "setdefault"}


def _is_cached(f: FuncInfo) -> bool:
    for d in f.node.decorator_list:
        e = d.func if isinstance(d, ast.Call) else d
        if (dotted(e) or "").split(".")[-1] in CACHES:
            return True
    return False


def r6e(ctx: Ctx) -> list[Ob]:
    obs: list[Ob] = []
    n_factories = 0
    for f in ctx.repo.iter_functions():
        rets = [r.value for r in walk_no_nested(f.node) if isinstance(r, ast.Return) and r.value is not None]
        if not rets:
            continue
        ld = LocalDefs(f.node)
        constructs = False
        for r in rets:
            for e in ld.expand(r):
                if isinstance(e, ast.Call):
                    callee = dotted(e.func) or ""
                    if callee in ("cls", "type(self)") or (f.cls is not None and callee == f.cls.name):
                        constructs = True
                    else:
                        try:
                            c = ctx.repo.get_class(f.module, e.func)
                        except Exception:
                            c = None
                        if c is not None and (callee.endswith(c.name)):
                            constructs = True
        if not constructs:
            continue
        if f.is_classmethod or f.is_static or f.cls is None:
            n_factories += 1
            if _is_cached(f):
                obs.append(viol("R6e", f.qualname, "memoised-factory", f"{f.name} constructs and returns an object but is memoised: every caller shares one mutable instance (for a registry: one context-variable token slot for all pipeline contexts, so nested contexts do not restore the outer one)", f.loc))
            else:
                obs.append(ok("R6e", f.qualname, "memoised-factory", "a fresh object per call", f.loc, nontrivial=(f.name == "from_default_rules")))
    return obs


def r10h(ctx: Ctx, modules: tuple[str, ...] = ("cirkit.templates", "cirkit.symbolic", "cirkit.utils")) -> list[Ob]:
    obs: list[Ob] = []
    for c in ctx.repo.classes.values():
        if not c.module.name.startswith(modules):
            continue
        memo: dict[str, tuple[FuncInfo, str]] = {}  # method name -> (function, dict attribute)
        for m in c.methods.values():
            stores = set()
            reads = set()
            for n in walk_no_nested(m.node):
                if isinstance(n, ast.Assign) and len(n.targets) == 1 and isinstance(n.targets[0], ast.Subscript):
                    a = is_self_attr(n.targets[0].value)
                    if a:
                        stores.add(a)
                if isinstance(n, ast.Compare) and len(n.ops) == 1 and isinstance(n.ops[0], ast.In):
                    a = is_self_attr(n.comparators[0])
                    if a:
                        reads.add(a)
            both = stores & reads
            has_param = len([p for p in m.params if p.name != "self"]) >= 1
            if both and has_param and m.name != "__init__":
                memo[m.name] = (m, sorted(both)[0])
        n_classes_with_mutation = 0
        for m in c.methods.values():
            mutates = []
            for n in walk_no_nested(m.node):
                if isinstance(n, ast.Call) and isinstance(n.func, ast.Attribute) and n.func.attr in MUTATORS and isinstance(n.func.value, ast.Subscript):
                    mutates.append(n)  # in_nodes[x].extend(..)
            if not mutates:
                continue
            n_classes_with_mutation += 1
            calls = {n.func.attr for n in walk_no_nested(m.node) if isinstance(n, ast.Call) and isinstance(n.func, ast.Attribute) and isinstance(n.func.value, ast.Name) and n.func.value.id == "self"}
            for mn, (mf, d) in memo.items():
                inst = f"{m.name}->{mn}"
                if mn in calls:
                    clears = any(isinstance(n, ast.Call) and isinstance(n.func, ast.Attribute) and n.func.attr == "clear" and is_self_attr(n.func.value) == d for n in walk_no_nested(m.node))
                    if clears:
                        obs.append(ok("R10h", c.qualname, inst, f"self.{d} is cleared by the mutating method", m.loc))
                    else:
                        obs.append(viol("R10h", c.qualname, inst, f"{m.name} changes node inputs in place ({unparse(mutates[0])[:50]}) and queries {mn}() while doing so, but {mn} memoises its answers in self.{d}: a node whose inputs were extended keeps its earlier answer", mf.loc))
            if not memo:
                obs.append(ok("R10h", c.qualname, f"{m.name}:no-memo", "structure mutated in place; no memoising query method in the class", m.loc, nontrivial=False))
    return obs
