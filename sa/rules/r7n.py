"""R7n -- in a region graph a scope is not a node identity (C16).

Several region nodes may have the same scope (random binary trees with repetitions, quad graphs,
Poon-Domingos): structured decomposability is a statement *per scope*, while the parent of a
partition is a *node*.

R7n-sd   ``RegionGraph.is_structured_decomposable`` compares the decompositions of all partitions that
         share a scope: the comparison is keyed by ``.scope`` (a mapping indexed by a scope, or an
         equality of two scopes).  The recognised wrong domain -- a loop over region *nodes* comparing
         only the partitions below one node -- is a violation; other formulations are unresolved.
R7n-id   no mapping in the class is built from ``<node>.scope`` to the node or to its index
         (``{node.scope: idx for node, idx in ..}``): looking a region up by scope returns an arbitrary
         one of the regions over that scope (``dump`` would attach partitions to the wrong parent, so
         ``load(dump(g))`` is another graph).
"""

from __future__ import annotations

import ast

from ..core import Ctx, Ob, ok, unres, viol
from ..flow import LocalDefs
from ..model import AnalysisError, unparse, walk_no_nested

RG = "cirkit.templates.region_graph.graph.RegionGraph"


def _is_scope_attr(e: ast.AST) -> bool:
    return isinstance(e, ast.Attribute) and e.attr == "scope"


def structured(ctx: Ctx) -> list[Ob]:
    c = ctx.repo.cls(RG)
    f = c.methods.get("is_structured_decomposable")
    if f is None:
        raise AnalysisError("vanished anchor: RegionGraph.is_structured_decomposable")
    keyed = False
    for n in ast.walk(f.node):
        if isinstance(n, ast.Subscript) and _is_scope_attr(n.slice):
            keyed = True
        if isinstance(n, ast.Compare) and len(n.ops) == 1 and isinstance(n.ops[0], (ast.Eq, ast.NotEq)) and _is_scope_attr(n.left) and _is_scope_attr(n.comparators[0]):
            keyed = True
        if isinstance(n, ast.DictComp) and _is_scope_attr(n.key):
            keyed = True
    if keyed:
        return [ok("R7n", f.qualname, "per-scope", "decompositions are compared per scope (keyed by .scope)", f.loc)]
    per_node = any(isinstance(n, (ast.For, ast.comprehension)) and "region_nodes" in unparse(n.iter) for n in ast.walk(f.node)) and any(
        isinstance(n, ast.Call) and isinstance(n.func, ast.Attribute) and n.func.attr in ("region_inputs", "node_inputs") for n in ast.walk(f.node)
    )
    if per_node:
        return [viol("R7n", f.qualname, "per-scope", "structured decomposability is decided per region *node* (the partitions below one node): two region nodes over the same scope that are split differently go unnoticed -- the flag no longer matches the partitions", f.loc)]
    return [unres("R7n", f.qualname, "per-scope", "neither keyed by scope nor the recognised per-node form: no verdict", f.loc)]


def identity(ctx: Ctx) -> list[Ob]:
    c = ctx.repo.cls(RG)
    out: list[Ob] = []
    n_maps = 0
    for m in c.methods.values():
        for n in walk_no_nested(m.node):
            key = val = None
            gens: list[ast.comprehension] = []
            if isinstance(n, ast.DictComp):
                key, val, gens = n.key, n.value, n.generators
            if key is None or not _is_scope_attr(key) or not isinstance(key.value, ast.Name):
                continue
            n_maps += 1
            node_var = key.value.id
            targets = {x.id for g in gens for x in ast.walk(g.target) if isinstance(x, ast.Name)}
            val_names = {x.id for x in ast.walk(val) if isinstance(x, ast.Name)}
            site = f"{m.module.relpath}:{n.lineno}"
            if val_names & targets:
                out.append(viol("R7n", m.qualname, f"scope-as-identity:{unparse(n)[:40]}", f"`{unparse(n)[:70]}` maps a scope to a node / node index: several region nodes may share a scope, the lookup returns an arbitrary one of them", site))
            else:
                out.append(ok("R7n", m.qualname, f"scope-keyed:{unparse(n)[:40]}", "a scope-keyed mapping whose values are not nodes", site))
    if not out:
        out.append(ok("R7n", RG, "scope-as-identity", "no mapping from a scope to a node or node index in the class", c.loc, nontrivial=False))
    return out


def canonical(ctx: Ctx) -> list[Ob]:
    """R7n-canon -- the decomposition of a partition that ``is_structured_decomposable`` compares is
    order-free: a set / frozenset of the child scopes, or a tuple sorted with an explicit total-order
    key.  An unsorted tuple over ``node_inputs(partition)`` makes the flag depend on the order in which
    a partition lists its children: two repetitions that split a region the same way, listed
    {0,1}|{2,3} and {2,3}|{0,1}, are reported as different decompositions."""
    c = ctx.repo.cls(RG)
    f = c.methods.get("is_structured_decomposable")
    if f is None:
        raise AnalysisError("vanished anchor: RegionGraph.is_structured_decomposable")
    out: list[Ob] = []
    k = 0
    for n in ast.walk(f.node):
        if not (isinstance(n, ast.Call) and isinstance(n.func, ast.Name) and n.func.id in ("tuple", "list", "set", "frozenset", "sorted") and n.args):
            continue
        g = n.args[0]
        if not (isinstance(g, (ast.GeneratorExp, ast.ListComp, ast.SetComp)) and _is_scope_attr(g.elt)):
            if not (isinstance(g, ast.Call) and isinstance(g.func, ast.Name) and g.func.id == "sorted"):
                continue
        k += 1
        site = f"{f.module.relpath}:{n.lineno}"
        inst = f"decomposition#{k}"
        if n.func.id in ("set", "frozenset"):
            out.append(ok("R7n", f.qualname, inst, "child scopes compared as a set", site))
        elif n.func.id == "sorted" or (isinstance(g, ast.Call) and isinstance(g.func, ast.Name) and g.func.id == "sorted"):
            s_ = n if n.func.id == "sorted" else g
            if any(kw.arg == "key" for kw in s_.keywords):  # type: ignore[union-attr]
                out.append(ok("R7n", f.qualname, inst, "child scopes sorted with an explicit key", site))
            else:
                out.append(viol("R7n", f.qualname, inst, "child scopes sorted with Scope's own order, which is the subset order (not total): the result depends on the listing order", site))
        else:
            out.append(viol("R7n", f.qualname, inst, f"`{unparse(n)[:70]}` keeps the order in which the partition lists its children: the same split listed in another order counts as a different decomposition, so a structured-decomposable graph (e.g. RandomBinaryTree(3, num_repetitions=2, seed=5)) is flagged as not structured-decomposable", site))
    if not out:
        out.append(unres("R7n", f.qualname, "decomposition", "no collection of child scopes found: another formulation, no verdict", f.loc))
    return out


# ------------------------------------------------------------------------------------------ R7v
CONNECTIVITY_CALLS = {"eigvals", "eigvalsh", "eigh", "eig", "connected_components", "matrix_power", "matrix_rank", "floyd_warshall", "shortest_path", "breadth_first_order", "depth_first_order", "dijkstra"}


def connectivity_not_completeness(ctx: Ctx, fq: str = "cirkit.templates.region_graph.graph.RegionGraph.is_compatible") -> list[Ob]:
    """R7v -- "the two partitionings force everything together" is connectedness, a transitive notion.

    ``is_compatible`` builds the one-step relation "regions i and j of the first partition both
    overlap some region of the second" and has to answer whether it links *all* regions into one
    component -- then no common refinement exists and the graphs are incompatible.  Regions can be
    linked through a chain (A~B, B~C, A and C disjoint), so the refusing test has to derive from a
    transitive computation: the spectrum of the Laplacian, connected components, a matrix power /
    closure, a traversal loop.  A test of the one-step matrix alone (``adj.all()``: completeness)
    reports chains as compatible."""
    f = ctx.repo.func(fq)
    ld = LocalDefs(f.node)
    out: list[Ob] = []
    rets = []
    par: dict[int, ast.AST] = {}
    for n in ast.walk(f.node):
        for ch in ast.iter_child_nodes(n):
            par[id(ch)] = n
    for r in walk_no_nested(f.node):
        if isinstance(r, ast.Return) and isinstance(r.value, ast.Constant) and r.value.value is False:
            cur: ast.AST | None = r
            tests = []
            in_loop = False
            while cur is not None and cur is not f.node:
                up = par.get(id(cur))
                if isinstance(up, ast.If) and any(cur is b for b in up.body):
                    tests.append(up.test)
                if isinstance(up, (ast.For, ast.While)):
                    in_loop = True
                cur = up
            if in_loop and tests:
                rets.append((r, tests))
    if not rets:
        return [unres("R7v", f.qualname, "transitive", "no `return False` under a condition inside the partition loop (another formulation): no verdict", f.loc)]
    for r, tests in rets:
        loc = f"{f.module.relpath}:{r.lineno}"
        exprs = [e for t in tests for e in [t, *ld.expand(t)]]
        calls = {(c.func.attr if isinstance(c.func, ast.Attribute) else getattr(c.func, "id", "")) for e in exprs for c in ast.walk(e) if isinstance(c, ast.Call)}
        # a name updated inside a while / for loop of its own (a closure computed by iteration)
        names = {x.id for e in exprs for x in ast.walk(e) if isinstance(x, ast.Name)}
        iterated = False
        for w in ast.walk(f.node):
            if isinstance(w, ast.While):
                stored = {t.id for s in ast.walk(w) if isinstance(s, (ast.Assign, ast.AugAssign)) for t in ast.walk(s.targets[0] if isinstance(s, ast.Assign) else s.target) if isinstance(t, ast.Name)}
                if stored & names:
                    iterated = True
        if calls & CONNECTIVITY_CALLS or iterated:
            out.append(ok("R7v", f.qualname, "transitive", f"the refusal derives from a transitive computation ({sorted(calls & CONNECTIVITY_CALLS) or 'an iterated closure'})", loc))
        else:
            out.append(viol("R7v", f.qualname, "transitive", f"the refusal `{unparse(tests[0])[:50]}` looks at the one-step overlap relation only ({sorted(calls)[:4]}): regions linked through a chain (A~B, B~C) are one component without the relation being complete, so incompatible region graphs are reported compatible", loc))
    return out
