"""R13a -- per-variable index agreement in the templates.

A per-variable table (factories / kwargs / sizes given *per variable id*) that is read to build the
input layer of variable ``v`` must be read at index ``v``: in every call that receives
``Scope([v])``, each table read feeding the same call (as callee ``T[idx](..)`` or as argument
``T[idx]``) must satisfy ``idx == v`` (modulo ``-1 == len(T) - 1``), or be bound together with
``v`` by one ``enumerate(T)`` / ``enumerate(T[a:], start=a)``.
"""

from __future__ import annotations

import ast

from ..core import Ctx, Ob, ok, unres, viol
from ..flow import LocalDefs
from ..model import AnalysisError, unparse


def _scope_singleton(e: ast.AST) -> ast.AST | None:
    """``Scope([v])`` / ``Scope((v,))`` / ``Scope({v})`` -> v"""
    if isinstance(e, ast.Call) and isinstance(e.func, ast.Name) and e.func.id == "Scope" and len(e.args) == 1 and not e.keywords:
        a = e.args[0]
        if isinstance(a, (ast.List, ast.Tuple, ast.Set)) and len(a.elts) == 1 and not isinstance(a.elts[0], ast.Starred):
            return a.elts[0]
    return None


def _norm(idx: ast.AST, table: str) -> str:
    t = unparse(idx).replace(" ", "")
    if t == f"len({table})-1":
        return "-1"
    return t


def _enum_binding(ld: LocalDefs, name: str, same: ast.Call | None = None) -> tuple[ast.Call, int] | None:
    """name bound as position k of an element of ``enumerate(..)`` -> (the enumerate call, k)"""
    for d in ld.defs.get(name, []):
        b = _enum_binding_of(d)
        if b is not None and (same is None or b[0] is same):
            return b
    return None


def _enum_binding_of(d: ast.AST) -> tuple[ast.Call, int] | None:
    if isinstance(d, ast.Subscript) and isinstance(d.slice, ast.Constant) and isinstance(d.slice.value, int):
        inner = d.value
        if isinstance(inner, ast.Subscript) and isinstance(inner.slice, ast.Name) and inner.slice.id == "*":
            c = inner.value
            if isinstance(c, ast.Call) and isinstance(c.func, ast.Name) and c.func.id == "enumerate" and c.args:
                return c, d.slice.value
    return None


def _enum_aligned(c: ast.Call) -> tuple[bool | None, str]:
    """Does ``enumerate(X, start=s)`` number the elements of X by their index in the underlying table?"""
    start = None
    for kw in c.keywords:
        if kw.arg == "start":
            start = kw.value
    if len(c.args) > 1:
        start = c.args[1]
    s = unparse(start).replace(" ", "") if start is not None else "0"
    x = c.args[0]
    if isinstance(x, ast.Subscript) and isinstance(x.slice, ast.Slice):
        lo = unparse(x.slice.lower).replace(" ", "") if x.slice.lower is not None else "0"
        if x.slice.step is not None:
            return None, "stepped slice"
        return (lo == s), f"enumerate({unparse(x)}, start={s})"
    if isinstance(x, (ast.Name, ast.Attribute)):
        return (s == "0"), f"enumerate({unparse(x)}, start={s})"
    return None, unparse(c)


def r13a(ctx: Ctx, funcs: list[str], tables: dict[str, set[str]] | None = None, require: int = 1) -> list[Ob]:
    out: list[Ob] = []
    n_sites = 0
    for fq in funcs:
        f = ctx.repo.func(fq)
        ld = LocalDefs(f.node)
        local_tables = set(ld.params) | set(ld.defs)
        k = 0
        for call in ast.walk(f.node):
            if not isinstance(call, ast.Call):
                continue
            argvals = list(call.args) + [kw.value for kw in call.keywords]
            vs = [v for v in (_scope_singleton(a) for a in argvals) if v is not None]
            if len(vs) != 1:
                continue
            v = vs[0]
            vtxt = unparse(v).replace(" ", "")
            reads: list[tuple[str, ast.AST | None, ast.AST]] = []  # (table, idx or None for enumerate-bound, node)
            cands = [call.func] + [a for a in argvals if _scope_singleton(a) is None]
            for e in cands:
                if isinstance(e, ast.Name) and len(ld.defs.get(e.id, [])) == 1 and isinstance(ld.defs[e.id][0], ast.Subscript) and isinstance(ld.defs[e.id][0].value, ast.Name):
                    d0 = ld.defs[e.id][0]
                    if not (isinstance(d0.slice, ast.Name) and d0.slice.id == "*") and _enum_binding_of(d0) is None:
                        e = d0  # f = T[idx]; f(Scope([v]))
                if isinstance(e, ast.Subscript) and isinstance(e.value, ast.Name) and e.value.id in local_tables and not isinstance(e.slice, ast.Slice):
                    reads.append((e.value.id, e.slice, e))
                elif isinstance(e, ast.Name):
                    bv0 = _enum_binding(ld, v.id) if isinstance(v, ast.Name) else None
                    b = _enum_binding(ld, e.id, bv0[0] if bv0 else None)
                    if b is not None and b[1] == 1:
                        reads.append((unparse(b[0].args[0]), None, e))
            for table, idx, node in reads:
                if tables is not None and fq in tables and table.split("[")[0] not in tables[fq]:
                    continue
                k += 1
                inst = f"{table}@Scope([{vtxt}])#{k}"
                l = f"{f.module.relpath}:{call.lineno}"
                if idx is None:
                    # element bound by enumerate: v must be the counter of the same enumerate
                    bv = _enum_binding(ld, v.id) if isinstance(v, ast.Name) else None
                    be = _enum_binding(ld, node.id, bv[0] if bv else None)
                    if bv is None or be is None or bv[0] is not be[0] or bv[1] != 0:
                        out.append(unres("R13a", fq, inst, "table element and variable id are not bound by the same enumerate: no verdict", l))
                        continue
                    al, how = _enum_aligned(be[0])
                    n_sites += 1
                    if al is True:
                        out.append(ok("R13a", fq, inst, f"element and variable id bound together by {how}", l))
                    elif al is False:
                        out.append(viol("R13a", fq, inst, f"{how} numbers the elements with an offset different from their index in the table: variable {vtxt} gets the entry of another variable", l))
                    else:
                        out.append(unres("R13a", fq, inst, f"alignment of {how} not derived", l))
                    continue
                itxt = _norm(idx, table)
                n_sites += 1
                vn = vtxt
                if vn == f"len({table})-1":
                    vn = "-1"
                if itxt == vn:
                    out.append(ok("R13a", fq, inst, f"table read at the variable id ({itxt})", l))
                else:
                    out.append(
                        viol(
                            "R13a",
                            fq,
                            inst,
                            f"the per-variable table '{table}' is read at [{unparse(idx)}] to build the layer of variable {vtxt}: "
                            "it is indexed by position, not by variable id, so with a non-identity ordering a variable gets the "
                            "factory / arguments given for another variable",
                            l,
                        )
                    )
    if n_sites < require:
        raise AnalysisError(f"floor missed: R13a resolved {n_sites} per-variable table reads in {funcs}, expected at least {require}")
    return out
