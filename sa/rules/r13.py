"""R13a -- per-variable index agreement in the templates.

A per-variable table (factories / kwargs / sizes given *per variable id*) that is read to build the
input layer of variable ``v`` must be read at index ``v``: in every call that receives
``Scope([v])``, each table read feeding the same call (as callee ``T[idx](..)`` or as argument
``T[idx]``) must satisfy ``idx == v`` (modulo ``-1 == len(T) - 1``), or be bound together with
``v`` by one ``enumerate(T)`` / ``enumerate(T[a:], start=a)``.
"""

from __future__ import annotations

import ast

from ..core import Ctx, Ob, ok, unres, viol
from ..flow import LocalDefs
from ..model import AnalysisError, unparse, walk_no_nested, dotted


def _scope_singleton(e: ast.AST) -> ast.AST | None:
    """``Scope([v])`` / ``Scope((v,))`` / ``Scope({v})`` -> v"""
    if isinstance(e, ast.Call) and isinstance(e.func, ast.Name) and e.func.id == "Scope" and len(e.args) == 1 and not e.keywords:
        a = e.args[0]
        if isinstance(a, (ast.List, ast.Tuple, ast.Set)) and len(a.elts) == 1 and not isinstance(a.elts[0], ast.Starred):
            return a.elts[0]
    return None


def _norm(idx: ast.AST, table: str) -> str:
    t = unparse(idx).replace(" ", "")
    if t == f"len({table})-1":
        return "-1"
    return t


def _enum_binding(ld: LocalDefs, name: str, same: ast.Call | None = None) -> tuple[ast.Call, int] | None:
    """name bound as position k of an element of ``enumerate(..)`` -> (the enumerate call, k)"""
    for d in ld.defs.get(name, []):
        b = _enum_binding_of(d)
        if b is not None and (same is None or b[0] is same):
            return b
    return None


def _enum_binding_of(d: ast.AST) -> tuple[ast.Call, int] | None:
    if isinstance(d, ast.Subscript) and isinstance(d.slice, ast.Constant) and isinstance(d.slice.value, int):
        inner = d.value
        if isinstance(inner, ast.Subscript) and isinstance(inner.slice, ast.Name) and inner.slice.id == "*":
            c = inner.value
            if isinstance(c, ast.Call) and isinstance(c.func, ast.Name) and c.func.id == "enumerate" and c.args:
                return c, d.slice.value
    return None


def _enum_aligned(c: ast.Call) -> tuple[bool | None, str]:
    """Does ``enumerate(X, start=s)`` number the elements of X by their index in the underlying table?"""
    start = None
    for kw in c.keywords:
        if kw.arg == "start":
            start = kw.value
    if len(c.args) > 1:
        start = c.args[1]
    s = unparse(start).replace(" ", "") if start is not None else "0"
    x = c.args[0]
    if isinstance(x, ast.Subscript) and isinstance(x.slice, ast.Slice):
        lo = unparse(x.slice.lower).replace(" ", "") if x.slice.lower is not None else "0"
        if x.slice.step is not None:
            return None, "stepped slice"
        return (lo == s), f"enumerate({unparse(x)}, start={s})"
    if isinstance(x, (ast.Name, ast.Attribute)):
        return (s == "0"), f"enumerate({unparse(x)}, start={s})"
    return None, unparse(c)


def _zip_binding(ld: LocalDefs, name: str) -> tuple[ast.Call, int] | None:
    """name bound as the p-th component of the elements of a zip(...) call (for / comprehension)"""
    ds = ld.defs.get(name, [])
    if len(ds) != 1:
        return None
    d = ds[0]
    if isinstance(d, ast.Subscript) and isinstance(d.slice, ast.Constant) and isinstance(d.slice.value, int):
        inner = d.value
        if isinstance(inner, ast.Subscript) and isinstance(inner.slice, ast.Name) and inner.slice.id == "*":
            z = inner.value
            if isinstance(z, ast.Call) and isinstance(z.func, ast.Name) and z.func.id == "zip" and d.slice.value < len(z.args):
                return z, d.slice.value
    return None


def r13a(ctx: Ctx, funcs: list[str], tables: dict[str, set[str]] | None = None, require: int = 1) -> list[Ob]:
    out: list[Ob] = []
    n_sites = 0
    for fq in funcs:
        f = ctx.repo.func(fq)
        ld = LocalDefs(f.node)
        local_tables = set(ld.params) | set(ld.defs)
        k = 0
        for call in ast.walk(f.node):
            if not isinstance(call, ast.Call):
                continue
            argvals = list(call.args) + [kw.value for kw in call.keywords]
            vs = [v for v in (_scope_singleton(a) for a in argvals) if v is not None]
            if len(vs) != 1:
                continue
            v = vs[0]
            vtxt = unparse(v).replace(" ", "")
            reads: list[tuple[str, ast.AST | None, ast.AST]] = []  # (table, idx or None for enumerate-bound, node)
            cands = [call.func] + [a for a in argvals if _scope_singleton(a) is None]
            for e in cands:
                if isinstance(e, ast.Name) and len(ld.defs.get(e.id, [])) == 1 and isinstance(ld.defs[e.id][0], ast.Subscript) and isinstance(ld.defs[e.id][0].value, ast.Name):
                    d0 = ld.defs[e.id][0]
                    if not (isinstance(d0.slice, ast.Name) and d0.slice.id == "*") and _enum_binding_of(d0) is None:
                        e = d0  # f = T[idx]; f(Scope([v]))
                if isinstance(e, ast.Subscript) and isinstance(e.value, ast.Name) and e.value.id in local_tables and not isinstance(e.slice, ast.Slice):
                    reads.append((e.value.id, e.slice, e))
                elif isinstance(e, ast.Name):
                    bv0 = _enum_binding(ld, v.id) if isinstance(v, ast.Name) else None
                    b = _enum_binding(ld, e.id, bv0[0] if bv0 else None)
                    if b is not None and b[1] == 1:
                        reads.append((unparse(b[0].args[0]), None, e))
            # element and variable bound by one zip:  for v, f in zip(A, T): f(Scope([v]))  pairs T[i] with A[i]
            if isinstance(call.func, ast.Name) and isinstance(v, ast.Name):
                zf, zv = _zip_binding(ld, call.func.id), _zip_binding(ld, v.id)
                if zf is not None and zv is not None and zf[0] is zv[0]:
                    zc = zf[0]
                    table_e, var_e = zc.args[zf[1]], zc.args[zv[1]]
                    if isinstance(table_e, ast.Name) and table_e.id in local_tables and not (tables is not None and fq in tables and table_e.id not in tables[fq]):
                        k += 1
                        n_sites += 1
                        inst = f"{table_e.id}@Scope([{vtxt}])#{k}"
                        l = f"{f.module.relpath}:{call.lineno}"
                        vt = unparse(var_e).replace(" ", "")
                        if vt in (f"range(len({table_e.id}))",) or (isinstance(var_e, ast.Call) and isinstance(var_e.func, ast.Name) and var_e.func.id == "range" and len(var_e.args) == 1):
                            out.append(ok("R13a", fq, inst, f"table element paired with its own index by zip({vt}, {table_e.id})", l))
                        else:
                            out.append(viol("R13a", fq, inst, f"zip({vt}, {table_e.id}) pairs the i-th entry of the per-variable table '{table_e.id}' with the variable {vt}[i]: the table is read by position, not by variable id, so with a non-identity ordering a variable gets the factory / arguments given for another variable", l))
                        continue
            for table, idx, node in reads:
                if tables is not None and fq in tables and table.split("[")[0] not in tables[fq]:
                    continue
                k += 1
                inst = f"{table}@Scope([{vtxt}])#{k}"
                l = f"{f.module.relpath}:{call.lineno}"
                if idx is None:
                    # element bound by enumerate: v must be the counter of the same enumerate
                    bv = _enum_binding(ld, v.id) if isinstance(v, ast.Name) else None
                    be = _enum_binding(ld, node.id, bv[0] if bv else None)
                    if bv is None or be is None or bv[0] is not be[0] or bv[1] != 0:
                        out.append(unres("R13a", fq, inst, "table element and variable id are not bound by the same enumerate: no verdict", l))
                        continue
                    al, how = _enum_aligned(be[0])
                    n_sites += 1
                    if al is True:
                        out.append(ok("R13a", fq, inst, f"element and variable id bound together by {how}", l))
                    elif al is False:
                        out.append(viol("R13a", fq, inst, f"{how} numbers the elements with an offset different from their index in the table: variable {vtxt} gets the entry of another variable", l))
                    else:
                        out.append(unres("R13a", fq, inst, f"alignment of {how} not derived", l))
                    continue
                itxt = _norm(idx, table)
                n_sites += 1
                vn = vtxt
                if vn == f"len({table})-1":
                    vn = "-1"
                if itxt == vn:
                    out.append(ok("R13a", fq, inst, f"table read at the variable id ({itxt})", l))
                else:
                    out.append(
                        viol(
                            "R13a",
                            fq,
                            inst,
                            f"the per-variable table '{table}' is read at [{unparse(idx)}] to build the layer of variable {vtxt}: "
                            "it is indexed by position, not by variable id, so with a non-identity ordering a variable gets the "
                            "factory / arguments given for another variable",
                            l,
                        )
                    )
    if n_sites < require and not any(o.status == "violation" for o in out):
        # not raised here: the property-level floor turns this into an analysis error *after* the
        # other rules of the property have had their say (a violation found elsewhere takes precedence)
        out.append(unres("R13a", funcs[0], "floor", f"only {n_sites} per-variable table read(s) resolved, expected at least {require}", ctx.repo.func(funcs[0]).loc))
    return out


# ------------------------------------------------------------------------------- R13c: index spaces
def r13c(ctx: Ctx, fq: str, var_tables: set[str], ordering: str = "ordering") -> list[Ob]:
    """R13c -- index-space typing of a template that takes a variable ``ordering``.

    Two index spaces: VAR (a variable id) and POS (a position in the ordering).  ``ordering`` is a
    POS-indexed table of VAR values; the per-variable arguments (``var_tables`` and everything mapped
    from them in order: comprehensions, ``enumerate``) are VAR-indexed; a list built by iterating
    ``ordering`` is POS-indexed; ``range`` counters are POS, ``ordering[..]`` and loop variables over
    ``ordering`` are VAR, the counter of ``enumerate(T)`` lives in T's space.  Decided: every
    subscript read of a typed table uses an index of the table's own space, and ``zip`` never pairs a
    VAR table with a POS table positionally (a constant index is compatible with both)."""
    f = ctx.repo.func(fq)
    ld = LocalDefs(f.node)
    out: list[Ob] = []

    def table_space(e: ast.AST, depth: int = 0) -> str | None:
        """'VAR' | 'POS' | 'ANY' | 'MIXED' | None"""
        if depth > 8:
            return None
        if isinstance(e, ast.Name):
            if e.id == ordering:
                return "POS"
            if e.id in var_tables:
                return "VAR"
            ds = ld.defs.get(e.id, [])
            sp = {table_space(d, depth + 1) for d in ds}
            sp.discard("ANY")
            if not ds:
                return None
            if not sp:
                return "ANY"
            return sp.pop() if len(sp) == 1 else None
        if isinstance(e, ast.BinOp) and isinstance(e.op, ast.Mult) and isinstance(e.left, (ast.List, ast.Tuple)):
            return "ANY"  # [x] * n : the same entry for every index
        if isinstance(e, (ast.ListComp, ast.GeneratorExp)) and len(e.generators) == 1:
            return iter_space(e.generators[0].iter, depth + 1)
        if isinstance(e, ast.Call) and isinstance(e.func, ast.Name) and e.func.id in ("list", "tuple") and e.args:
            return table_space(e.args[0], depth + 1)
        return None

    def iter_space(it: ast.AST, depth: int = 0) -> str | None:
        if isinstance(it, ast.Call) and isinstance(it.func, ast.Name):
            if it.func.id == "enumerate" and it.args:
                return table_space(it.args[0], depth + 1)
            if it.func.id in ("range", "reversed") and it.args:
                return "POS" if it.func.id == "range" else iter_space(it.args[0], depth + 1)
            if it.func.id == "zip":
                sp = {table_space(a, depth + 1) for a in it.args}
                sp.discard("ANY")
                sp.discard(None)
                if len(sp) > 1:
                    return "MIXED"
                return sp.pop() if sp else None
        return table_space(it, depth + 1)

    parents: dict[int, ast.AST] = {}
    for p_ in ast.walk(f.node):
        for c_ in ast.iter_child_nodes(p_):
            parents[id(c_)] = p_

    def _component(target: ast.AST, name: str, it: ast.AST) -> ast.AST | None:
        """the LocalDefs-style definition of `name` when `target` iterates `it`"""
        el = LocalDefs.elem_of(it)
        if isinstance(target, ast.Name) and target.id == name:
            return el
        if isinstance(target, (ast.Tuple, ast.List)):
            for k, t in enumerate(target.elts):
                if isinstance(t, ast.Name) and t.id == name:
                    sub = ast.Subscript(value=el, slice=ast.Constant(k), ctx=ast.Load())
                    return sub
        return None

    def scoped_def(nm: ast.Name) -> ast.AST | None:
        """the binding of a name that is visible at this occurrence: the nearest enclosing
        comprehension clause or for-loop that binds it, else its unique function-level definition"""
        cur: ast.AST | None = nm
        while cur is not None:
            par = parents.get(id(cur))
            if isinstance(par, (ast.ListComp, ast.GeneratorExp, ast.SetComp, ast.DictComp)):
                for g in par.generators:
                    d = _component(g.target, nm.id, g.iter)
                    if d is not None:
                        return d
            if isinstance(par, ast.For) and cur in par.body:
                d = _component(par.target, nm.id, par.iter)
                if d is not None:
                    return d
            cur = par
        ds = ld.defs.get(nm.id, [])
        return ds[0] if len(ds) == 1 else None

    def index_space(e: ast.AST, depth: int = 0) -> str | None:
        if depth > 8:
            return None
        if isinstance(e, ast.Constant) or (isinstance(e, ast.UnaryOp) and isinstance(e.operand, ast.Constant)):
            return "ANY"
        if isinstance(e, ast.Subscript) and isinstance(e.value, ast.Name) and e.value.id == ordering:
            return "VAR"
        if isinstance(e, ast.BinOp) and isinstance(e.op, (ast.Add, ast.Sub)):
            a, b = index_space(e.left, depth + 1), index_space(e.right, depth + 1)
            return a if b == "ANY" else (b if a == "ANY" else (a if a == b else None))
        if isinstance(e, ast.Name):
            d = scoped_def(e)
            if d is None:
                return None
            # x in <iter>
            if isinstance(d, ast.Subscript) and isinstance(d.slice, ast.Name) and d.slice.id == "*":
                it = d.value
                if isinstance(it, ast.Name) and it.id == ordering:
                    return "VAR"
                if isinstance(it, ast.Call) and isinstance(it.func, ast.Name) and it.func.id == "range":
                    return "POS"
                if isinstance(it, ast.Call) and isinstance(it.func, ast.Name) and it.func.id == "reversed" and it.args:
                    inner = it.args[0]
                    if isinstance(inner, ast.Call) and isinstance(inner.func, ast.Name) and inner.func.id == "range":
                        return "POS"
                    if isinstance(inner, ast.Name) and inner.id == ordering:
                        return "VAR"
                return None
            # (i, x) in enumerate(T) / components of zip
            if isinstance(d, ast.Subscript) and isinstance(d.slice, ast.Constant) and isinstance(d.value, ast.Subscript) and isinstance(d.value.slice, ast.Name) and d.value.slice.id == "*":
                it = d.value.value
                k = d.slice.value
                if isinstance(it, ast.Call) and isinstance(it.func, ast.Name) and it.func.id == "enumerate" and it.args and k == 0:
                    return table_space(it.args[0])
                if isinstance(it, ast.Call) and isinstance(it.func, ast.Name) and it.func.id == "zip" and isinstance(k, int) and k < len(it.args):
                    a = it.args[k]
                    if isinstance(a, ast.Name) and a.id == ordering:
                        return "VAR"
                    if isinstance(a, ast.Call) and isinstance(a.func, ast.Name) and a.func.id == "range":
                        return "POS"
                return None
        return None

    n = 0
    for node in ast.walk(f.node):
        site = f"{f.module.relpath}:{getattr(node, 'lineno', 0)}"
        if isinstance(node, ast.Call) and isinstance(node.func, ast.Name) and node.func.id == "zip":
            if iter_space(node) == "MIXED":
                n += 1
                out.append(viol("R13c", fq, f"zip#{n}:{unparse(node)[:50]}", f"`{unparse(node)[:80]}` pairs a table indexed by variable id with `{ordering}` (indexed by position) entry by entry: for a non-identity ordering a variable is paired with another variable's entry", site))
            continue
        if not (isinstance(node, ast.Subscript) and isinstance(node.ctx, ast.Load) and isinstance(node.value, ast.Name)):
            continue
        if node.value.id == ordering or isinstance(node.slice, ast.Slice):
            continue
        ts = table_space(node.value)
        if ts not in ("VAR", "POS"):
            continue
        ix = index_space(node.slice)
        n += 1
        inst = f"read#{n}:{unparse(node)[:40]}"
        if ix is None:
            out.append(unres("R13c", fq, inst, f"index space of `{unparse(node.slice)}` not derived (table is {ts}-indexed)", site))
        elif ix == "ANY" or ix == ts:
            out.append(ok("R13c", fq, inst, f"{ts}-indexed table read with a {ix} index", site))
        else:
            what = "a position in the ordering" if ix == "POS" else "a variable id"
            need = "a variable id" if ts == "VAR" else "a position in the ordering"
            out.append(viol("R13c", fq, inst, f"`{unparse(node)}`: the table `{node.value.id}` is indexed by {need} but is read with {what}: with a non-identity ordering a variable gets the layer / arguments of another variable", site))
    return out


# ------------------------------------------------------------------------------- R13d: row counters
def r13d(ctx: Ctx, fq: str = "cirkit.backend.torch.queries.IntegrateQuery.scopes_to_mask") -> list[Ob]:
    """R13d -- per-sample rows.  A tensor allocated with ``len(S)`` rows (one per sample of the batch S)
    is addressed, when rows are written by index, with the counter of ``enumerate(S)`` over *that same
    sequence*: a counter over a filtered / re-built copy of S numbers the surviving samples 0, 1, ..
    and writes sample k's entries into another sample's row whenever an earlier sample was dropped
    (e.g. a sample that marginalises nothing)."""
    f = ctx.repo.func(fq)
    ld = LocalDefs(f.node)
    out: list[Ob] = []
    # sequences whose length sizes an allocation
    sized: set[str] = set()
    for n in ast.walk(f.node):
        if isinstance(n, ast.Call) and isinstance(n.func, ast.Name) and n.func.id == "len" and n.args and isinstance(n.args[0], ast.Name):
            sized.add(n.args[0].id)
    k = 0
    for n in ast.walk(f.node):
        if not (isinstance(n, ast.Call) and isinstance(n.func, ast.Name) and n.func.id == "enumerate" and n.args):
            continue
        k += 1
        x = n.args[0]
        site = f"{f.module.relpath}:{n.lineno}"
        inst = f"enumerate#{k}:{unparse(x)[:30]}"
        if not isinstance(x, ast.Name):
            out.append(unres("R13d", fq, inst, "enumerated expression is not a plain name", site))
            continue
        if x.id in sized and x.id in ld.params:
            out.append(ok("R13d", fq, inst, f"rows counted over the batch sequence `{x.id}` itself", site))
            continue
        defs = ld.defs.get(x.id, [])
        filtered = [d for d in defs if isinstance(d, (ast.ListComp, ast.GeneratorExp)) and any(g.ifs for g in d.generators)]
        rebuilt = [d for d in defs if isinstance(d, ast.Call) and isinstance(d.func, ast.Name) and d.func.id in ("filter", "sorted", "set")]
        if filtered or rebuilt:
            src = unparse((filtered or rebuilt)[0])[:60]
            out.append(viol("R13d", fq, inst, f"the row counter runs over `{x.id}` = `{src}`, a filtered copy of the batch: after a dropped sample (e.g. an empty scope) every later sample is written into the previous sample's row", site))
        elif x.id in sized:
            out.append(ok("R13d", fq, inst, f"rows counted over `{x.id}`, the sequence that sizes the mask", site))
        else:
            out.append(unres("R13d", fq, inst, f"`{x.id}` is neither the sized batch sequence nor a recognised filtered copy", site))
    if k == 0:
        out.append(unres("R13d", fq, "enumerate", "no enumerate(..) in the function (another formulation): no verdict", f.loc))
    return out


# ------------------------------------------------------------------------------------------ R13e
def r13e(ctx: Ctx, fq: str = "cirkit.symbolic.functional.evidence") -> list[Ob]:
    """R13e -- observed values are looked up by variable id.

    ``evidence`` receives the observation as a mapping variable id -> value.  A mapping iterates in
    insertion order, a Scope in increasing id order: the value handed to the evidence layer of
    variable v has to come from a *key lookup* ``obs[v]`` with v ranging over the layer's scope.  A
    value array built from ``obs.values()`` (positional) and indexed by positions computed from the
    scope gives every layer the value written for another variable as soon as the dictionary is not
    written in increasing id order."""
    from ..canon import FlowCanon
    from ..cfg import build_cfg

    f = ctx.repo.func(fq)
    obs_name = None
    for p in f.params:
        if p.annotation is not None and ("Mapping" in unparse(p.annotation) or "dict" in unparse(p.annotation).lower()):
            obs_name = p.name
    if obs_name is None:
        return [unres("R13e", fq, "observation-lookup", "no mapping parameter found", f.loc)]
    g = ctx.memo("cfg:" + fq, lambda: build_cfg(f.node))
    fc = ctx.memo("flowcanon:" + fq, lambda: FlowCanon(g))
    out: list[Ob] = []
    for n, st in g.stmts.items():
        if isinstance(st, (ast.If, ast.For, ast.While, ast.With, ast.Try, ast.FunctionDef)):
            continue
        for c in ast.walk(st):
            if isinstance(c, ast.Call) and (unparse(c.func).split(".")[-1] == "ConstantParameter"):
                val = next((k.value for k in c.keywords if k.arg == "value"), None)
                if val is None:
                    continue
                txt = fc.text(val, n)
                site = f"{f.module.relpath}:{c.lineno}"
                positional = f"{obs_name}.values()" in txt or f"list({obs_name})" in txt or f"{obs_name}.items()" in txt and f"{obs_name}[" not in txt
                keyed = f"{obs_name}[" in txt
                if positional:
                    out.append(viol("R13e", fq, "observation-lookup", f"the observation of an evidence layer is built from `{obs_name}.values()` -- the mapping's values by *position* (insertion order) -- indexed with positions derived from a scope (increasing id order): a dictionary not written in increasing id order gives each layer another variable's value", site))
                elif keyed:
                    out.append(ok("R13e", fq, "observation-lookup", f"values are looked up by key: {txt[:70]}", site))
                else:
                    out.append(unres("R13e", fq, "observation-lookup", f"how the observed values reach the layer was not derived: {txt[:60]}", site))
    if not out:
        out.append(unres("R13e", fq, "observation-lookup", "no ConstantParameter(value=..) built in evidence", f.loc))
    return out


# ------------------------------------------------------------------------------------------ R13f
def r13f(ctx: Ctx, modules: tuple[str, ...] = ("cirkit.templates",)) -> list[Ob]:
    """R13f -- block slices of a flattened table follow its generator order.

    ``[f(a, b) for a in A for b in B]`` lists its elements A-major: the elements of one ``a`` are
    ``len(B)`` consecutive entries.  A use site that takes ``T[i * K : (i + 1) * K]`` reads block i of
    size K: that is 'the entries of the i-th outer element' only if the *inner* generator ranges over
    K elements.  Un-nesting ``[[.. for _ in range(rank)] for i, dim in enumerate(modes)]`` by keeping
    the textual order of the two ``for`` clauses makes the table rank-major while the slices still
    assume mode-major: each block mixes the cores of different variables."""
    out: list[Ob] = []
    n_fn = 0
    for f in ctx.repo.iter_functions():
        if not f.module.name.startswith(modules):
            continue
        n_fn += 1
        ld = LocalDefs(f.node)
        for n in ast.walk(f.node):
            if not (isinstance(n, ast.Subscript) and isinstance(n.slice, ast.Slice) and isinstance(n.value, ast.Name)):
                continue
            lo, hi = n.slice.lower, n.slice.upper
            if not (isinstance(lo, ast.BinOp) and isinstance(lo.op, ast.Mult) and isinstance(hi, ast.BinOp) and isinstance(hi.op, ast.Mult)):
                continue
            # i * K : (i + 1) * K   (either operand order)
            def factor(e: ast.BinOp) -> set[str]:
                return {unparse(e.left), unparse(e.right)}
            common = factor(lo) & factor(hi)
            if not common:
                continue
            K = sorted(common)[0]
            defs = ld.defs.get(n.value.id, [])
            comps = [d for d in defs if isinstance(d, ast.ListComp) and len(d.generators) == 2]
            if not comps:
                continue
            site = f"{f.module.relpath}:{n.lineno}"
            for d in comps:
                inner = d.generators[1].iter
                inner_n = None
                if isinstance(inner, ast.Call) and isinstance(inner.func, ast.Name) and inner.func.id == "range" and len(inner.args) == 1:
                    inner_n = unparse(inner.args[0])
                outer = d.generators[0].iter
                outer_n = unparse(outer.args[0]) if isinstance(outer, ast.Call) and isinstance(outer.func, ast.Name) and outer.func.id == "range" and len(outer.args) == 1 else None
                inst = f"block-slice:{n.value.id}"
                if inner_n == K:
                    out.append(ok("R13f", f.qualname, inst, f"blocks of {K} entries = the inner generator range({K})", site))
                elif outer_n == K:
                    out.append(viol("R13f", f.qualname, inst, f"`{unparse(n)[:60]}` reads blocks of {K} consecutive entries, but `{n.value.id}` is built with `for .. in range({K})` as the *outer* generator: the table is {K}-major, so a block holds entries of different inner elements (the cores of different modes), not the {K} entries of one", site))
                else:
                    out.append(unres("R13f", f.qualname, inst, f"block size {K} could not be related to the generators of `{n.value.id}`", site))
    out.append(ok("R13f", "cirkit.templates", "block-slices", f"{n_fn} template functions scanned", "", nontrivial=False))
    return out


# ------------------------------------------------------------------------------------------ R13g
def r13g(ctx: Ctx, module: str = "cirkit.templates.data_modalities") -> list[Ob]:
    """R13g -- the default sum weights of the data-modality templates are softmax-normalised.

    ``image_data`` / ``tabular_data`` document 'softmax' as the default parameterisation of the sum
    weights; a default that is only normalised *at initialisation* (a Dirichlet draw without
    activation) passes every check on the freshly compiled circuit and stops summing to one after the
    first optimiser step.  Each ``sum_weight_param = Parameterization(..)`` default has
    ``activation="softmax"``."""
    out: list[Ob] = []
    for f in ctx.repo.iter_functions():
        if f.module.name != module:
            continue
        for n in walk_no_nested(f.node):
            if isinstance(n, ast.Assign) and len(n.targets) == 1 and isinstance(n.targets[0], ast.Name) and n.targets[0].id in ("sum_weight_param",) and isinstance(n.value, ast.Call) and unparse(n.value.func).endswith("Parameterization"):
                act = next((k.value for k in n.value.keywords if k.arg == "activation"), None)
                site = f"{f.module.relpath}:{n.lineno}"
                if isinstance(act, ast.Constant) and act.value == "softmax":
                    out.append(ok("R13g", f.qualname, "default-sum-weights", "softmax", site))
                else:
                    out.append(viol("R13g", f.qualname, "default-sum-weights", f"the default parameterisation of the sum weights is `{unparse(n.value)[:70]}`: without the softmax activation the rows are normalised at most at initialisation, and the partition function leaves 1 with the first parameter update", site))
    if not out:
        out.append(unres("R13g", module, "default-sum-weights", "no default Parameterization for sum weights found", ""))
    return out


# ------------------------------------------------------------------------------------------ R13h
def r13h(ctx: Ctx, modules: tuple[str, ...] = ("cirkit.templates",)) -> list[Ob]:
    """R13h -- arranging items *along* an ordering is indexing, not sorting.

    ``ordering[t]`` is the variable at position t.  ``[items[v] for v in ordering]`` (or any lookup
    ``items[ordering[t]]``) puts the item of that variable at position t.  Sorting the pairs
    ``zip(ordering, items)`` by their first component -- or ``argsort(ordering)`` -- puts item k at
    position ``ordering[k]``: the *inverse* permutation, which coincides with the ordering only for
    involutions (identity, reversals, disjoint swaps -- what a test is likely to try)."""
    out: list[Ob] = []
    n_fn = 0
    for f in ctx.repo.iter_functions():
        if not f.module.name.startswith(modules):
            continue
        ords = [p.name for p in f.params if "ordering" in p.name or p.name in ("order", "perm", "permutation")]
        if not ords:
            continue
        n_fn += 1
        bad = []
        for n in walk_no_nested(f.node):
            if isinstance(n, ast.Call):
                nm = (dotted(n.func) or "").split(".")[-1]
                if nm == "sorted" and n.args:
                    a = n.args[0]
                    if isinstance(a, ast.Call) and (dotted(a.func) or "") == "zip" and a.args and isinstance(a.args[0], ast.Name) and a.args[0].id in ords and len(a.args) >= 2:
                        bad.append((n, f"sorted(zip({a.args[0].id}, ..))"))
                    key = next((k.value for k in n.keywords if k.arg == "key"), None)
                    if key is not None and any(isinstance(x, ast.Name) and x.id in ords for x in ast.walk(key)) and not any(isinstance(x, ast.Name) and x.id in ords for x in ast.walk(a)):
                        bad.append((n, f"sorted(.., key=<{ords[0]}>)"))
                if nm == "argsort" and n.args and isinstance(n.args[0], ast.Name) and n.args[0].id in ords:
                    bad.append((n, f"argsort({n.args[0].id})"))
        if bad:
            for n, what in bad:
                out.append(viol("R13h", f.qualname, f"inverse-permutation:{what}", f"`{unparse(n)[:70]}` arranges by the inverse of `{ords[0]}`: item k lands at position {ords[0]}[k], whereas position t of the ordering holds variable {ords[0]}[t] -- the two agree only for self-inverse orderings", f"{f.module.relpath}:{n.lineno}"))
        else:
            out.append(ok("R13h", f.qualname, "along-the-ordering", f"nothing is sorted by / argsorted from `{ords[0]}`", f.loc))
    if n_fn == 0:
        out.append(unres("R13h", modules[0], "along-the-ordering", "no template function takes an ordering (another formulation): no verdict", ""))
    return out


# ------------------------------------------------------------------------------------------ R13i
STATE_OFFSET = {"num_categories": 0, "num_states": 0, "total_count": -1}  # value = states + offset


def r13i(ctx: Ctx, fq: str = "cirkit.templates.tensor_factorizations._input_layer_factory_builder", size: str = "dim") -> list[Ob]:
    """R13i -- every kind of factor has as many states as the mode it encodes.

    The templates turn a mode of size ``dim`` (indices 0..dim-1) into an input layer of the requested
    kind by passing one size keyword: ``num_categories`` (Categorical: that many states),
    ``num_states`` (Embedding: that many), ``total_count`` (Binomial: ``total_count + 1`` states,
    0..total_count).  Whatever the kind, the number of states has to be ``dim`` -- a Binomial built
    with ``total_count=dim`` has one state too many, and a normalised factorisation then sums to less
    than one over the tensor it encodes."""
    from ..flow import LocalDefs
    from ..dims import Dim

    f = ctx.repo.func(fq)
    out: list[Ob] = []
    if size not in [p.name for p in f.params]:
        raise AnalysisError(f"R13i: {fq} has no parameter `{size}`")

    def poly(e: ast.AST):
        if isinstance(e, ast.Constant) and isinstance(e.value, int) and not isinstance(e.value, bool):
            return Dim.const(e.value)
        if isinstance(e, ast.Name):
            return Dim.sym(e.id)
        if isinstance(e, ast.BinOp) and isinstance(e.op, (ast.Add, ast.Sub, ast.Mult)):
            l, r = poly(e.left), poly(e.right)
            if l is None or r is None:
                return None
            return l + r if isinstance(e.op, ast.Add) else l - r if isinstance(e.op, ast.Sub) else l * r
        return None

    for d in ast.walk(f.node):
        if not isinstance(d, ast.Dict):
            continue
        for k, v in zip(d.keys, d.values):
            if isinstance(k, ast.Constant) and k.value in STATE_OFFSET:
                loc = f"{f.module.relpath}:{d.lineno}"
                inst = f"states==size:{k.value}"
                pv = poly(v)
                want = Dim.sym(size) + STATE_OFFSET[k.value]
                if pv is None:
                    out.append(unres("R13i", f.qualname, inst, f"`{unparse(v)[:40]}` is not a polynomial of `{size}`: no verdict", loc))
                elif pv == want:
                    out.append(ok("R13i", f.qualname, inst, f"{k.value}={unparse(v)}: {size} states", loc))
                else:
                    states = pv - STATE_OFFSET[k.value]
                    out.append(viol("R13i", f.qualname, inst, f"{k.value}={unparse(v)} gives the factor {states!r} states for a mode of size {size}: the encoded tensor ranges over {size} indices per mode, so a normalised factorisation does not sum to one over it (or an index is out of the factor's support)", loc))
    if not out:
        out.append(unres("R13i", f.qualname, "states==size", "no size keyword dictionary in the builder (another formulation): no verdict", f.loc))
    return out


def r13i_consistent(ctx: Ctx, fq: str = "cirkit.templates.data_modalities.image_data") -> list[Ob]:
    """R13i (constants) -- the alternative input layers of one template have the same number of states
    (256 pixel values: num_categories=256, num_states=256, total_count=255)."""
    f = ctx.repo.func(fq)
    found: list[tuple[str, int, int]] = []
    for d in ast.walk(f.node):
        if isinstance(d, ast.Dict):
            for k, v in zip(d.keys, d.values):
                if isinstance(k, ast.Constant) and k.value in STATE_OFFSET and isinstance(v, ast.Constant) and isinstance(v.value, int):
                    found.append((k.value, v.value - STATE_OFFSET[k.value], d.lineno))
    if len(found) < 2:
        return [unres("R13i", f.qualname, "states-agree", "fewer than two constant size keywords (another formulation): no verdict", f.loc)]
    states = {s for _, s, _ in found}
    loc = f"{f.module.relpath}:{found[0][2]}"
    if len(states) == 1:
        return [ok("R13i", f.qualname, "states-agree", f"{[k for k, _, _ in found]} all denote {states.pop()} states", loc)]
    return [viol("R13i", f.qualname, "states-agree", f"the alternative input layers do not have the same number of states: {[(k, s) for k, s, _ in found]} (a Binomial with total count n has n + 1 states)", loc)]
