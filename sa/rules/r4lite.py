"""R4-lite -- the two rank clauses of DESIGN 3.R4 that can be decided without the full shape
interpreter (which was not built).

rank_agreement      every return path of every concrete implementation of one abstract torch-layer
                    method must produce a tensor of the same rank (sibling cross-check), and that
                    rank must be the one the caller broadcasts against.  Rank is inferred from a
                    small vocabulary (zeros/ones/full with a size tuple, a layer parameter called
                    as ``self.p()`` whose unfolded shape is the tuple property its constructor
                    validates it against, logsumexp/sum/amax/... with dim, unsqueeze, squeeze(dim),
                    element-wise functions); anything else -> unresolved, no verdict.
init_application    a compiled initialiser that shifts a non-negative axis by one assumes a leading
                    fold axis; every application site of an initialiser in the torch backend must
                    therefore hand it a tensor that still has that axis: integer indexing of the
                    folded tensor (``t[i]``) drops it, ``t[i : i + 1]`` / the whole tensor keep it.
"""

from __future__ import annotations

import ast

from ..core import Ctx, Ob, ok, unres, viol
from ..flow import LocalDefs
from ..model import AnalysisError, ClassInfo, FuncInfo, unparse, walk_no_nested

ELEMENTWISE = {"long", "int", "type", "log", "exp", "abs", "neg", "clone", "contiguous", "float", "double", "to", "real", "conj", "log1p", "sigmoid", "square", "sqrt", "detach"}
REDUCERS = {"logsumexp", "sum", "amax", "amin", "prod", "mean", "max", "min"}
ALLOC = {"zeros", "ones", "full", "empty"}


def _param_rank(ctx: Ctx, c: ClassInfo, pname: str) -> int | None:
    """rank of ``self.<pname>()`` = 1 (folds) + length of the tuple property the constructor
    validates the parameter against."""
    for k in ctx.repo.mro(c):
        init = k.methods.get("__init__")
        if init is None:
            continue
        for n in ast.walk(init.node):
            if not (isinstance(n, ast.Call) and isinstance(n.func, ast.Attribute) and isinstance(n.func.value, ast.Name) and n.func.value.id == "self"):
                continue
            if not (len(n.args) == 1 and isinstance(n.args[0], ast.Name) and n.args[0].id == pname):
                continue
            vf = ctx.repo.lookup(c, n.func.attr)
            if vf is None:
                continue
            for cmp in ast.walk(vf.node):
                if isinstance(cmp, ast.Compare) and len(cmp.ops) == 1 and isinstance(cmp.ops[0], ast.Eq):
                    sides = [cmp.left, cmp.comparators[0]]
                    shp = [s for s in sides if isinstance(s, ast.Attribute) and s.attr == "shape"]
                    prop = [s for s in sides if isinstance(s, ast.Attribute) and isinstance(s.value, ast.Name) and s.value.id == "self" and s.attr != "shape"]
                    if shp and prop:
                        pf = ctx.repo.lookup(c, prop[0].attr)
                        if pf is None:
                            continue
                        rets = [r for r in walk_no_nested(pf.node) if isinstance(r, ast.Return) and r.value is not None]
                        lens = {len(r.value.elts) for r in rets if isinstance(r.value, ast.Tuple)}
                        if len(lens) == 1 and len(rets) == len([r for r in rets if isinstance(r.value, ast.Tuple)]):
                            return 1 + lens.pop()
        break
    return None


def _const_int(e: ast.AST | None) -> int | None:
    if isinstance(e, ast.Constant) and isinstance(e.value, int) and not isinstance(e.value, bool):
        return e.value
    if isinstance(e, ast.UnaryOp) and isinstance(e.op, ast.USub) and isinstance(e.operand, ast.Constant) and isinstance(e.operand.value, int):
        return -e.operand.value
    return None


def rank_of(ctx: Ctx, c: ClassInfo, ld: LocalDefs, e: ast.AST, depth: int = 0) -> int | None:
    if depth > 10:
        return None
    if isinstance(e, ast.Name):
        ds = ld.defs.get(e.id, [])
        rs = {rank_of(ctx, c, ld, d, depth + 1) for d in ds}
        if len(rs) == 1:
            return rs.pop()
        return None
    if isinstance(e, ast.Call):
        fn = e.func
        kws = {k.arg: k.value for k in e.keywords}
        if isinstance(fn, ast.Attribute):
            recv = fn.value
            name = fn.attr
            is_torch = isinstance(recv, ast.Name) and recv.id == "torch"
            # self.<param>()
            if isinstance(recv, ast.Name) and recv.id == "self" and not e.args and not e.keywords:
                return _param_rank(ctx, c, name)
            if is_torch and name in ALLOC:
                size = kws.get("size") or (e.args[0] if e.args else None)
                if isinstance(size, (ast.Tuple, ast.List)) and not any(isinstance(x, ast.Starred) for x in size.elts):
                    return len(size.elts)
                if size is not None and len(e.args) > 1 and all(not isinstance(a, (ast.Tuple, ast.List, ast.Starred)) for a in e.args) and name != "full":
                    return len(e.args)
                return None
            base = (e.args[0] if (is_torch and e.args) else (recv if not is_torch else None))
            rest = e.args[1:] if is_torch else e.args
            if base is None:
                return None
            if name in ELEMENTWISE:
                return rank_of(ctx, c, ld, base, depth + 1)
            if name in REDUCERS:
                r = rank_of(ctx, c, ld, base, depth + 1)
                dim = kws.get("dim") or (rest[0] if rest else None)
                if r is None or dim is None:
                    return None
                keep = kws.get("keepdim")
                if keep is not None and not (isinstance(keep, ast.Constant) and keep.value in (True, False)):
                    return None
                if isinstance(keep, ast.Constant) and keep.value is True:
                    return r
                if isinstance(dim, (ast.Tuple, ast.List)):
                    return r - len(dim.elts)
                return r - 1
            if name == "unsqueeze":
                r = rank_of(ctx, c, ld, base, depth + 1)
                return None if r is None else r + 1
            if name == "squeeze":
                r = rank_of(ctx, c, ld, base, depth + 1)
                dim = kws.get("dim") or (rest[0] if rest else None)
                if r is None or dim is None:
                    return None
                return r - 1
            return None
        return None
    if isinstance(e, ast.BinOp):
        a, b = rank_of(ctx, c, ld, e.left, depth + 1), rank_of(ctx, c, ld, e.right, depth + 1)
        if a is not None and b is not None:
            return max(a, b)
        return None
    if isinstance(e, ast.UnaryOp):
        return rank_of(ctx, c, ld, e.operand, depth + 1)
    if isinstance(e, ast.Subscript):
        r = rank_of(ctx, c, ld, e.value, depth + 1)
        if r is None:
            return None
        idx = e.slice.elts if isinstance(e.slice, ast.Tuple) else [e.slice]
        d = 0
        for i in idx:
            if isinstance(i, ast.Slice):
                continue
            if isinstance(i, ast.Constant) and i.value is None:
                d += 1
            elif _const_int(i) is not None:
                d -= 1
            else:
                return None
        return r + d
    return None


def rank_agreement(ctx: Ctx, base_q: str, method: str, expected: int, why_expected: str, require: int = 3) -> list[Ob]:
    base = ctx.repo.cls(base_q)
    out: list[Ob] = []
    resolved = 0
    for c in sorted(ctx.repo.subclasses(base, strict=True), key=lambda k: k.qualname):
        f = c.methods.get(method)
        if f is None or f.is_abstract:
            continue
        ld = LocalDefs(f.node)
        rets = [r for r in walk_no_nested(f.node) if isinstance(r, ast.Return) and r.value is not None]
        for k, r in enumerate(rets):
            inst = f"{method}:return#{k}"
            l = f"{f.module.relpath}:{r.lineno}"
            rk = rank_of(ctx, c, ld, r.value)
            if rk is None:
                out.append(unres("R4", c.qualname, inst, f"rank of {unparse(r.value)[:70]} not derived", l))
                continue
            resolved += 1
            if rk == expected:
                out.append(ok("R4", c.qualname, inst, f"rank {rk}: {unparse(r.value)[:70]}", l))
            else:
                out.append(
                    viol(
                        "R4",
                        c.qualname,
                        inst,
                        f"this return path yields a rank-{rk} tensor ({unparse(r.value)[:80]}) while the sibling paths / implementations yield "
                        f"rank {expected} {why_expected}: broadcasting then aligns the fold axis with the batch axis (wrong values when "
                        "batch == folds, an error otherwise)",
                        l,
                    )
                )
    if resolved < require:
        raise AnalysisError(f"floor missed: R4 resolved the rank of {resolved} return paths of {method}, expected at least {require}")
    return out


# ------------------------------------------------------------------------------- initialisers
def init_application(ctx: Ctx) -> list[Ob]:
    """Sibling agreement between the compiled initialisers and their application sites.

    A compiled initialiser that takes an axis is applied to tensors; either every site hands it the
    tensor *with* the leading fold axis (the whole ``(F, *shape)`` tensor, a slice ``t[i : i + 1]``) and
    the compile rule shifts non-negative axes by one, or every site hands it the un-folded slice
    (``t[i]``) and the rule does not shift.  A mixture cannot be right: the same initialiser would
    normalise different axes depending on whether the parameter was folded."""
    out: list[Ob] = []
    rules_mod = ctx.repo.module("cirkit.backend.torch.rules.initializers")
    shifting: list[str] = []
    plain: list[tuple[str, str]] = []
    for f in rules_mod.functions.values():
        shifted_here = False
        for n in ast.walk(f.node):
            if isinstance(n, ast.BinOp) and isinstance(n.op, ast.Add) and _const_int(n.right) == 1 and isinstance(n.left, ast.Attribute) and n.left.attr in ("axis", "dim"):
                shifted_here = True
        if shifted_here:
            shifting.append(f.qualname)
            continue
        for n in ast.walk(f.node):
            if isinstance(n, ast.keyword) and n.arg in ("dim", "axis") and isinstance(n.value, ast.Attribute) and n.value.attr in ("axis", "dim"):
                plain.append((f.qualname, f"{f.module.relpath}:{n.value.lineno}"))
    # application sites: a call whose callee is a parameter / loop variable / attribute named *initializer*
    sites: list[tuple[FuncInfo, str, str, str, str]] = []  # (function, instance, loc, kind, text)
    cands: list[FuncInfo] = [f for f in ctx.repo.iter_functions() if f.module.name.startswith("cirkit.backend.torch")]
    for f in cands:
        ld = LocalDefs(f.node)
        k = 0
        for n in walk_no_nested(f.node):
            if not isinstance(n, ast.Call) or len(n.args) != 1 or n.keywords:
                continue
            callee = n.func
            nm = callee.id if isinstance(callee, ast.Name) else (callee.attr if isinstance(callee, ast.Attribute) else "")
            if "initializer" not in nm or nm in ("compile_initializer", "retrieve_initializer_rule"):
                continue
            if isinstance(callee, ast.Name) and callee.id not in ld.defs and callee.id not in ld.params:
                continue
            arg = n.args[0]
            k += 1
            inst = f"apply#{k}:{unparse(n)[:50]}"
            l = f"{f.module.relpath}:{n.lineno}"
            if isinstance(arg, ast.Subscript):
                idx = arg.slice.elts if isinstance(arg.slice, ast.Tuple) else [arg.slice]
                first = idx[0]
                if isinstance(first, ast.Slice) or (isinstance(first, ast.Constant) and first.value is None) or isinstance(first, ast.Constant) and first.value is Ellipsis:
                    kind = "keeps"
                elif isinstance(first, ast.Name) or _const_int(first) is not None:
                    kind = "drops"
                else:
                    kind = "?"
            else:
                kind = "keeps"
            sites.append((f, inst, l, kind, unparse(arg)))
    if len(sites) < 2:
        raise AnalysisError(f"floor missed: R4 found {len(sites)} initialiser application sites, expected at least 2")
    keeps = [x for x in sites if x[3] == "keeps"]
    drops = [x for x in sites if x[3] == "drops"]
    if not shifting and not plain:
        out.append(unres("R4", "cirkit.backend.torch.rules.initializers", "fold-axis-shift", "no compiled initialiser forwards an axis: the rank clause has no premise"))
    for q in shifting:
        out.append(ok("R4", q, "fold-axis-shift", "non-negative axes are shifted by one: the initialiser expects a tensor with the leading fold axis", ctx.repo.func(q).loc))
    for q, l in plain:
        if keeps:
            out.append(viol("R4", q, "fold-axis-shift", f"the axis is forwarded unshifted although {len(keeps)} application site(s) hand the initialiser the tensor *with* the leading fold axis (e.g. {keeps[0][0].qualname}: `{keeps[0][4]}`): a non-negative axis lands one dimension too early there", l))
        else:
            out.append(ok("R4", q, "fold-axis-shift", "axis forwarded unshifted and every application site passes the un-folded slice", l))
    for f, inst, l, kind, txt in sites:
        if kind == "?":
            out.append(unres("R4", f.qualname, inst, f"index form {txt} not classified", l))
        elif kind == "drops" and (shifting or keeps):
            why = (f"the compiled initialisers ({shifting[0].split('.')[-1]}) shift non-negative axes by one because they expect it" if shifting else f"other sites (e.g. {keeps[0][0].qualname}) pass the tensor with the fold axis")
            out.append(viol("R4", f.qualname, inst, f"the initialiser is applied to {txt}: integer indexing drops the leading fold axis, but {why} -- the same initialiser normalises a different axis depending on whether the parameter was folded", l))
        elif kind == "drops":
            out.append(ok("R4", f.qualname, inst, "the initialiser receives the un-folded slice (and no rule shifts the axis)", l))
        elif kind == "keeps" and plain and not shifting:
            out.append(viol("R4", f.qualname, inst, f"the initialiser is applied to {txt}, which still has the leading fold axis, but the compile rules forward the symbolic axis unshifted: without folding a non-negative axis addresses the dimension before the intended one", l))
        else:
            out.append(ok("R4", f.qualname, inst, "the initialiser receives a tensor with the leading fold axis" + (" (a slice that keeps it)" if "[" in txt else ""), l))
    return out


# ------------------------------------------------------------------------------- batch squeeze
INPUT_FN = "cirkit.backend.torch.layers.input.TorchInputFunctionLayer"
ENTRY = ("forward", "log_unnormalized_likelihood")


def batch_squeeze(ctx: Ctx, require: int = 4) -> list[Ob]:
    """The input of an input-function layer is (F, B, D) with D == 1 pinned by the constructors.
    ``squeeze`` of axis 0 / 1 (or of all unit axes) of that *unchanged* input makes the rank of the
    result depend on the number of folds / the batch size: a batch of one row is then evaluated as
    if the fold axis were the batch ("each row depends only on its own row, whatever the batch
    size").  Axis 2 / -1 (the variable axis) is fine.  Followed one call level into helpers that
    receive the input unchanged."""
    base = ctx.repo.cls(INPUT_FN)
    out: list[Ob] = []
    analysed = 0

    def scan(c: ClassInfo, f: FuncInfo, pname: str, entry: str, depth: int) -> None:
        nonlocal analysed
        analysed += 1
        # first line at which pname is re-bound
        rebind = None
        for n in walk_no_nested(f.node):
            tgts = []
            if isinstance(n, ast.Assign):
                tgts = n.targets
            elif isinstance(n, (ast.AnnAssign, ast.AugAssign)):
                tgts = [n.target]
            v = getattr(n, "value", None)
            shape_preserving = (
                isinstance(v, ast.Call)
                and isinstance(v.func, ast.Attribute)
                and v.func.attr in ELEMENTWISE
                and isinstance(v.func.value, ast.Name)
                and v.func.value.id == pname
            )
            for t in tgts:
                for x in ast.walk(t):
                    if isinstance(x, ast.Name) and x.id == pname and not shape_preserving:
                        rebind = n.lineno if rebind is None else min(rebind, n.lineno)
        for n in walk_no_nested(f.node):
            if not isinstance(n, ast.Call) or (rebind is not None and n.lineno > rebind):
                continue
            fn = n.func
            # x.squeeze(..) / torch.squeeze(x, ..)
            recv = None
            rest = list(n.args)
            if isinstance(fn, ast.Attribute) and fn.attr == "squeeze":
                if isinstance(fn.value, ast.Name) and fn.value.id == "torch" and n.args:
                    recv, rest = n.args[0], list(n.args[1:])
                else:
                    recv = fn.value
            if recv is not None and isinstance(recv, ast.Name) and recv.id == pname:
                kws = {k.arg: k.value for k in n.keywords}
                dim = kws.get("dim") or (rest[0] if rest else None)
                d = _const_int(dim) if dim is not None else None
                inst = f"{entry}:{f.name}:{unparse(n)}"
                l = f"{f.module.relpath}:{n.lineno}"
                if dim is None or d in (0, 1, -3, -2):
                    which = "every unit axis" if dim is None else ("the batch axis" if d in (1, -2) else "the fold axis")
                    out.append(
                        viol(
                            "R4",
                            c.qualname,
                            inst,
                            f"{unparse(n)} squeezes {which} of the layer input (F, B, D): the rank of the result depends on the batch size / "
                            "number of folds, so a batch of a single row is mis-evaluated under folding (rows no longer independent of the batch size)",
                            l,
                        )
                    )
                elif d in (2, -1):
                    out.append(ok("R4", c.qualname, inst, "squeezes the variable axis (pinned to 1 by the constructor)", l))
                else:
                    out.append(unres("R4", c.qualname, inst, "squeeze axis not a literal", l))
            # helper receiving the input unchanged
            if depth < 1 and isinstance(fn, ast.Attribute) and isinstance(fn.value, ast.Name) and fn.value.id in ("self", "cls") or (
                depth < 1 and isinstance(fn, ast.Attribute) and isinstance(fn.value, ast.Name) and fn.value.id == c.name
            ):
                h = ctx.repo.lookup(c, fn.attr)
                if h is None or h.is_property:
                    continue
                hp = h.call_params
                for i, a in enumerate(n.args):
                    if isinstance(a, ast.Name) and a.id == pname and i < len(hp):
                        scan(c, h, hp[i].name, entry, depth + 1)
                for k in n.keywords:
                    if isinstance(k.value, ast.Name) and k.value.id == pname and k.arg in [p.name for p in hp]:
                        scan(c, h, k.arg, entry, depth + 1)

    for c in sorted(ctx.repo.subclasses(base, strict=True), key=lambda k: k.qualname):
        if not ctx.repo.is_concrete(c):
            continue
        for m in ENTRY:
            f = ctx.repo.lookup(c, m)
            if f is None or f.is_abstract or not f.call_params:
                continue
            before = len(out)
            scan(c, f, f.call_params[0].name, m, 0)
            if not any(o.status == "violation" for o in out[before:]):
                out.append(ok("R4", c.qualname, f"{m}:keeps-fold-and-batch-axes", "no squeeze of axis 0 / 1 of the unchanged layer input on this evaluation path", f.loc))
    if analysed < require:
        raise AnalysisError(f"floor missed: R4 analysed {analysed} input-layer evaluation methods, expected at least {require}")
    # de-duplicate (an inherited method is scanned once per concrete class: keep per class -- keys differ by class)
    return out
